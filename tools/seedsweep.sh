#!/bin/sh
# Run the quick check of each seeded change's own property against the change (scratch copies) and
# record the outcome: seeded/RESULTS.md and "caught_by" in each meta.json.
# usage: tools/seedsweep.sh [seed-dir-name ...]      (default: all under seeded/)
#        SEEDSWEEP_OUT=<file> writes the table elsewhere (parallel lanes; merge the rows afterwards)
VER=$(cd "$(dirname "$0")/.." && pwd)
cd "$VER" || exit 2
NAMES=${*:-$(ls seeded | grep -E '^C[0-9]+-[a-z]$')}
OUT=${SEEDSWEEP_OUT:-"$VER/seeded/RESULTS.md"}
TMP=$(mktemp)
for n in $NAMES; do
    id=${n%-*}
    if ! git -C /repo apply --check "$VER/seeded/$n/patch.diff" 2>/dev/null; then
        echo "| $n | PATCH DOES NOT APPLY to /repo HEAD | |" >> "$TMP"; continue
    fi
    res=$("$VER/tools/seedcheck.sh" "$n" "$id" 2>&1)
    sigs=$(printf '%s\n' "$res" | grep -E "violation in part" | sed -E 's/.*violation in part ([a-z_0-9]+): sig=([^ ]+).*/\1:\2/' | sort -u | tr '\n' ' ')
    if printf '%s\n' "$res" | grep -q "^VIOLATION"; then verdict="caught";
    elif printf '%s\n' "$res" | grep -q "^OK"; then verdict="MISSED";
    else verdict="NOT-RUN"; fi   # scratch setup or build failed (e.g. a concurrent `git worktree prune`): run it again
    echo "| $n | $verdict | $sigs |" >> "$TMP"
    python3 - "$VER/seeded/$n/meta.json" "$verdict" "$sigs" <<'PY'
import json,sys
p,v,s=sys.argv[1:4]
m=json.load(open(p)); m['caught_by']={'verdict':v,'check':m.get('property'),'tier':'quick','parts_and_signatures':s.split()}
json.dump(m,open(p,'w'),indent=1)
PY
done
{
  echo "# Seeded changes versus the quick tier of their own property's check"
  echo
  echo "(written by tools/seedsweep.sh at /verif $(git -C "$VER" rev-parse --short HEAD), /repo $(git -C /repo rev-parse --short HEAD))"
  echo
  echo "| seed | verdict | part:signature |"
  echo "|------|---------|----------------|"
  if [ -f "$OUT" ]; then
      # keep rows of seeds not re-run now
      grep -E '^\| C[0-9]+-[a-z] ' "$OUT" | while IFS= read -r row; do
          name=$(printf '%s' "$row" | sed -E 's/^\| (C[0-9]+-[a-z]) .*/\1/')
          grep -q "^| $name " "$TMP" || printf '%s\n' "$row"
      done
  fi
  cat "$TMP"
} | awk 'NR<=6 || 1' > "$OUT.new"
# sort the table rows
{ head -6 "$OUT.new"; tail -n +7 "$OUT.new" | sort -u; } > "$OUT"
rm -f "$OUT.new" "$TMP"
cat "$OUT"
