#!/usr/bin/env python3
"""Rebuild seeded/RESULTS.md from the caught_by entries that tools/seedsweep.sh wrote into each meta.json."""
import json, os, subprocess
HERE = os.path.dirname(os.path.dirname(os.path.abspath(__file__)))
def rev(d):
    return subprocess.run(["git", "-C", d, "rev-parse", "--short", "HEAD"], capture_output=True, text=True).stdout.strip()
rows = []
for n in sorted(os.listdir(os.path.join(HERE, "seeded"))):
    p = os.path.join(HERE, "seeded", n, "meta.json")
    if not os.path.exists(p):
        continue
    m = json.load(open(p))
    cb = m.get("caught_by", {})
    notes = []
    if m.get("note_rebased"):
        notes.append("re-ported")
    if m.get("neutralised_by"):
        notes.append("see meta.json: neutralised_by")
    rows.append(f"| {n} | {cb.get('verdict', 'not run')} | {' '.join(cb.get('parts_and_signatures', []))} | {', '.join(notes)} |")
with open(os.path.join(HERE, "seeded", "RESULTS.md"), "w") as f:
    f.write("# Seeded changes versus the quick tier of their own property's check\n\n")
    f.write(f"(verdicts written by tools/seedsweep.sh into each meta.json; table rebuilt by tools/seedresults.py at /verif {rev(HERE)}, /repo {rev('/repo')})\n\n")
    f.write("| seed | verdict | part:signature | note |\n|------|---------|----------------|------|\n")
    f.write("\n".join(rows) + "\n")
print(len(rows), "rows;", sum('| caught |' in r for r in rows), "caught")
