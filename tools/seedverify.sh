#!/bin/sh
# Confirm a seeded change independently: in a scratch worktree of /repo HEAD
#   1. the demonstration passes WITHOUT the change, 2. it fails WITH the change,
#   3. the touched crate's own tests still pass with the change (known root/timing failures aside).
# usage: tools/seedverify.sh <seeded-dir-name>     (writes seeded/<name>/verify.log)
set -u
NAME=${1:?}
VER=$(cd "$(dirname "$0")/.." && pwd)
DIR="$VER/seeded/$NAME"
WT=/tmp/seedverify/$NAME
export CARGO_TARGET_DIR=/tmp/seedverify/target CARGO_NET_OFFLINE=true
CRATE=$(python3 -c "import json;print(json.load(open('$DIR/meta.json'))['demo']['crate'])")
KIND=$(python3 -c "import json;print(json.load(open('$DIR/meta.json'))['demo'].get('kind','integration-test'))")
mkdir -p /tmp/seedverify
git -C /repo worktree add --detach "$WT" HEAD >/dev/null 2>&1 || { echo "worktree failed"; exit 2; }
LOG="$DIR/verify.log"; : > "$LOG"
run_demo() {
    if [ "$KIND" = "unit-test-patch" ]; then
        git -C "$WT" apply "$DIR/demo.diff" 2>>"$LOG"
        TESTNAME=$(python3 -c "import json;print(json.load(open('$DIR/meta.json'))['demo'].get('filter','seed_demo'))")
        (cd "$WT" && cargo test --offline -p "$CRATE" --lib "$TESTNAME" 2>&1 | grep -E "^test |test result|panicked" | head -20)
    else
        mkdir -p "$WT/$CRATE/tests"; cp "$DIR/demo.rs" "$WT/$CRATE/tests/seed_demo.rs"
        (cd "$WT" && cargo test --offline -p "$CRATE" --test seed_demo 2>&1 | grep -E "^test |test result|panicked|error" | head -20)
    fi
}
echo "== demo WITHOUT change" >> "$LOG"; run_demo >> "$LOG" 2>&1
git -C "$WT" apply "$DIR/patch.diff" 2>>"$LOG" || echo "PATCH DID NOT APPLY" >> "$LOG"
echo "== demo WITH change" >> "$LOG"; run_demo >> "$LOG" 2>&1
echo "== crate tests WITH change" >> "$LOG"
(cd "$WT" && cargo test --offline -p "$CRATE" --no-fail-fast 2>&1 | grep -E "test result|FAILED" | grep -v seed_demo | head -30) >> "$LOG" 2>&1
git -C /repo worktree remove --force "$WT"; git -C /repo worktree prune
cat "$LOG"
