#!/bin/sh
# Run the quick checks of the affected property (and optionally others) against one seeded change.
#   tools/seedcheck.sh <seeded-dir-name> [ID ...]      e.g. tools/seedcheck.sh C01-a C01 C10
# Uses an isolated scratch worktree + harness copy (tools/mutcheck.sh), so /repo is never touched.
# With SEED_IN_REPO=1 the patch is applied to /repo itself and reverted afterwards (only when nothing
# else is building from /repo).
set -u
NAME=${1:?seeded dir}; shift
VER=$(cd "$(dirname "$0")/.." && pwd)
DIR="$VER/seeded/$NAME"
[ -f "$DIR/patch.diff" ] || { echo "no $DIR/patch.diff"; exit 2; }
IDS=${*:-$(python3 -c "import json,sys;print(json.load(open('$DIR/meta.json'))['property'])")}
if [ "${SEED_IN_REPO:-0}" = 1 ]; then
    git -C /repo apply "$DIR/patch.diff" || exit 2
    for id in $IDS; do echo "== $NAME vs $id"; (cd "$VER" && ./check "$id" quick 2>&1 | grep -E "violation in|^OK|^VIOLATION|INCONCL" | cut -c1-300); done
    git -C /repo checkout -- .
else
    "$VER/tools/mutcheck.sh" "seed-$NAME" setup >/dev/null 2>&1
    git -C "/tmp/nvm/seed-$NAME/repo" apply "$DIR/patch.diff" || { "$VER/tools/mutcheck.sh" "seed-$NAME" clean; exit 2; }
    for id in $IDS; do echo "== $NAME vs $id"; "$VER/tools/mutcheck.sh" "seed-$NAME" run "$id" quick 2>&1 | grep -E "violation in|^OK|^VIOLATION|INCONCL" | cut -c1-300; done
    "$VER/tools/mutcheck.sh" "seed-$NAME" clean
fi
