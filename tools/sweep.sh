#!/bin/sh
# Run one tier of several checks one after the other, one log per check.
# usage: tools/sweep.sh <tier> <outdir> <ID>...     env VERIF_SEED is passed through
TIER=${1:?}; OUT=${2:?}; shift 2
VER=$(cd "$(dirname "$0")/.." && pwd)
mkdir -p "$OUT"
for id in "$@"; do
    s=$(date +%s)
    "$VER/check" "$id" "$TIER" > "$OUT/$id.log" 2>&1
    rc=$?
    echo "$id rc=$rc $(( $(date +%s) - s ))s $(grep -E '^(OK|VIOLATION|INCONCLUSIVE)' "$OUT/$id.log" | head -3 | tr '\n' ' ' | cut -c1-300)" >> "$OUT/SUMMARY"
done
echo done >> "$OUT/SUMMARY"
