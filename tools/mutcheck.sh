#!/bin/sh
# Sensitivity testing against a scratch copy, never against /repo itself.
#   tools/mutcheck.sh <name> setup            worktree of /repo HEAD at /tmp/nvm/<name>/repo + copy of /verif/harness
#                                             (path deps rewritten to the worktree, own target dir) at /tmp/nvm/<name>/verif
#   tools/mutcheck.sh <name> sync             re-copy harness sources from /verif into the scratch copy
#   tools/mutcheck.sh <name> run <ID> [tier]  build + run the check against the scratch worktree (edit files under
#                                             /tmp/nvm/<name>/repo first; `git -C /tmp/nvm/<name>/repo checkout -- .` to undo)
#   tools/mutcheck.sh <name> clean            remove worktree, copy and build output
set -eu
NAME=${1:?name}; CMD=${2:?cmd}
BASE=/tmp/nvm/$NAME
VER=$(cd "$(dirname "$0")/.." && pwd)
copy_harness() {
    mkdir -p "$BASE/verif"
    rsync -a --delete --exclude target --exclude .git --exclude evidence --exclude replays "$VER/" "$BASE/verif/"
    mkdir -p "$BASE/verif/evidence" "$BASE/verif/replays"
    sed -i "s#\"/repo/#\"$BASE/repo/#g" "$BASE/verif/harness/Cargo.toml"
}
case "$CMD" in
  setup)
    mkdir -p "$BASE"
    git -C /repo worktree add --detach "$BASE/repo" HEAD >/dev/null
    copy_harness
    echo "scratch repo: $BASE/repo   scratch verif: $BASE/verif"
    ;;
  sync) copy_harness ;;
  run)
    ID=${3:?id}; TIER=${4:-quick}
    shift 2
    cd "$BASE/verif" && NV_ROOT="$BASE/verif" ./check "$ID" "$TIER"
    ;;
  clean)
    git -C /repo worktree remove --force "$BASE/repo" 2>/dev/null || true
    rm -rf "$BASE"
    git -C /repo worktree prune
    ;;
  *) echo "unknown command"; exit 2 ;;
esac
