#!/usr/bin/env python3
"""Regenerates /verif/MANIFEST.json from the table below (single source of truth)."""
import json, os, subprocess
HERE = os.path.dirname(os.path.dirname(os.path.abspath(__file__)))

# id -> (category, technique, level text, level note, design ref)
CHECKS = {
 "C14": ("exploration",
   "stateful property-based testing (proptest): generated vault histories (grants with levels and TTLs, revocations, delegations, group membership edges, secret operations by several identities) against an access model written from the documentation with upper/lower bound tables; marker-based scan of store, snapshots, audit log and error texts for plaintext",
   "Histories of up to 40 operations by root and 3-5 identities over 3-4 secrets (set/get/list/rotate/delete, grant_with_permission, grant_with_ttl, revoke, delegate, revoke_delegation, MEMBER edges added and removed on vault.graph(), edges of non-listed types, permission probes) run on a real Vault with minimal key-derivation cost. Every allow/deny decision is compared with an independent access model (BFS over membership hops with attenuation, delegation ceilings, root = Admin) kept as an upper and a lower bound table for the places where the documentation leaves a choice; where both agree the decision is definite. Denied operations must change nothing. A second part adds 150 ms TTL grants and sleeps 190 ms before asserting denial. After each case every stored tensor, snapshot_bytes(), a saved snapshot file, all audit entries and all error texts are scanned for 8-byte markers of secret values and names in raw, hex, base64 and decimal form.",
   "Expiry is asserted only after sleeping past the TTL. A child has at most one delegating parent (the product's walk over a randomly hashed map would be nondeterministic otherwise). The namespace part of a name is documented as stored in clear and is not treated as secret. Known findings: expired grants honoured until the next read, delegated grant surviving revoke_delegation, MEMBER-prefixed edge types traversed, secret names in clear at three store sites.",
   "DESIGN.md section 1 C14"),
 "C18": ("exploration",
   "property-based testing (proptest) with independent reference algorithms over a model edge list: generated multigraphs and queries, validity predicates for returned paths (real walk, allowed direction, filter, optimal length/weight) and set/partition comparisons for enumerations and graph algorithms; child-process probe for non-terminating enumeration",
   "Generated multigraphs (1-24 nodes, directed and undirected, self-loops, parallel and antiparallel edges, two edge types, weight palettes incl. zero/equal/large/Int/Float/missing, filters; optional deletes and weight updates first) are queried through find_path, find_weighted_path, find_all_paths, find_all_weighted_paths, find_variable_paths, traverse, neighbors, astar_path and variable-length match_pattern, plus an all-pairs sweep on small graphs. Every returned path must be a walk over existing edges in an allowed direction that passes the filter and whose hop count / total weight equals the reference optimum (BFS; Dijkstra cross-checked with Bellman-Ford); not-found iff unreachable; enumerations are compared as sets with bounded reference enumerations. A second family checks components, SCC, MST, k-core, triangles, articulation points, bridges and biconnected blocks against brute-force references.",
   "Negative/NaN/infinite weights are not generated (outside the documented domain). Where the documentation leaves a choice (traverse through filtered nodes, cyclic walks through the end node) a subset/superset sandwich is used. A hang of the product is inconclusive (exit 2). 14 recorded findings (A*, biconnected, triangles, duplicates, backwards traversal of directed edges, zero-weight cycles).",
   "DESIGN.md section 1 C18"),
 "C11": ("exploration",
   "generated thread scripts + schedules under a deterministic scheduler (yield hooks inside embedding-class put/get/delete, between existence check and removal, around the WAL lock); recorded histories decided by a WGL linearizability search against a sequential map; durable order checked by recovering the log; real-thread stress with the same checker",
   "Scripted threads (2-8) of put/get/delete/exists/scan on 1-3 contended keys of one key class run under the harness's scheduler, which switches threads at the store.emb.put/get/del, store.delete.checked hooks and at operation boundaries following a generated schedule. Every written value is unique and, for embedding keys, stamped into every vector component and a sibling field, so a mixture of two writes is recognisable. Invocation/response stamps come from one counter; the history must be linearizable against a sequential map (WGL search with memoisation, per key when no scan is present), with direct corollaries (no value nobody wrote) reported first. The durable part runs put_durable/delete_durable scripts with yield points inside and after the WAL lock and requires that recovering a copy of the log gives exactly the in-memory state. A real-thread stress part feeds the same checker.",
   "The scheduler owns the interleaving only at hooked points and operation boundaries; with a hooked window locked, parked holders make other threads block and the scheduler falls back to a grace period (timing-dependent). Histories above 40 operations are not checked. Embedding values always carry a vector (sequential quirk of vector-less overwrites is outside this property).",
   "DESIGN.md section 1 C11"),
 "C06": ("exploration",
   "model-based property-based testing (proptest): generated store/delete/index-build/search histories over default and named collections; scores recomputed in f64; validity predicates (order, membership, top-k optimality with tie tolerance, exact read-back) instead of single expected answers; stale-index witnesses",
   "Histories of up to 40 operations (store, store-with-metadata, batch store, delete, batch delete, clear, build-and-cache-index, get, plain/per-metric/filtered search with all strategies, caller-held HNSW, named-collection equivalents incl. delete_collection) over vectors of mixed dimensions (dense, sparse, zero, duplicated, tiny components, exact ties) are checked against a model map: reads are exact; exhaustive searches must be sorted, contain only live keys of the query's dimension without duplicates, have length min(k, eligible), report each score within a stated tolerance of the f64 recomputation and omit no strictly better key; with a cached index only soundness (live keys, true scores, ordered, <= k) is asserted and any mutation after the build must make results exact again. A second part repeats this on 20-90 vectors stored in one batch.",
   "HNSW recall is not asserted (approximate by contract). Tie-breaking in the product depends on a randomly seeded set; cases are judged by validity predicates and failing candidates must fail three times in a row while shrinking. Known findings: several mutation paths do not invalidate the cached index; pre-filter ignores the collection metric; index path strips a user 'emb:' prefix; cached index consulted with a query of another dimension.",
   "DESIGN.md section 1 C06"),
 "C05": ("exploration",
   "stateful property-based testing (proptest) against a model edge set; generated thread scripts + schedules under a deterministic scheduler that owns the interleaving at yield hooks inside/before the adjacency read-modify-write; real-thread stress",
   "Sequential part: generated node/edge create/update/delete sequences (self-loops, parallel edges, directed and undirected); after every operation get_edge, all_edges, all_nodes, edges_of in all directions, degrees, neighbors (typed and untyped) and a BFS traverse must be exactly what the model edge set implies, plus order-free structural invariants read from the store. Concurrent parts: 2-8 scripted threads over <=5 shared nodes run under the harness's deterministic scheduler, which switches threads at the graph.adj.pre (before an adjacency update) or graph.adj.rmw (between the list read and write-back) hooks and at operation boundaries according to a generated schedule; at quiescence every edge whose creation returned Ok and that nothing deleted must exist and be listed by both endpoints in the right direction lists, deleted edges must be gone, and the structural invariants must hold. A real-thread stress part hammers one hub.",
   "The scheduler owns the interleaving only at the hooked points and operation boundaries; other windows are reached only by the probabilistic stress part. With the window locked, threads parked inside it make others block and the scheduler falls back to a grace period (timing-dependent, fewer cases). Known finding: create_edge has no exclusion against a concurrent delete_node (signatures carrying ':with-concurrent-delete-node').",
   "DESIGN.md section 1 C05"),
 "C04": ("exploration",
   "model-based and differential property-based testing (proptest): generated schemas, write histories (incl. transactions, index DDL, text DML) and condition trees; every execution strategy compared with a reference evaluator that is itself cross-checked against Condition::evaluate",
   "Generated tables (1-4 columns over all column types, nullable or not, edge-case value pool) go through up to 40 writes (insert/batch/update/delete, explicit transactions with commit or rollback, UPDATE/DELETE as text, hash/btree index creation and drops incl. _id, materialise). 3-8 generated condition trees (all operators, AND/OR/True, _id, cross-type literals) are then answered through select, count, select_with_limit windows, select_iter, the streaming cursor, select_columnar (both preferences, projections), count_column/sum/avg/min/max and as text through both router entry points, and every answer is compared with the harness's own evaluator over a BTreeMap model; the full table is compared after every write. A second part repeats this on tables of 64-1300 rows so that bitmap words, SIMD tails and batch boundaries are crossed.",
   "The reference evaluator is cross-checked against Condition::evaluate on every (row, condition); disagreement is reported as oracle-drift. Legacy text path only receives what its splitter can express. Failure signatures are diagnosed per execution path so that the ~8 recorded root causes do not hide other defects, at the cost of masking different bugs inside exactly those feature regions.",
   "DESIGN.md section 1 C04"),
 "C15": ("exploration",
   "property-based testing (proptest) + coverage-guided fuzzing (libFuzzer via cargo-fuzz, thorough tier) + child-process nesting probes: totality/determinism/span oracle on generated and mutated inputs, print/parse round trip of generated expression trees with the documented precedence table, differential execution of generated statements as text vs direct engine calls",
   "Totality: token soups, mutated/spliced corpus statements and arbitrary unicode go through tokenize/parse/parse_all/parse_expr: Ok or an error whose span lies inside the input, identical on re-parse, no panic; adversarial nesting (20 shapes x 4 entry points x 2 stack sizes, depth ladder to 100 000) runs in child processes so that a stack overflow is observed as a violation. Precedence: random expression trees to depth 8 are printed with minimal and with full parentheses by the harness's own printer implementing the documented table and must parse back to the same tree. Text = API: generated statements of every family run on one QueryRouter as text and on a twin through direct engine calls; results and final read-outs must agree. Thorough adds four libFuzzer campaigns whose artifacts are re-checked in the harness binary.",
   "Stack overflows count only for inputs up to 32 KiB (the property says a few kilobytes); a probe over 20 s is inconclusive. The quick tier replays a committed seed corpus instead of fuzzing. Known findings: no depth guard in the statement parser, negative literals and contextual-keyword column names refused by the text path, IF [NOT] EXISTS ignored, NULLS FIRST/LAST inverted under DESC, legacy execute() misreads WHERE clauses.",
   "DESIGN.md section 1 C15"),
 "C02": ("fault_enumeration",
   "property-based testing with fault injection: generated durable-write sequences under all sync modes; crash images at every/stratified byte of the crashing call's log bytes and at every crash-point hook inside checkpoint()/rotate(); recovered state must equal one recorded observable state not older than the last acknowledged write; chains of up to 3 crashes",
   "Generated put_durable/delete_durable/sync/checkpoint sequences over all key classes and value kinds run on a real durable TensorStore (immediate, batched and manual sync; normal and tiny log limits). The harness records the observable state (scan + get, bit-exact) after every call. At each generated crash point it builds crash images of the directory: the log cut at every byte (allcuts part / thorough) or at record boundaries +-1, header offsets and interior points of the bytes the call appended, and the directory exactly as it is at each crash_point hook inside checkpoint() and rotate(). TensorStore::recover runs on every image and must reproduce one of the recorded states from the last acknowledged call onwards; the generated image continues the chain with more writes and crashes.",
   "Process-kill crash model: bytes that reached the files survive, user-space buffers are lost, the crashing call may leave any byte prefix of what it appended; a dropped fsync is invisible. Oracle is differential against the store's own in-memory observable state. Slab-dimension embeddings are generated >50% zeros so that checkpoints store them exactly (lossy long dense vectors are C07's). Known finding: log rotation drops acknowledged writes.",
   "DESIGN.md section 1 C02"),
 "C03": ("exploration",
   "stateful property-based testing (proptest): message-level simulation of one real coordinator and 2-3 real participants with the harness as network and glue (deliver/drop/duplicate/reorder, sweeps, client aborts); decision/atomicity invariants after every step and store-vs-model comparison",
   "Histories of up to 3 overlapping transactions over 2-3 shards are generated at message granularity over one real DistributedTxCoordinator and real TxParticipants (each with its own pre-seeded TensorStore): Prepare/vote/Commit/Abort messages are delivered in any order, dropped or duplicated, timeouts are swept (1 ms regime with sleeps in 20% of cases), commits are attempted at any time, clients abort. After every step: at most one decision kind per transaction, commit only with every shard's accepted Yes, no participant applies without a commit decision, no applied/rolled-back split, every shard's store equals an independent model (aborted and timed-out transactions change nothing).",
   "The harness mirrors the reactions of cluster.rs / the TxHandler to each return value; participant-side unilateral cleanup is outside the quantifier. The model reads which transactions timed out from cleanup_timeouts (never predicts). Liveness is not asserted.",
   "DESIGN.md section 1 C03"),
 "C09": ("exploration",
   "stateful property-based testing (proptest): statement-granular interleavings of up to 4 open relational transactions plus non-transactional statements and index DDL over two tables, against a before-image reference model; lock-expiry regimes asserted in the sound direction only",
   "Programs of up to 40 (60) statements interleave up to four open transactions with plain statements, finished-handle calls and index creation/drops over two tables. After every step the lock table, transaction table, a full scan and every indexed read path (hash Eq, btree ranges, _id, AND combinations) are compared as multisets with a model that keeps per-transaction before-images (rollback = restore touched rows; shares nothing with the product's undo log). Statements matching rows locked by another open transaction must be refused with LockConflict and change nothing, and succeed after the holder ends; finished handles are refused. Two small regimes check lock expiry (0 s and 1 s timeouts) only after sleeping past the deadline.",
   "One thread, statement granularity (each tx_* call takes its locks internally) - races inside one call are not explored. Plain select is compared with the in-place (read-uncommitted) image. Statements touching another transaction's uncommitted inserts are skipped and counted.",
   "DESIGN.md section 1 C09"),
 "C12": ("exploration",
   "stateful property-based testing (proptest) of LockManager/WaitForGraph/coordinator/participant call sequences against a reference lock table; exhaustive enumeration of all digraphs on <=5 transactions against an independent transitive-closure cycle test; real-thread stress with an external mutual-exclusion monitor",
   "Generated call sequences on LockManager + WaitForGraph, through DistributedTxCoordinator and through TxParticipant are compared after every call with a reference lock table (grant iff no requested key is held by another unexpired transaction, all-or-nothing grants, nothing held or waiting after commit/abort/timeout, serialisation round trip). Every digraph on 2-5 transactions (1 052 740 graphs, exhaustive) and random 3-8-node histories are fed through add_wait/remove_wait/remove_transaction and cycle detection, victims and would_create_cycle are checked against a transitive-closure reference. Two expiry regimes assert only that an expired lock is gone after sleeping past the timeout. A real-thread stress pass records grant histories checked by an owner-cell monitor.",
   "Method calls hold the lock tables for their whole body, so call-granular interleaving in one thread equals the thread interleaving space; the stress pass is probabilistic. Victim policies depending on wall-clock wait starts are not checked. Wait-for edges are checked as an upper bound plus consistency, not for equality.",
   "DESIGN.md section 1 C12"),
 "C13": ("fault_enumeration",
   "property-based testing with fault injection: generated coordinator call scripts; TxWal cut at every byte of each crashing call; recovered coordinator compared with an independent reference classification and driven to completion; chains of up to 3 crashes",
   "Generated scripts of begin / votes (duplicate, late, contradicting, foreign shard) / commit / abort / complete_* / sweeps / recover() drive a real DistributedTxCoordinator with a TxWal. At each generated crash call the log is cut at EVERY byte the call wrote; for each prefix a fresh coordinator runs recover_from_wal and is compared with the harness's own classification of the records wholly inside the prefix (completed => not pending and not reversible; Prepared/Committing/Aborting => pending with exactly the accepted votes and drivable to completion; still preparing => forgotten; no locks). The generated cut continues the chain (appends after a torn tail, further crashes); the whole surviving log never holds two different completions for one transaction; an acknowledged commit()/abort() has its TxComplete record in the log on return.",
   "Crash model: bytes after the cut are lost, none before (dropped fsync invisible). Record payloads are decoded with the product's bitcode schema (codec only). Timeouts are 1 h so wall clock never decides; the 5 s timeout of restored transactions is never awaited.",
   "DESIGN.md section 1 C13"),
 "C10": ("fault_enumeration",
   "property-based testing with fault injection: generated protocol scripts on a real RaftNode::with_wal; WAL cut at every byte (thorough) / stratified bytes (quick) of each crashing step; obligations collected from the node's own replies; chains of up to 3 crashes",
   "Generated scripts (vote requests, appends of every shape incl. conflicts and resends, own elections, leadership + proposals, snapshot installs) drive one real RaftNode::with_wal. At each generated crash step the WAL file is cut at every byte position the step wrote (all positions in thorough and in the crash_allcuts part, record boundaries +-1 / header offsets / interior points otherwise), a node is rebuilt from each prefix and checked against the obligations the node itself created by answering (term acted on, vote granted per term incl. a behavioural probe by a competing candidate, entries acknowledged or accepted as leader), plus exact state equality when nothing was lost; the generated cut continues the chain (writes after a torn tail, further crashes).",
   "Crash model: everything after a byte position of the append-only file is lost, nothing before it (a dropped fsync is invisible). A reply counts as emitted only if every byte its step wrote survived. Entries replaced by a later accepted AppendEntries / snapshot install are legitimately gone (also when that step was interrupted). Messages are well-formed and built from the node's current log.",
   "DESIGN.md section 1 C10"),
 "C01": ("exploration",
   "stateful property-based testing (proptest): generated message/timer/crash histories over real RaftNodes with the harness as the network; Raft safety invariants checked after every step; scenario-skeleton seed corpus; directed election suffix",
   "Histories of deliveries (any order, loss, duplication), election timeouts, pre-vote, proposals and crash/restart from the real RaftWal file or a TensorStore image are generated over 3 or 5 real RaftNode objects whose only link is a harness-owned message bag. After every step: election safety, log matching, state-machine safety (global index->entry map of everything any node reported committed), leader completeness, monotone terms/commit index, clean-restart equality. Every node lacking a committed entry is additionally given a full election at the end (it must not win). Sampling, no proof of absence.",
   "Trusts: handle_message is the only way a node learns of a message; crash = drop the node between two handler calls and rebuild from its durable state (torn writes are C10's domain); the harness may retransmit a candidate's RequestVote. Snapshot install/compaction and membership change are outside the property's quantifier and not generated.",
   "DESIGN.md section 1 C01"),
 "C17": ("exploration",
   "property-based testing (proptest): permuted/batched/repeated delivery of generated update multisets to two replicas, reference max-register oracle; exhaustive small multisets; stateful event histories",
   "Generated multisets of membership updates are delivered to two real LWWMembershipState replicas (and two GossipMembershipManagers) in different orders/batchings/repetitions and the views are compared with each other and with an independent reference maximum; all multisets of <=3/4 updates over a tiny domain are enumerated against every order; event histories over 3-4 replicas check monotone incarnation/clock and 'never Failed above an announced incarnation' after every step. Sampling: holds on everything explored, no proof of absence.",
   "Trusts the harness's reference fold and its model of how nodes produce updates (a member announces only its own incarnations). Views compared are (health, incarnation).",
   "DESIGN.md section 1 C17"),
}

def main():
    props = [json.loads(l) for l in open(os.path.join(HERE, "properties.jsonl"))]
    hooks_commits = []
    try:
        out = subprocess.run(["git", "-C", "/repo", "log", "--format=%h %s"], capture_output=True, text=True).stdout
        hooks_commits = [l.split()[0] for l in out.splitlines() if l.split(" ", 1)[1].startswith("verif hooks")]
    except Exception:
        pass
    checks = []
    na = []
    for p in props:
        pid = p["id"]
        if pid in CHECKS:
            cat, tech, text, note, ref = CHECKS[pid]
            checks.append({
                "property_id": pid,
                "quick_cmd": f"./check {pid} quick",
                "thorough_cmd": f"./check {pid} thorough",
                "evidence_file": f"/verif/evidence/{pid}.json",
                "replay_cmd_template": f"./check {pid} --replay {{path}}",
                "engine": "nv",
                "level_claimed": {"category": cat, "text": text, "design_ref": ref},
                "level_note": note,
                "technique": tech,
            })
        else:
            na.append({"property_id": pid, "reason": "check not built yet in this revision of /verif (planned: see DESIGN.md section 1); not claimed until its check exists and is validated"})
    m = {
        "version": 1,
        "setup_cmd": "./setup.sh",
        "hooks": {
            "guard": "--cfg neumann_verif (rustc cfg flag; no cargo feature)",
            "enable": "RUSTFLAGS='--cfg neumann_verif' (set by ./check and harness/.cargo/config.toml); the harness links /repo crates by path, so every check rebuilds from /repo's working tree",
            "baseline_off_cmd": "cd /repo && cargo nextest run --workspace --no-fail-fast --test-threads 8 --offline || cargo test --workspace --no-fail-fast --offline",
            "source_commits": hooks_commits,
            "add_only": True,
        },
        "engines": [{
            "name": "nv",
            "path": "harness/",
            "serves_properties": sorted(CHECKS.keys()),
            "kind_free_text": "Rust workspace: nv_engine (proptest runner sharded over threads, known-finding signatures, shrinking to replay files, deterministic thread scheduler on yield hooks, crash kit: byte-prefix truncation / abort-at-hook child / RLIMIT_FSIZE child, independent WAL frame reader) + one binary crate per property; cargo-fuzz targets under fuzz/",
        }],
        "checks": checks,
        "not_applicable": na,
        "notes": "Exit codes: 0 held, 1 VIOLATION, 2 inconclusive (build failure/watchdog). Seeds: VERIF_SEED. known_findings.json lists recorded and fixed defects.",
    }
    json.dump(m, open(os.path.join(HERE, "MANIFEST.json"), "w"), indent=1)
    pk = " ".join("-p nv_" + c["property_id"].lower() for c in checks)
    with open(os.path.join(HERE, "setup.sh"), "w") as f:
        f.write("#!/bin/sh\n# generated by tools/gen_manifest.py: builds the engine and every claimed property crate, offline\nset -e\ncd \"$(dirname \"$0\")/harness\"\nexport CARGO_NET_OFFLINE=true\nexport RUSTFLAGS=\"--cfg neumann_verif\"\nunset CARGO_TARGET_DIR CARGO_ENCODED_RUSTFLAGS CARGO_BUILD_RUSTFLAGS 2>/dev/null || true\nexec cargo build --release " + pk + "\n")
    os.chmod(os.path.join(HERE, "setup.sh"), 0o755)
    print("checks:", len(checks), "not_applicable:", len(na))

main()
