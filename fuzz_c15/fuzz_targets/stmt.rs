#![no_main]
//! libFuzzer target `stmt` of C15: the body lives in nv_c15::targets so that the harness binary can
//! replay corpus files and crash artifacts through exactly the same oracle.
use libfuzzer_sys::fuzz_target;

fuzz_target!(|data: &[u8]| {
    if let Err(f) = nv_c15::targets::run("stmt", data) {
        panic!("C15 oracle: {} :: {}", f.sig, f.msg);
    }
});
