#!/usr/bin/env python3
"""Sync the C15 entries of /verif/known_findings.json from fuzz_c15/known_c15.json
(re-reads the shared file right before writing; touches only C15 entries)."""
import json
p = '/verif/known_findings.json'
mine = json.load(open('/verif/fuzz_c15/known_c15.json'))
d = json.load(open(p))
d['known'] = [k for k in d['known'] if k['property'] != 'C15'] + mine
open(p, 'w').write(json.dumps(d, indent=2, ensure_ascii=False) + '\n')
print(len(mine), 'C15 entries;', len(d['known']), 'total')
