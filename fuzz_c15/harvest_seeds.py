#!/usr/bin/env python3
"""Harvest statement / expression seeds from /repo docs and tests (read-only) into
harness/props/c15/src/seeds.txt (one per line). Run once; the result is committed."""
import re, sys, os, glob
out = []
seen = set()
def add(s):
    s = " ".join(s.replace("\\n", " ").split())
    if not s or len(s) > 400 or s in seen: return
    if not s.isascii(): return
    seen.add(s); out.append(s)

# 1. fenced sql blocks of the book
for md in glob.glob("/repo/docs/book/src/**/*.md", recursive=True) + ["/repo/README.md"]:
    try: text = open(md, encoding="utf-8").read()
    except Exception: continue
    for block in re.findall(r"```sql\n(.*?)```", text, re.S):
        cur = []
        for line in block.splitlines():
            if not line.strip():
                if cur: add(" ".join(cur)); cur = []
                continue
            if line.startswith((" ", "\t")) or (cur and not re.match(r"^[A-Z]{3,}", line)):
                cur.append(line.strip())
            else:
                if cur: add(" ".join(cur))
                cur = [line.strip()]
        if cur: add(" ".join(cur))

# 2. string literals passed to parse-like functions in tests
pat = re.compile(r'(?:parse_stmt|parse_all|parse_expr|parse_err|parse|tokenize|tokens|execute_parsed|execute)\(\s*\n?\s*"((?:[^"\\]|\\.)*)"', re.S)
for rs in ["/repo/neumann_parser/src/parser.rs", "/repo/neumann_parser/src/expr.rs", "/repo/neumann_parser/src/lexer.rs",
           "/repo/neumann_parser/src/lib.rs", "/repo/query_router/src/lib.rs"] + glob.glob("/repo/integration_tests/tests/*.rs"):
    try: text = open(rs, encoding="utf-8").read()
    except Exception: continue
    for m in pat.findall(text):
        if "{" in m and "}" in m and re.search(r"\{[a-z_]*\}", m):  # format! placeholders
            continue
        s = m.replace('\\"', '"').replace("\\\\", "\\")
        add(s)
out.sort(key=lambda s: (len(s), s))
# keep it small: all short ones, thin out long ones
keep = [s for i, s in enumerate(out) if len(s) <= 120 or i % 3 == 0]
keep = keep[:1500]
open("/verif/harness/props/c15/src/seeds.txt", "w").write("\n".join(keep) + "\n")
print(len(out), "harvested;", len(keep), "kept;", sum(len(s) for s in keep), "bytes")
