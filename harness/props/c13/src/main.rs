//! C13 — 2PC coordinator restart preserves every logged decision.
//!
//! A real `DistributedTxCoordinator` with a `TxWal` is driven by generated calls (begin, votes
//! incl. duplicate/late/contradicting ones, commit, abort, sweeps, recovery calls). At generated
//! crash points the log is cut at EVERY byte position the crashing call wrote; a fresh coordinator
//! is recovered from each prefix and compared with a reference classification computed by the
//! harness from the records wholly inside the prefix (own frame reader). The generated cut
//! continues the chain: more calls on the recovered coordinator, up to three crashes.

mod intent;
use nv_engine::{main_for, pick, walframe, CaseCtx, Fail, PropDef, PropPart, Tier};
use proptest::prelude::*;
use serde::{Deserialize, Serialize};
use std::collections::BTreeMap;
use std::path::{Path, PathBuf};
use tensor_chain::consensus::{ConsensusManager, DeltaVector};
use tensor_chain::distributed_tx::{DistributedTxConfig, DistributedTxCoordinator, PrepareVote, TxPhase};
use tensor_chain::tx_wal::{PrepareVoteKind, TxOutcome, TxWal, TxWalEntry};

#[derive(Clone, Debug, Serialize, Deserialize)]
enum VoteKind {
    Yes,
    No,
    Conflict,
}

#[derive(Clone, Debug, Serialize, Deserialize)]
enum Call {
    Begin(u8),
    Vote(u16, u8, VoteKind),
    /// every missing shard votes yes (keeps the generator productive)
    AllYes(u16),
    Commit(u16),
    Abort(u16),
    CompleteCommit(u16),
    CompleteAbort(u16),
    Sweep,
    /// the in-memory recovery pass (`recover()`), as run after a restart
    RecoverPass,
}

#[derive(Clone, Debug, Serialize, Deserialize)]
struct Scripted {
    call: Call,
    crash: Option<u16>,
}

#[derive(Clone, Debug, Serialize, Deserialize)]
struct Case {
    calls: Vec<Scripted>,
}

fn call_strategy() -> impl Strategy<Value = Call> {
    let vk = prop_oneof![6 => Just(VoteKind::Yes), 2 => Just(VoteKind::No), 1 => Just(VoteKind::Conflict)];
    prop_oneof![
        4 => (1u8..4).prop_map(Call::Begin),
        8 => (any::<u16>(), 0u8..3, vk).prop_map(|(t, s, k)| Call::Vote(t, s, k)),
        4 => any::<u16>().prop_map(Call::AllYes),
        6 => any::<u16>().prop_map(Call::Commit),
        3 => any::<u16>().prop_map(Call::Abort),
        2 => any::<u16>().prop_map(Call::CompleteCommit),
        2 => any::<u16>().prop_map(Call::CompleteAbort),
        1 => Just(Call::Sweep),
        1 => Just(Call::RecoverPass),
    ]
}

fn case_strategy(t: Tier) -> impl Strategy<Value = Case> {
    let max = t.pick(24usize, 32usize);
    prop::collection::vec((call_strategy(), prop::option::weighted(0.2, any::<u16>())), 1..max)
        .prop_map(|v| Case { calls: v.into_iter().map(|(call, crash)| Scripted { call, crash }).collect() })
}

// ------------------------------------------------------------------ reference

/// One surviving log record as the harness sees it.
#[derive(Clone, Debug)]
struct Rec {
    end: usize,
    entry: TxWalEntry,
    /// for PrepareVote records: did the live coordinator accept the vote?
    accepted: bool,
}

#[derive(Clone, Debug, Default, PartialEq)]
struct RefTx {
    participants: Vec<usize>,
    /// accepted votes: shard -> yes?
    votes: BTreeMap<usize, bool>,
    phase: Option<TxPhase>,
    outcome: Option<bool>, // Some(true) committed, Some(false) aborted
}

fn classify(recs: &[Rec]) -> BTreeMap<u64, RefTx> {
    let mut m: BTreeMap<u64, RefTx> = BTreeMap::new();
    for r in recs {
        match &r.entry {
            TxWalEntry::TxBegin { tx_id, participants } => {
                m.insert(*tx_id, RefTx { participants: participants.clone(), phase: Some(TxPhase::Preparing), ..Default::default() });
            },
            TxWalEntry::PrepareVote { tx_id, shard, vote } => {
                if r.accepted {
                    if let Some(t) = m.get_mut(tx_id) {
                        t.votes.entry(*shard).or_insert(matches!(vote, PrepareVoteKind::Yes { .. }));
                    }
                }
            },
            TxWalEntry::PhaseChange { tx_id, to, .. } => {
                if let Some(t) = m.get_mut(tx_id) {
                    t.phase = Some(*to);
                }
            },
            TxWalEntry::TxComplete { tx_id, outcome } => {
                if let Some(t) = m.get_mut(tx_id) {
                    if t.outcome.is_none() {
                        t.outcome = Some(matches!(outcome, TxOutcome::Committed));
                    }
                }
            },
            _ => {},
        }
    }
    m
}

// ------------------------------------------------------------------ driver

struct Driver {
    dir: nv_engine::scratch::Dir,
    gen: u32,
    wal: PathBuf,
    coord: DistributedTxCoordinator,
    /// records that survive in the current file, in order
    recs: Vec<Rec>,
    /// offset where records written by the current incarnation start
    base: usize,
    /// transaction ids in creation order (handles)
    txs: Vec<u64>,
    next_handle: u64,
    torn_tail_pending: bool,
    torn_tail_then_append: bool,
}

fn open_coord(path: &Path) -> Result<DistributedTxCoordinator, String> {
    // wall clock must never decide anything in this check
    open_coord_with(path, 3_600_000)
}

/// `timeout_ms`: 1 h everywhere except in the `intent` part, whose first coordinator lets its
/// prepared transaction time out (1 ms, swept after a 25 ms sleep).
fn open_coord_with(path: &Path, timeout_ms: u64) -> Result<DistributedTxCoordinator, String> {
    let wal = TxWal::open(path).map_err(|e| format!("TxWal::open: {e}"))?;
    let mut cfg = DistributedTxConfig::default();
    cfg.prepare_timeout_ms = timeout_ms;
    cfg.commit_timeout_ms = timeout_ms;
    Ok(DistributedTxCoordinator::new(ConsensusManager::default_config(), cfg).with_wal(wal))
}

fn file_len(p: &Path) -> usize {
    std::fs::metadata(p).map(|m| m.len() as usize).unwrap_or(0)
}

impl Driver {
    fn new() -> Result<Self, Fail> {
        let dir = nv_engine::scratch::Dir::new("c13");
        let wal = dir.join("tx-0.wal");
        let coord = open_coord(&wal).map_err(|e| Fail::new("harness", e))?;
        Ok(Self { dir, gen: 0, wal, coord, recs: Vec::new(), base: 0, txs: Vec::new(), next_handle: 1, torn_tail_pending: false, torn_tail_then_append: false })
    }

    fn tx(&self, h: u16) -> Option<u64> {
        if self.txs.is_empty() {
            None
        } else {
            Some(self.txs[pick(h, self.txs.len())])
        }
    }

    fn vote(&mut self, k: &VoteKind) -> PrepareVote {
        let h = self.next_handle;
        self.next_handle += 1;
        match k {
            VoteKind::Yes => PrepareVote::Yes { lock_handle: h, delta: DeltaVector::zero(0) },
            VoteKind::No => PrepareVote::No { reason: "no".into() },
            VoteKind::Conflict => PrepareVote::Conflict { similarity: 0.9, conflicting_tx: 1 },
        }
    }

    /// Parse the records appended since `from` and tag vote acceptance in call order.
    fn absorb(&mut self, from: usize, accepted: &[bool]) -> Result<(), Fail> {
        let bytes = std::fs::read(&self.wal).map_err(|e| Fail::new("harness", e.to_string()))?;
        let mut vi = 0;
        for f in walframe::frames(&bytes[from..]) {
            let payload = &bytes[from + f.start + 8..from + f.end];
            let entry: TxWalEntry = bitcode::deserialize(payload)
                .map_err(|e| Fail::new("coordinator-wrote-undecodable-record", format!("the bytes the coordinator appended during this call do not frame into decodable records (a gap or garbage inside the log): {e}")))?;
            let mut acc = true;
            if matches!(entry, TxWalEntry::PrepareVote { .. }) {
                acc = accepted.get(vi).copied().unwrap_or(false);
                vi += 1;
            }
            self.recs.push(Rec { end: from + f.end, entry, accepted: acc });
        }
        Ok(())
    }

    fn exec(&mut self, call: &Call, ctx: &mut CaseCtx) -> Result<(), Fail> {
        let from = file_len(&self.wal);
        let mut accepted: Vec<bool> = Vec::new();
        let mut acked: Option<(u64, bool)> = None;
        match call {
            Call::Begin(k) => {
                let parts: Vec<usize> = (0..*k as usize).collect();
                if let Ok(tx) = self.coord.begin(&"coord".to_string(), &parts) {
                    self.txs.push(tx.tx_id);
                    ctx.label("call:begin");
                }
            },
            Call::Vote(h, s, k) => {
                if let Some(id) = self.tx(*h) {
                    let v = self.vote(k);
                    let r = self.coord.record_vote(id, *s as usize, v);
                    accepted.push(r.is_ok());
                    match r {
                        Ok(_) => ctx.label("call:vote accepted"),
                        Err(_) => ctx.label("call:vote rejected (late/duplicate/unknown)"),
                    }
                }
            },
            Call::AllYes(h) => {
                if let Some(id) = self.tx(*h) {
                    if let Some(tx) = self.coord.get(id) {
                        for s in tx.participants.clone() {
                            if !tx.votes.contains_key(&s) {
                                let v = self.vote(&VoteKind::Yes);
                                accepted.push(self.coord.record_vote(id, s, v).is_ok());
                            }
                        }
                    }
                }
            },
            Call::Commit(h) => {
                if let Some(id) = self.tx(*h) {
                    if self.coord.commit(id).is_ok() {
                        acked = Some((id, true));
                        ctx.label("call:commit ok");
                    }
                }
            },
            Call::Abort(h) => {
                if let Some(id) = self.tx(*h) {
                    if self.coord.abort(id, "client").is_ok() {
                        acked = Some((id, false));
                        ctx.label("call:abort ok");
                    }
                }
            },
            Call::CompleteCommit(h) => {
                if let Some(id) = self.tx(*h) {
                    if self.coord.complete_commit(id).is_ok() {
                        ctx.label("call:complete_commit ok");
                    }
                }
            },
            Call::CompleteAbort(h) => {
                if let Some(id) = self.tx(*h) {
                    if self.coord.complete_abort(id).is_ok() {
                        ctx.label("call:complete_abort ok");
                    }
                }
            },
            Call::Sweep => {
                let _ = self.coord.cleanup_timeouts();
                let _ = self.coord.take_pending_aborts();
            },
            Call::RecoverPass => {
                let _ = self.coord.recover();
            },
        }
        self.absorb(from, &accepted)?;
        // an acknowledged decision must be in the log when the call returns (log before state change)
        if let Some((id, committed)) = acked {
            let logged = self.recs.iter().any(|r| {
                matches!(&r.entry, TxWalEntry::TxComplete { tx_id, outcome } if *tx_id == id && matches!(outcome, TxOutcome::Committed) == committed)
            });
            if !logged {
                ctx.fail(
                    "acknowledged-decision-not-logged",
                    format!("{}() returned Ok for transaction {id} but the log holds no matching TxComplete record", if committed { "commit" } else { "abort" }),
                )?;
            }
        }
        self.check_live_votes_match_log(ctx)?;
        self.check_no_reversal(ctx)
    }

    /// What the coordinator holds in memory for a pending transaction is what a restart would
    /// rebuild from the log: the votes it counts are exactly the logged votes it accepted. (A vote
    /// that is logged and acknowledged but not counted - or counted but not logged - makes the
    /// restarted coordinator decide differently from the one that crashed.)
    fn check_live_votes_match_log(&self, ctx: &mut CaseCtx) -> Result<(), Fail> {
        let reference = classify(&self.recs);
        for id in &self.txs {
            let (Some(live), Some(r)) = (self.coord.get(*id), reference.get(id)) else { continue };
            let live_votes: BTreeMap<usize, bool> = live.votes.iter().map(|(s, v)| (*s, matches!(v, PrepareVote::Yes { .. }))).collect();
            if live_votes != r.votes {
                let suffix = if self.torn_tail_then_append { "-after-torn-tail" } else { "" };
                return ctx.fail(
                    format!("live-votes-differ-from-log{suffix}"),
                    format!(
                        "transaction {id}: the coordinator counts the votes {live_votes:?} (shard -> yes) but the log it wrote holds the accepted votes {:?}; a restart would rebuild the latter",
                        r.votes
                    ),
                );
            }
        }
        Ok(())
    }

    /// Over the surviving log: no transaction has completion records of both kinds.
    fn check_no_reversal(&self, ctx: &mut CaseCtx) -> Result<(), Fail> {
        let mut seen: BTreeMap<u64, bool> = BTreeMap::new();
        for r in &self.recs {
            if let TxWalEntry::TxComplete { tx_id, outcome } = &r.entry {
                let c = matches!(outcome, TxOutcome::Committed);
                if let Some(prev) = seen.get(tx_id) {
                    if *prev != c {
                        let sig = if self.torn_tail_then_append { "outcome-reversed-after-torn-tail" } else { "outcome-reversed" };
                        return ctx.fail(
                            sig,
                            format!("transaction {tx_id} has a logged completion as {} and a later one as {}", name(*prev), name(c)),
                        );
                    }
                }
                seen.insert(*tx_id, c);
            }
        }
        Ok(())
    }

    /// Recover a fresh coordinator from `path` and compare with the reference for `recs`.
    /// `probe` = also try to drive every transaction (mutates the probe copy).
    fn check_recovery(&self, path: &Path, recs: &[Rec], ctx: &mut CaseCtx, what: &str, probe: bool) -> Result<Option<DistributedTxCoordinator>, Fail> {
        let suffix = if self.torn_tail_then_append { "-after-torn-tail" } else { "" };
        let coord = match open_coord(path) {
            Ok(c) => c,
            Err(e) => {
                ctx.fail(format!("open-failed{suffix}"), format!("{what}: {e}"))?;
                return Ok(None);
            },
        };
        if let Err(e) = coord.recover_from_wal() {
            ctx.fail(
                format!("recovery-failed{suffix}"),
                format!("{what}: recover_from_wal failed on a prefix of the coordinator's own log: {e}"),
            )?;
            return Ok(None);
        }
        let reference = classify(recs);
        for (id, rt) in &reference {
            let got = coord.get(*id);
            match (rt.outcome, rt.phase) {
                (Some(c), _) => {
                    if let Some(g) = &got {
                        ctx.fail(
                            format!("completed-tx-pending-again{suffix}"),
                            format!("{what}: transaction {id} was logged complete ({}) but is pending again in phase {:?}", name(c), g.phase),
                        )?;
                    }
                    if probe {
                        if coord.commit(*id).is_ok() && !c {
                            ctx.fail(format!("aborted-tx-committed{suffix}"), format!("{what}: transaction {id} was logged aborted; commit() succeeded after recovery"))?;
                        }
                        if coord.abort(*id, "probe").is_ok() && c {
                            ctx.fail(format!("committed-tx-aborted{suffix}"), format!("{what}: transaction {id} was logged committed; abort() succeeded after recovery"))?;
                        }
                    }
                },
                (None, Some(ph @ (TxPhase::Prepared | TxPhase::Committing | TxPhase::Aborting))) => {
                    let Some(g) = got else {
                        ctx.fail(
                            format!("undecided-tx-forgotten{suffix}"),
                            format!("{what}: transaction {id} was logged in phase {ph:?} without an outcome but is absent after recovery"),
                        )?;
                        continue;
                    };
                    if g.phase != ph {
                        ctx.fail(format!("phase-changed{suffix}"), format!("{what}: transaction {id} logged in phase {ph:?} came back as {:?}", g.phase))?;
                    }
                    let gv: BTreeMap<usize, bool> = g.votes.iter().map(|(s, v)| (*s, matches!(v, PrepareVote::Yes { .. }))).collect();
                    if gv != rt.votes {
                        ctx.fail(
                            format!("votes-differ{suffix}"),
                            format!("{what}: transaction {id} ({ph:?}) had accepted votes {:?} (shard -> yes) but came back with {gv:?}", rt.votes),
                        )?;
                    }
                    if probe {
                        // the logged move to Committing IS the commit decision: a client's abort()
                        // arriving after the restart must not overturn it
                        if ph == TxPhase::Committing && coord.abort(*id, "probe").is_ok() {
                            ctx.fail(
                                format!("committing-tx-aborted{suffix}"),
                                format!("{what}: transaction {id} was logged in phase Committing (the commit decision); abort() succeeded after recovery"),
                            )?;
                            continue;
                        }
                        let r = match ph {
                            TxPhase::Prepared => coord.commit(*id).map_err(|e| e.to_string()),
                            TxPhase::Committing => coord.complete_commit(*id).map_err(|e| e.to_string()),
                            _ => coord.complete_abort(*id).map_err(|e| e.to_string()),
                        };
                        if let Err(e) = r {
                            ctx.fail(format!("cannot-complete{suffix}"), format!("{what}: recovered transaction {id} in phase {ph:?} cannot be driven to completion: {e}"))?;
                        }
                        if coord.get(*id).is_some() {
                            ctx.fail(format!("cannot-complete{suffix}"), format!("{what}: transaction {id} still pending after its completion call"))?;
                        }
                    }
                },
                _ => {
                    if let Some(g) = got {
                        ctx.fail(
                            format!("preparing-tx-restored{suffix}"),
                            format!("{what}: transaction {id} was still collecting votes and must be forgotten, but is pending in phase {:?}", g.phase),
                        )?;
                    }
                },
            }
        }
        if !probe && coord.lock_manager().active_lock_count() != 0 {
            ctx.fail(format!("locks-left{suffix}"), format!("{what}: {} locks held right after recovery", coord.lock_manager().active_lock_count()))?;
        }
        Ok(Some(coord))
    }
}

fn name(c: bool) -> &'static str {
    if c {
        "committed"
    } else {
        "aborted"
    }
}

fn run_case(case: &Case, ctx: &mut CaseCtx) -> Result<(), Fail> {
    let mut d = Driver::new()?;
    let mut crashes = 0;
    let mut cut_inside_decision = false;
    for sc in &case.calls {
        let before = file_len(&d.wal);
        let nrecs_before = d.recs.len();
        d.exec(&sc.call, ctx)?;
        if ctx.known_hit() {
            return Ok(());
        }
        let after = file_len(&d.wal);
        if after > before && d.torn_tail_pending {
            d.torn_tail_then_append = true;
            ctx.label("appended after a torn tail");
        }
        let Some(frac) = sc.crash else { continue };
        if crashes >= 3 || after == before {
            continue;
        }
        crashes += 1;
        ctx.label("crash");
        let bytes = std::fs::read(&d.wal).map_err(|e| Fail::new("harness", e.to_string()))?;
        let multi = d.recs.len() - nrecs_before >= 2;
        // every byte prefix of what the call wrote
        for c in before..=after {
            let p = d.dir.join("probe.wal");
            std::fs::write(&p, &bytes[..c]).map_err(|e| Fail::new("harness", e.to_string()))?;
            let recs: Vec<Rec> = d.recs.iter().filter(|r| r.end <= c).cloned().collect();
            let what = format!("crash at byte {c} (call {:?} wrote {before}..{after})", sc.call);
            let _ = d.check_recovery(&p, &recs, ctx, &what, true)?;
            let _ = std::fs::remove_file(&p);
            if ctx.known_hit() {
                return Ok(());
            }
        }
        // the generated cut continues the chain
        let c = before + pick(frac, after - before + 1);
        let on_boundary = c == before || d.recs.iter().any(|r| r.end == c);
        if multi && c > before && c < after {
            cut_inside_decision = true;
            ctx.label("cut inside the record sequence of one call");
        }
        d.recs.retain(|r| r.end <= c);
        d.gen += 1;
        let p = d.dir.join(&format!("tx-{}.wal", d.gen));
        std::fs::write(&p, &bytes[..c]).map_err(|e| Fail::new("harness", e.to_string()))?;
        let what = format!("chain restart {} at byte {c}", d.gen);
        let recs = d.recs.clone();
        let coord = d.check_recovery(&p, &recs, ctx, &what, false)?;
        if ctx.known_hit() {
            return Ok(());
        }
        let Some(coord) = coord else { return Ok(()) };
        d.coord = coord;
        d.wal = p;
        d.base = file_len(&d.wal);
        if !on_boundary {
            d.torn_tail_pending = true;
            ctx.label("crash inside a record");
        }
        if crashes >= 2 {
            ctx.label("chain of >=2 crashes");
        }
    }
    if cut_inside_decision || crashes >= 2 {
        ctx.set_nontrivial();
    }
    Ok(())
}

// ------------------------------------------------------------------ slow: restored transactions after their timeout

/// What is called on the restarted coordinator once the 5 s timeout of its restored transactions
/// has passed.
#[derive(Clone, Debug, Serialize, Deserialize)]
enum Late {
    RecoverPass,
    Sweep,
    ClientAbort,
}

#[derive(Clone, Debug, Serialize, Deserialize)]
struct SlowCase {
    shards: u8,
    /// cut inside the TxComplete record that commit() wrote (fraction of its bytes; 0 = the record is missing entirely)
    cut: u16,
    /// recover() right after the restart as well
    early_pass: bool,
    late: Vec<Late>,
}

fn slow_strategy(_t: Tier) -> impl Strategy<Value = SlowCase> {
    let late = prop_oneof![3 => Just(Late::RecoverPass), 2 => Just(Late::Sweep), 1 => Just(Late::ClientAbort)];
    (1u8..=3, any::<u16>(), any::<bool>(), prop::collection::vec(late, 1..4)).prop_map(|(shards, cut, early_pass, late)| SlowCase { shards, cut, early_pass, late })
}

/// A restored transaction gets a fresh 5 s timeout that no configuration shortens, so this part
/// really waits 5.2 s per case (few cases, all in parallel). A transaction whose move to Committing
/// is in the log (the crash fell inside the TxComplete record) must still be Committing, and
/// completable as committed, after any mix of recovery passes, timeout sweeps and client aborts
/// that run after the timeout has passed.
fn slow_check(c: &SlowCase, ctx: &mut CaseCtx) -> Result<(), Fail> {
    let dir = nv_engine::scratch::Dir::new("c13slow");
    let wal = dir.join("tx.wal");
    let id = {
        let coord = open_coord(&wal).map_err(|e| Fail::new("harness", e))?;
        let parts: Vec<usize> = (0..c.shards as usize).collect();
        let tx = coord.begin(&"coord".to_string(), &parts).map_err(|e| Fail::new("harness", e.to_string()))?;
        for (k, sh) in parts.iter().enumerate() {
            coord
                .record_vote(tx.tx_id, *sh, PrepareVote::Yes { lock_handle: 10 + k as u64, delta: DeltaVector::zero(0) })
                .map_err(|e| Fail::new("harness", format!("{e:?}")))?;
        }
        coord.commit(tx.tx_id).map_err(|e| Fail::new("harness", e.to_string()))?;
        tx.tx_id
    };
    // cut inside the last record (TxComplete): everything up to and including PhaseChange -> Committing stays
    let bytes = std::fs::read(&wal).map_err(|e| Fail::new("harness", e.to_string()))?;
    let frames = walframe::frames(&bytes);
    // the TxComplete record (lock-release records follow it)
    let last = frames
        .iter()
        .find(|f| matches!(bitcode::deserialize::<TxWalEntry>(&bytes[f.start + 8..f.end]), Ok(TxWalEntry::TxComplete { .. })))
        .ok_or_else(|| Fail::new("harness", "no TxComplete record in the log commit() wrote"))?;
    let keep = last.start + pick(c.cut, last.end - last.start);
    std::fs::write(&wal, &bytes[..keep]).map_err(|e| Fail::new("harness", e.to_string()))?;
    ctx.label(if keep == last.start { "crash between the Committing record and TxComplete" } else { "crash inside the TxComplete record" });

    let coord = open_coord(&wal).map_err(|e| Fail::new("harness", e))?;
    coord.recover_from_wal().map_err(|e| Fail::new("slow:recovery-failed", e.to_string()))?;
    match coord.get(id).map(|t| t.phase) {
        Some(TxPhase::Committing) => {},
        other => return Err(Fail::new("harness", format!("expected the transaction back in phase Committing, got {other:?}"))),
    }
    if c.early_pass {
        let _ = coord.recover();
    }
    std::thread::sleep(std::time::Duration::from_millis(5_200));
    ctx.set_nontrivial();
    for l in &c.late {
        match l {
            Late::RecoverPass => {
                let _ = coord.recover();
                ctx.label("recover() after the restored transaction's timeout");
            },
            Late::Sweep => {
                let _ = coord.cleanup_timeouts();
                let _ = coord.take_pending_aborts();
                ctx.label("timeout sweep after the restored transaction's timeout");
            },
            Late::ClientAbort => {
                let _ = coord.abort(id, "late client abort");
                ctx.label("client abort after the restored transaction's timeout");
            },
        }
        let phase = coord.get(id).map(|t| t.phase);
        if phase != Some(TxPhase::Committing) {
            ctx.fail(
                "slow:committing-tx-timed-out",
                format!("transaction {id} was logged in phase Committing (the commit decision); 5.2 s after the restart {l:?} left it in {phase:?}"),
            )?;
            return Ok(());
        }
    }
    if let Err(e) = coord.complete_commit(id) {
        ctx.fail("slow:cannot-complete", format!("transaction {id} (Committing) cannot be completed as committed after {:?}: {e}", c.late))?;
    }
    Ok(())
}

fn main() {
    main_for(PropDef {
        id: "C13",
        level: "fault_enumeration",
        rule: "scripts of 1..24 (quick) / 1..32 (thorough) coordinator calls over up to ~6 transactions (begin, votes incl. duplicate/late/contradicting, commit, abort, complete_*, sweeps, recover()) with up to 3 crash points; at each crash the TxWal is cut at EVERY byte the crashing call wrote and a fresh coordinator is recovered from each prefix and driven; the generated cut continues the chain. non-trivial = a cut strictly inside the multi-record sequence of one call (between PhaseChange / TxComplete / LockRelease ...) or a second crash; distinct = distinct generated script",
        assumptions: vec![
            "a crash loses everything after a byte position of the append-only log and nothing before it (omitted fsync is invisible)",
            "the reference classification uses the harness's own frame reader; record payloads are decoded with the product's bitcode schema (codec only, no recovery logic)",
            "a vote counts as logged-and-accepted only if record_vote returned Ok for it (record_vote logs before validating)",
            "crash part: timeouts are set to 1 h so that wall clock never decides; the fixed 5 s timeout of restored transactions is awaited only in the `slow` part (16 cases of 5.2 s, judged only after the sleep, so a slow machine cannot fail it)",
        ],
        parts: vec![
            PropPart::new("crash", 60_000, 4_000_000, case_strategy, run_case).boxed(),
            // each case waits 5.2 s: one per worker thread in the quick tier
            PropPart::new("slow", 16, 160, slow_strategy, slow_check).shrink_iters(2).boxed(),
            PropPart::new("intent", 400, 8_000, intent::strategy, intent::check).shrink_iters(40).boxed(),
        ],
        children: vec![],
    });
}
