//! C13 `intent` part: a prepared transaction that the coordinator's timeout sweep aborts.
//!
//! The sweep takes the transaction out of the pending set and queues the abort;
//! `process_pending_aborts` logs an `AbortIntent` record and sends the abort to every participant.
//! From that record on the decision is in the log: a coordinator restarted from it must not be
//! able to commit the transaction (its participants have been told to abort).
//!
//! Wall clock in the sound direction only: the transaction gets a 1 ms timeout and the sweep runs
//! after a 25 ms sleep; a longer sleep only makes it more timed out.

use crate::open_coord_with;
use nv_engine::{pick, walframe, CaseCtx, Fail, Tier};
use proptest::prelude::*;
use serde::{Deserialize, Serialize};
use tensor_chain::distributed_tx::{PrepareVote, TxPhase};
use tensor_chain::tx_wal::TxWalEntry;
use tensor_chain::{DeltaVector, MemoryTransport};

#[derive(Clone, Debug, Serialize, Deserialize)]
pub enum After {
    RecoverPass,
    Sweep,
}

#[derive(Clone, Debug, Serialize, Deserialize)]
pub struct IntentCase {
    pub shards: u8,
    /// where the crash falls in the AbortIntent record (fraction of its bytes; the top quarter of
    /// the range = after the whole record)
    pub cut: u16,
    pub after: Vec<After>,
}

pub fn strategy(_t: Tier) -> impl Strategy<Value = IntentCase> {
    let a = prop_oneof![Just(After::RecoverPass), Just(After::Sweep)];
    (1u8..=3, any::<u16>(), prop::collection::vec(a, 0..3)).prop_map(|(shards, cut, after)| IntentCase { shards, cut, after })
}

pub fn check(c: &IntentCase, ctx: &mut CaseCtx) -> Result<(), Fail> {
    let dir = nv_engine::scratch::Dir::new("c13intent");
    let wal = dir.join("tx.wal");
    let id = {
        let coord = open_coord_with(&wal, 1).map_err(|e| Fail::new("harness", e))?;
        let parts: Vec<usize> = (0..c.shards as usize).collect();
        let tx = coord.begin(&"coord".to_string(), &parts).map_err(|e| Fail::new("harness", e.to_string()))?;
        for (k, sh) in parts.iter().enumerate() {
            coord
                .record_vote(tx.tx_id, *sh, PrepareVote::Yes { lock_handle: 10 + k as u64, delta: DeltaVector::zero(0) })
                .map_err(|e| Fail::new("harness", format!("{e:?}")))?;
        }
        if coord.get(tx.tx_id).map(|t| t.phase) != Some(TxPhase::Prepared) {
            return Err(Fail::new("harness", "transaction not Prepared after all YES votes"));
        }
        std::thread::sleep(std::time::Duration::from_millis(25));
        let swept = coord.cleanup_timeouts();
        if !swept.contains(&tx.tx_id) {
            return Err(Fail::new("harness", format!("the sweep did not time the transaction out: {swept:?}")));
        }
        let rt = tokio::runtime::Builder::new_current_thread().enable_all().build().map_err(|e| Fail::new("harness", e.to_string()))?;
        let transport = MemoryTransport::new("coord".to_string());
        rt.block_on(coord.process_pending_aborts(&transport));
        tx.tx_id
    };
    let bytes = std::fs::read(&wal).map_err(|e| Fail::new("harness", e.to_string()))?;
    let frames = walframe::frames(&bytes);
    let rec = frames
        .iter()
        .find(|f| matches!(bitcode::deserialize::<TxWalEntry>(&bytes[f.start + 8..f.end]), Ok(TxWalEntry::AbortIntent { .. })))
        .ok_or_else(|| Fail::new("harness", "no AbortIntent record in the log process_pending_aborts wrote"))?;
    let whole = c.cut >= 0xC000;
    let keep = if whole { bytes.len() } else { rec.start + pick(c.cut.wrapping_mul(4) / 3, rec.end - rec.start) };
    std::fs::write(&wal, &bytes[..keep]).map_err(|e| Fail::new("harness", e.to_string()))?;
    let logged = keep >= rec.end;
    ctx.label(if logged { "crash after the AbortIntent record" } else { "crash inside the AbortIntent record (the intent is lost)" });

    let coord = open_coord_with(&wal, 3_600_000).map_err(|e| Fail::new("harness", e))?;
    coord.recover_from_wal().map_err(|e| Fail::new("intent:recovery-failed", e.to_string()))?;
    for a in &c.after {
        match a {
            After::RecoverPass => {
                let _ = coord.recover();
            },
            After::Sweep => {
                let _ = coord.cleanup_timeouts();
                let _ = coord.take_pending_aborts();
            },
        }
    }
    if !logged {
        // without the record the restart knows a Prepared transaction and nothing else: either outcome is open
        return Ok(());
    }
    ctx.set_nontrivial();
    let phase = coord.get(id).map(|t| t.phase);
    if coord.commit(id).is_ok() {
        ctx.fail(
            "intent:aborting-tx-committed-after-restart",
            format!("transaction {id} timed out while Prepared; the abort intent was logged and the abort sent to its participants; after a restart it came back as {phase:?} and commit() succeeded"),
        )?;
        return Ok(());
    }
    // and the abort can be finished
    if coord.get(id).is_some() {
        if let Err(e) = coord.complete_abort(id) {
            ctx.fail("intent:cannot-complete-abort", format!("transaction {id} (abort intent logged, phase {phase:?}) cannot be completed as aborted: {e}"))?;
        }
    }
    Ok(())
}
