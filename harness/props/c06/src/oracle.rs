//! Independent scoring (f64) and the result-validity predicates of C06.
//!
//! Nothing here calls into the product. Scores follow the documented formulas:
//!   cosine      dot(q,v) / (|q| |v|), 0 when either norm is 0 (documented "0.0 for degenerate cases")
//!   euclidean   1 / (1 + sqrt(sum (q_i - v_i)^2))      (doc of search_similar_with_metric / to_similarity)
//!   dot         sum q_i v_i
//!   coshalf     (cosine + 1) / 2                        (ExtendedDistanceMetric::Cosine.to_similarity)
//!   manhattan   1 / (1 + sum |q_i - v_i|)

use std::collections::{BTreeMap, BTreeSet};

#[derive(Clone, Copy, PartialEq, Eq, Debug)]
pub enum Metric {
    Cosine,
    Euclid,
    Dot,
    CosHalf,
    Manhattan,
}

impl Metric {
    pub fn name(self) -> &'static str {
        match self {
            Metric::Cosine => "cosine",
            Metric::Euclid => "euclidean",
            Metric::Dot => "dot",
            Metric::CosHalf => "coshalf",
            Metric::Manhattan => "manhattan",
        }
    }
}

/// True score in f64 and the tolerance granted to an f32 implementation.
/// Tolerance: 1e-4 * max(1,|s|), plus for the dot product a forward error bound of a length-n f32
/// sum (cancellation can make |s| tiny while the rounding error scales with sum |q_i v_i|).
pub fn score(m: Metric, q: &[f32], v: &[f32]) -> (f64, f64) {
    debug_assert_eq!(q.len(), v.len());
    let n = q.len() as f64;
    let mut dot = 0.0f64;
    let mut absdot = 0.0f64;
    let mut qq = 0.0f64;
    let mut vv = 0.0f64;
    let mut d2 = 0.0f64;
    let mut d1 = 0.0f64;
    for (a, b) in q.iter().zip(v.iter()) {
        let (a, b) = (f64::from(*a), f64::from(*b));
        dot += a * b;
        absdot += (a * b).abs();
        qq += a * a;
        vv += b * b;
        d2 += (a - b) * (a - b);
        d1 += (a - b).abs();
    }
    let cos = if qq == 0.0 || vv == 0.0 { 0.0 } else { dot / (qq.sqrt() * vv.sqrt()) };
    let s = match m {
        Metric::Cosine => cos,
        Metric::Euclid => 1.0 / (1.0 + d2.sqrt()),
        Metric::Dot => dot,
        Metric::CosHalf => (cos + 1.0) / 2.0,
        Metric::Manhattan => 1.0 / (1.0 + d1),
    };
    let mut tol = 1e-4 * s.abs().max(1.0);
    if m == Metric::Dot {
        tol += 4.0 * (n + 2.0) * 6.0e-8 * absdot;
    }
    (s, tol)
}

pub struct Failure {
    pub kind: &'static str,
    pub msg: String,
}

fn fail<T>(kind: &'static str, msg: String) -> Result<T, Failure> {
    Err(Failure { kind, msg })
}

pub enum Mode<'a> {
    /// exhaustive search: the validity predicate (i)-(v)
    Exact,
    /// "search k' candidates over `pool` (every live vector of the query's dimension), then filter":
    /// an eligible key may be omitted only if k results at least as good were returned or at least
    /// k' pool members score at least as well
    Post { kprime: usize, pool: &'a BTreeMap<&'a str, &'a [f32]> },
    /// approximate index: soundness only (no recall claim)
    Sound,
}

/// `res`: (key, reported score) in the order returned. `eligible`: key -> vector of every key a
/// correct result may contain. `why_not(key)`: classification of a key that is not eligible.
pub fn check(
    mode: &Mode,
    res: &[(String, f32)],
    eligible: &BTreeMap<&str, &[f32]>,
    why_not: &dyn Fn(&str) -> &'static str,
    q: &[f32],
    k: usize,
    m: Metric,
) -> Result<(), Failure> {
    if res.len() > k {
        return fail("too-long", format!("{} results for k={k}", res.len()));
    }
    let mut seen = BTreeSet::new();
    for (key, _) in res {
        if !seen.insert(key.as_str()) {
            return fail("duplicate", format!("key {key:?} returned twice"));
        }
    }
    let mut worst: Option<(f64, f64)> = None;
    for (key, rep) in res {
        let Some(v) = eligible.get(key.as_str()) else {
            return fail(why_not(key), format!("returned key {key:?} (score {rep}) is not eligible: {}", why_not(key)));
        };
        let (s, tol) = score(m, q, v);
        if rep.is_nan() || (f64::from(*rep) - s).abs() > tol {
            return fail("score", format!("key {key:?}: reported {rep}, true {} score {s} (tolerance {tol:e})", m.name()));
        }
        if worst.map_or(true, |(w, _)| s < w) {
            worst = Some((s, tol));
        }
    }
    for w in res.windows(2) {
        if !(w[0].1 >= w[1].1) {
            return fail("unsorted", format!("scores not best-first: {:?} ({}) before {:?} ({})", w[0].0, w[0].1, w[1].0, w[1].1));
        }
    }
    match mode {
        Mode::Sound => Ok(()),
        Mode::Exact => {
            let want = k.min(eligible.len());
            if res.len() != want {
                return fail("length", format!("{} results, expected min(k={k}, eligible={}) = {want}", res.len(), eligible.len()));
            }
            if let Some((w, wtol)) = worst {
                for (key, v) in eligible {
                    if seen.contains(key) {
                        continue;
                    }
                    let (s, tol) = score(m, q, v);
                    if s > w + tol + wtol {
                        return fail(
                            "missed-better",
                            format!("eligible key {key:?} with true {} score {s} omitted although the worst returned true score is {w}", m.name()),
                        );
                    }
                }
            }
            Ok(())
        },
        Mode::Post { kprime, pool } => {
            for (key, v) in eligible {
                if seen.contains(key) {
                    continue;
                }
                let (s, tol) = score(m, q, v);
                let displaced = match worst {
                    Some((w, wtol)) => res.len() >= k && s <= w + tol + wtol,
                    None => false,
                };
                if displaced {
                    continue;
                }
                // x must have been among the k' candidates unless k' others score at least as well
                let mut at_least = 0usize;
                for (k2, v2) in pool.iter() {
                    if k2 == key {
                        continue;
                    }
                    let (s2, tol2) = score(m, q, v2);
                    if s2 + tol2 + tol >= s {
                        at_least += 1;
                    }
                }
                if at_least < *kprime {
                    let kind = if res.len() < k { "length" } else { "missed-better" };
                    return fail(
                        kind,
                        format!(
                            "filter-matching key {key:?} (true score {s}) omitted: {} results for k={k}, worst returned {:?}, only {at_least} other candidates score as well (oversampled k'={kprime})",
                            res.len(),
                            worst.map(|w| w.0)
                        ),
                    );
                }
            }
            Ok(())
        },
    }
}

/// Is a (non-empty) result fully explained by a search over `snap` (the data an index was built
/// from): every key in it, every score the true score against the snapshot's vector? When the
/// query has another dimension than the snapshot the scores are not checkable (the index computes
/// them over a prefix). A key may appear without its leading "emb:" (separate recorded defect of the
/// cached path).
/// `allow_empty`: a filtered search over outdated candidates may legitimately come out empty.
pub fn explained_by(res: &[(String, f32)], snap: &BTreeMap<String, Vec<f32>>, q: &[f32], m: Metric, allow_empty: bool) -> bool {
    if res.is_empty() {
        return allow_empty;
    }
    for (key, rep) in res {
        let v = match snap.get(key) {
            Some(v) => v,
            None => match snap.get(&format!("emb:{key}")) {
                Some(v) => v,
                None => return false,
            },
        };
        if v.len() != q.len() {
            continue;
        }
        let (s, tol) = score(m, q, v);
        if rep.is_nan() || (f64::from(*rep) - s).abs() > tol {
            return false;
        }
    }
    true
}

/// Class labels of a search: (k < eligible, exact tie across the cut, a zero-norm vector is eligible).
pub fn classes(eligible: &BTreeMap<&str, &[f32]>, q: &[f32], k: usize, m: Metric) -> (bool, bool, bool) {
    let mut ss: Vec<f64> = eligible.values().map(|v| score(m, q, v).0).collect();
    ss.sort_by(|a, b| b.partial_cmp(a).unwrap_or(std::cmp::Ordering::Equal));
    let cut = k >= 1 && k < ss.len();
    let tie = cut && (ss[k - 1] - ss[k]).abs() <= 1e-9;
    let zero = eligible.values().any(|v| v.iter().all(|x| *x == 0.0));
    (cut, tie, zero)
}
