//! Case types and proptest strategies for C06.
//!
//! A case is: engine configuration, the named collection's initial configuration, a pool of
//! concrete vectors, and an operation sequence that refers to pool vectors / keys by index.
//! Every random choice is made here (proptest); the interpreter is a pure function of the case.

use nv_engine::Tier;
use proptest::prelude::*;
use serde::{Deserialize, Serialize};

pub const DIMS: [usize; 3] = [3, 8, 33];

/// Query: a pool vector (exact duplicate of something possibly stored) or a fresh vector.
#[derive(Clone, Debug, Serialize, Deserialize)]
pub enum Q {
    P(u16),
    F(Vec<f32>),
}

/// Metadata filter (see `interp::filter_of` for the meaning of `kind`).
#[derive(Clone, Debug, Serialize, Deserialize)]
pub struct F {
    pub kind: u8,
    pub cat: u8,
    pub n: i8,
    pub cmp: u8,
}

#[derive(Clone, Debug, Serialize, Deserialize)]
pub enum Op {
    // ---- default collection
    Store { key: u8, v: u16 },
    StoreMeta { key: u8, v: u16, cat: u8, n: i8 },
    BatchStore { items: Vec<(u8, u16)> },
    /// one batch storing pool[i] under key i for every pool index (bulk part)
    StoreAll,
    /// store the last `n` pool vectors into the named collection (keys c0..c4, every other one with metadata)
    CStoreSome { n: u8 },
    Delete { key: u8 },
    BatchDelete { keys: Vec<u8> },
    Clear,
    Build { cfg: u8 },
    Search { q: Q, k: Option<u16> },
    SearchMetric { q: Q, k: Option<u16>, metric: u8 },
    SearchFiltered { q: Q, k: Option<u16>, f: F, strat: u8, over: u8 },
    HnswBuild { storage: u8, cfg: u8 },
    HnswSearch { q: Q, k: Option<u16>, mode: u8 },
    Get { key: u8 },
    // ---- named collection
    CStore { key: u8, v: u16, meta: Option<(u8, i8)> },
    CDelete { key: u8 },
    CGet { key: u8 },
    CSearch { q: Q, k: Option<u16> },
    CSearchFiltered { q: Q, k: Option<u16>, f: F, strat: u8, over: u8 },
    CBuild,
    CDrop,
    CCreate { metric: u8, dim: Option<u8> },
}

#[derive(Clone, Debug, Serialize, Deserialize)]
pub struct EngCfg {
    /// index into [0.5 (default), 0.7, 0.0, 1.0]
    pub sparse_thr: u8,
    /// small parallel thresholds (parallel scan / parallel batch store paths)
    pub par: bool,
}

#[derive(Clone, Debug, Serialize, Deserialize)]
pub struct CollCfg {
    pub created: bool,
    /// 0 cosine, 1 euclidean, 2 dot product
    pub metric: u8,
    /// index into DIMS
    pub dim: Option<u8>,
}

#[derive(Clone, Debug, Serialize, Deserialize)]
pub struct Case {
    pub cfg: EngCfg,
    pub coll: CollCfg,
    pub pool: Vec<Vec<f32>>,
    pub ops: Vec<Op>,
}

// ------------------------------------------------------------------ vectors

fn grid() -> impl Strategy<Value = f32> {
    (-8i32..=8).prop_map(|i| i as f32 / 4.0)
}

fn tiny() -> impl Strategy<Value = f32> {
    prop::sample::select(vec![1e-6f32, -1e-6, 1e-7, -1e-7, 5e-7, -5e-7, 1e-9, -1e-9, 2e-6, -3e-6])
}

fn comp_dense() -> impl Strategy<Value = f32> {
    prop_oneof![
        5 => grid(),
        3 => -10.0f32..10.0f32,
        1 => tiny(),
        1 => Just(0.0f32),
    ]
}

fn comp_nonzero() -> impl Strategy<Value = f32> {
    prop_oneof![
        3 => grid().prop_map(|x| if x == 0.0 { 1.0 } else { x }),
        2 => (-10.0f32..10.0f32).prop_map(|x| if x == 0.0 { 0.5 } else { x }),
        2 => tiny(),
    ]
}

/// A fresh vector of dimension `d`; `kind` selects the class.
fn fresh(d: usize) -> BoxedStrategy<Vec<f32>> {
    let max_nnz = std::cmp::max(1, d * 3 / 10);
    prop_oneof![
        // dense
        5 => prop::collection::vec(comp_dense(), d),
        // sparse: >= 70 % zeros (d = 3: one non-zero), remaining entries may be tiny
        4 => (prop::collection::vec((any::<u16>(), comp_nonzero()), 1..=max_nnz), any::<bool>()).prop_map(move |(nz, neg0)| {
            let mut v = vec![if neg0 { -0.0f32 } else { 0.0f32 }; d];
            for (p, x) in nz {
                v[nv_engine::pick(p, d)] = x;
            }
            v
        }),
        // all zero (with some negative zeros)
        1 => prop::collection::vec(prop_oneof![Just(0.0f32), Just(-0.0f32)], d),
        // tiny only
        1 => prop::collection::vec(prop_oneof![3 => tiny(), 1 => Just(0.0f32)], d),
        // small integers (many exact ties under every metric)
        2 => prop::collection::vec((-2i32..=2).prop_map(|i| i as f32), d),
    ]
    .boxed()
}

#[derive(Clone, Debug)]
enum VSpec {
    Fresh(Vec<f32>),
    /// scaled copy of an earlier pool entry
    Dup(u16, u8),
}

const FACTORS: [f32; 6] = [1.0, 2.0, 0.5, -1.0, 1.0, 4.0];

fn dim_of(main: u8, dsel: u8) -> usize {
    let i = match dsel {
        0..=5 => main as usize,
        6 => (main as usize + 1) % 3,
        _ => (main as usize + 2) % 3,
    };
    DIMS[i % 3]
}

fn vspec(main: u8, mixed: bool) -> impl Strategy<Value = VSpec> {
    let hi = if mixed { 8u8 } else { 6u8 };
    prop_oneof![
        4 => (0u8..hi).prop_flat_map(move |dsel| fresh(dim_of(main, dsel))).prop_map(VSpec::Fresh),
        1 => (any::<u16>(), 0u8..6).prop_map(|(i, f)| VSpec::Dup(i, f)),
    ]
}

fn realize(specs: Vec<VSpec>, main: u8) -> Vec<Vec<f32>> {
    let mut pool: Vec<Vec<f32>> = Vec::with_capacity(specs.len());
    for s in specs {
        match s {
            VSpec::Fresh(v) => pool.push(v),
            VSpec::Dup(i, f) => {
                if pool.is_empty() {
                    pool.push(vec![1.0; DIMS[main as usize % 3]]);
                } else {
                    let src = pool[nv_engine::pick(i, pool.len())].clone();
                    let mut fac = FACTORS[f as usize % FACTORS.len()];
                    // keep magnitudes where f32 squares neither overflow nor underflow
                    if src.iter().any(|x| (x * fac).abs() > 1e3 || (*x != 0.0 && (x * fac).abs() < 1e-10)) {
                        fac = 1.0;
                    }
                    pool.push(src.into_iter().map(|x| x * fac).collect());
                }
            },
        }
    }
    pool
}

fn pool_strategy(main: u8, mixed: bool, lo: usize, hi: usize) -> impl Strategy<Value = Vec<Vec<f32>>> {
    prop::collection::vec(vspec(main, mixed), lo..=hi).prop_map(move |s| realize(s, main))
}

// ------------------------------------------------------------------ queries, k, filters

fn query(main: u8) -> impl Strategy<Value = Q> {
    prop_oneof![
        4 => any::<u16>().prop_map(Q::P),
        5 => (0u8..8).prop_flat_map(move |dsel| fresh(dim_of(main, dsel))).prop_map(Q::F),
        // the zero query of the main dimension
        1 => Just(Q::F(vec![0.0; DIMS[main as usize % 3]])),
    ]
}

fn kk() -> impl Strategy<Value = Option<u16>> {
    prop_oneof![
        30 => any::<u16>().prop_map(Some),
        // small k: the interesting truncation region
        12 => (0u16..12000).prop_map(Some),
        1 => Just(None),
    ]
}

fn filt() -> impl Strategy<Value = F> {
    (0u8..9, 0u8..3, 0i8..5, 0u8..4).prop_map(|(kind, cat, n, cmp)| F { kind, cat, n, cmp })
}

// ------------------------------------------------------------------ ops

fn op_strategy(main: u8, nkeys: u8, ckeys: u8) -> impl Strategy<Value = Op> {
    // 200 / 201 are the two unusual key names (see `dkey`); rare, so that most histories are free of them
    let key = move || prop_oneof![60 => 0u8..nkeys, 1 => Just(200u8), 2 => Just(201u8)];
    let ckey = move || 0u8..ckeys;
    prop_oneof![
        10 => (key(), any::<u16>()).prop_map(|(key, v)| Op::Store { key, v }),
        6 => (key(), any::<u16>(), 0u8..4, -1i8..5).prop_map(|(key, v, cat, n)| Op::StoreMeta { key, v, cat, n }),
        3 => prop::collection::vec((key(), any::<u16>()), 0..6).prop_map(|items| Op::BatchStore { items }),
        4 => key().prop_map(|key| Op::Delete { key }),
        4 => prop::collection::vec(key(), 0..4).prop_map(|keys| Op::BatchDelete { keys }),
        1 => Just(Op::Clear),
        7 => (0u8..3).prop_map(|cfg| Op::Build { cfg }),
        14 => (query(main), kk()).prop_map(|(q, k)| Op::Search { q, k }),
        6 => (query(main), kk(), 0u8..3).prop_map(|(q, k, metric)| Op::SearchMetric { q, k, metric }),
        6 => (query(main), kk(), filt(), 0u8..3, 1u8..4).prop_map(|(q, k, f, strat, over)| Op::SearchFiltered { q, k, f, strat, over }),
        2 => (0u8..2, 0u8..12).prop_map(|(storage, cfg)| Op::HnswBuild { storage, cfg }),
        3 => (query(main), kk(), 0u8..4).prop_map(|(q, k, mode)| Op::HnswSearch { q, k, mode }),
        3 => key().prop_map(|key| Op::Get { key }),
        7 => (ckey(), any::<u16>(), prop::option::weighted(0.5, (0u8..4, -1i8..5))).prop_map(|(key, v, meta)| Op::CStore { key, v, meta }),
        2 => ckey().prop_map(|key| Op::CDelete { key }),
        1 => ckey().prop_map(|key| Op::CGet { key }),
        6 => (query(main), kk()).prop_map(|(q, k)| Op::CSearch { q, k }),
        3 => (query(main), kk(), filt(), 0u8..3, 1u8..4).prop_map(|(q, k, f, strat, over)| Op::CSearchFiltered { q, k, f, strat, over }),
        2 => Just(Op::CBuild),
        1 => Just(Op::CDrop),
        1 => (0u8..3, prop::option::weighted(0.3, 0u8..3)).prop_map(|(metric, dim)| Op::CCreate { metric, dim }),
    ]
}

fn cfg_strategy() -> impl Strategy<Value = (EngCfg, CollCfg)> {
    (
        prop_oneof![5 => Just(0u8), 2 => Just(1u8), 1 => Just(2u8), 1 => Just(3u8)],
        prop::bool::weighted(0.25),
        prop::bool::weighted(0.8),
        0u8..3,
        prop::option::weighted(0.25, 0u8..3),
    )
        .prop_map(|(sparse_thr, par, created, metric, dim)| (EngCfg { sparse_thr, par }, CollCfg { created, metric, dim }))
}

/// Mixed histories over both collections: <= 40 ops, 7 ordinary + 2 unusual default keys, 5 collection keys.
pub fn ops_strategy(_t: Tier) -> impl Strategy<Value = Case> {
    (0u8..3, cfg_strategy()).prop_flat_map(|(main, (cfg, coll))| {
        // the collection's fixed dimension, when set, is mostly the main dimension
        let coll = CollCfg { dim: coll.dim.map(|d| if d == 0 { (main + 1) % 3 } else { main }), ..coll };
        (pool_strategy(main, true, 3, 12), prop::collection::vec(op_strategy(main, 7, 5), 0..=40))
            .prop_map(move |(pool, ops)| Case { cfg: cfg.clone(), coll: coll.clone(), pool, ops })
    })
}

/// Bulk histories: one dimension dominates, 20..90 vectors stored up front by one batch, then a short
/// history; exercises top-k truncation/ordering on larger sets and a non-degenerate HNSW graph.
pub fn bulk_strategy(_t: Tier) -> impl Strategy<Value = Case> {
    (0u8..3, cfg_strategy(), prop::bool::weighted(0.3)).prop_flat_map(|(main, (cfg, coll), mixed)| {
        let coll = CollCfg { dim: coll.dim.map(|_| main), ..coll };
        (pool_strategy(main, mixed, 20, 90), prop::collection::vec(op_strategy(main, 100, 5), 1..=14), 0u8..=12).prop_map(move |(pool, tail, ncoll)| {
            let mut ops = vec![Op::StoreAll, Op::CStoreSome { n: ncoll }];
            ops.extend(tail);
            Case { cfg: cfg.clone(), coll: coll.clone(), pool, ops }
        })
    })
}
