//! C06 — Similarity search returns the true nearest stored vectors.
//!
//! Parts (same interpreter, different generators):
//!  * `ops`   histories of <= 40 operations over the default collection and one named collection:
//!            store / store-with-metadata / batch store / delete / batch delete / clear /
//!            build-and-cache-index / search (plain, per metric, filtered, explicit HNSW) / get, and
//!            the named-collection variants (incl. a caller-built cached index, drop, re-create).
//!  * `bulk`  20..90 vectors stored up front, then a short history: top-k truncation and ordering on
//!            larger sets, a non-degenerate HNSW graph.
//!
//! Oracle: a model map key -> (vector, metadata); scores recomputed in f64 (`oracle.rs`); results are
//! judged by a validity predicate (ties admit several answers). With a cached index that is still
//! valid only soundness is asserted (no recall claim); after any mutation that followed an index
//! build the exhaustive predicate applies again, and a result that is explained by the data the index
//! was built from is reported as `stale-index-after-<call site>`.

mod gen;
mod oracle;

use gen::{Case, Op, F, Q};
use nv_engine::{main_for, CaseCtx, Fail, PropDef, PropPart};
use oracle::{Metric, Mode};
use std::collections::{BTreeMap, BTreeSet, HashMap};
use std::panic::{catch_unwind, AssertUnwindSafe};
use std::sync::Arc;
use tensor_store::{HNSWDistanceMetric, ScalarValue, TensorValue};
use vector_engine::{
    DistanceMetric, EmbeddingInput, ExtendedDistanceMetric, FilterCondition, FilterValue, FilteredSearchConfig, HNSWBuildOptions,
    HNSWConfig, HNSWIndex, HNSWStorageStrategy, SearchResult, VectorCollectionConfig, VectorEngine, VectorEngineConfig, VectorError,
};

const COLL: &str = "c1";
const CATS: [&str; 3] = ["a", "b", "c"];

fn dkey(i: u8) -> String {
    match i {
        200 => "emb:x".to_string(),
        201 => "k 7/\u{e9}".to_string(),
        _ => format!("k{i}"),
    }
}

fn ckey(i: u8) -> String {
    match i {
        3 => "\u{fc}:3".to_string(),
        _ => format!("c{i}"),
    }
}

#[derive(Clone, Debug)]
struct Entry {
    v: Vec<f32>,
    cat: Option<u8>,
    n: Option<i64>,
}

/// The data an index was built from.
struct Snap {
    map: BTreeMap<String, Vec<f32>>,
    dim: usize,
    metric: Metric,
}

/// Model of one collection.
struct Side {
    /// "" for the default collection, "coll-" for the named one (signature prefix)
    prefix: &'static str,
    live: BTreeMap<String, Entry>,
    /// data of the most recent successful non-empty index build
    snap: Option<Snap>,
    /// a build call succeeded at some point
    built: bool,
    /// call site of the most recent successful mutation since the last build
    mutated: Option<&'static str>,
}

impl Side {
    fn new(prefix: &'static str) -> Self {
        Self { prefix, live: BTreeMap::new(), snap: None, built: false, mutated: None }
    }
    fn mutate(&mut self, site: &'static str) {
        if self.built {
            self.mutated = Some(site);
        }
    }
    /// a cached index exists and the data it was built from is unchanged
    fn cache_live(&self) -> bool {
        self.snap.is_some() && self.mutated.is_none()
    }
    fn uniform_dim(&self) -> Option<usize> {
        let mut it = self.live.values().map(|e| e.v.len());
        let d = it.next()?;
        if it.all(|x| x == d) {
            Some(d)
        } else {
            None
        }
    }
    fn take_snap(&mut self, metric: Metric) {
        let dim = self.uniform_dim().unwrap_or(0);
        self.snap = if self.live.is_empty() {
            None
        } else {
            Some(Snap { map: self.live.iter().map(|(k, e)| (k.clone(), e.v.clone())).collect(), dim, metric })
        };
        self.built = true;
        self.mutated = None;
    }
}

fn metric_of(m: u8) -> (DistanceMetric, Metric, HNSWDistanceMetric) {
    match m % 3 {
        0 => (DistanceMetric::Cosine, Metric::Cosine, HNSWDistanceMetric::Cosine),
        1 => (DistanceMetric::Euclidean, Metric::Euclid, HNSWDistanceMetric::Euclidean),
        _ => (DistanceMetric::DotProduct, Metric::Dot, HNSWDistanceMetric::DotProduct),
    }
}

fn hnsw_cfg(i: u8) -> HNSWConfig {
    let base = match i % 3 {
        0 => HNSWConfig::default(),
        1 => HNSWConfig::high_recall(),
        _ => HNSWConfig::high_speed(),
    };
    // the configuration is the caller's: it may name another distance metric than the cosine
    // similarity that search_similar reports
    match (i / 3) % 4 {
        2 => base.with_distance_metric(HNSWDistanceMetric::Euclidean),
        3 => base.with_distance_metric(HNSWDistanceMetric::DotProduct),
        _ => base,
    }
}

fn same(a: &[f32], b: &[f32]) -> bool {
    a.len() == b.len() && a.iter().zip(b.iter()).all(|(x, y)| x == y)
}

fn is_zero(q: &[f32]) -> bool {
    q.iter().all(|x| *x == 0.0)
}

fn pairs(r: Vec<SearchResult>) -> Vec<(String, f32)> {
    r.into_iter().map(|s| (s.key, s.score)).collect()
}

// ------------------------------------------------------------------ filters

fn cmp_holds(cmp: u8, a: f64, b: f64) -> bool {
    match cmp % 4 {
        0 => a < b,
        1 => a <= b,
        2 => a > b,
        _ => a >= b,
    }
}

fn cmp_cond(cmp: u8, field: &str, v: FilterValue) -> FilterCondition {
    match cmp % 4 {
        0 => FilterCondition::Lt(field.to_string(), v),
        1 => FilterCondition::Le(field.to_string(), v),
        2 => FilterCondition::Gt(field.to_string(), v),
        _ => FilterCondition::Ge(field.to_string(), v),
    }
}

/// The product-side filter and the model-side evaluation of the same condition. Only conditions
/// whose meaning on a missing field is unambiguous are used (a comparison on a missing field is
/// false; "not equal" is always guarded by Exists).
fn filter_of(f: &F) -> FilterCondition {
    let cat = CATS[f.cat as usize % 3];
    let n = i64::from(f.n);
    let eq = FilterCondition::Eq("cat".to_string(), FilterValue::String(cat.to_string()));
    let nc = cmp_cond(f.cmp, "n", FilterValue::Int(n));
    match f.kind % 9 {
        0 => FilterCondition::True,
        1 => eq,
        2 => nc,
        3 => FilterCondition::Exists("cat".to_string()),
        4 => eq.and(nc),
        5 => eq.or(nc),
        6 => FilterCondition::In("n".to_string(), vec![FilterValue::Int(n), FilterValue::Int(n + 2)]),
        7 => FilterCondition::Exists("cat".to_string()).and(FilterCondition::Ne("cat".to_string(), FilterValue::String(cat.to_string()))),
        _ => cmp_cond(f.cmp, "n", FilterValue::Float(n as f64 + 0.5)),
    }
}

fn filter_matches(f: &F, e: &Entry) -> bool {
    let cat = f.cat % 3;
    let n = i64::from(f.n);
    let eq = e.cat == Some(cat);
    let nc = e.n.is_some_and(|x| cmp_holds(f.cmp, x as f64, n as f64));
    match f.kind % 9 {
        0 => true,
        1 => eq,
        2 => nc,
        3 => e.cat.is_some(),
        4 => eq && nc,
        5 => eq || nc,
        6 => e.n.is_some_and(|x| x == n || x == n + 2),
        7 => e.cat.is_some() && e.cat != Some(cat),
        _ => e.n.is_some_and(|x| cmp_holds(f.cmp, x as f64, n as f64 + 0.5)),
    }
}

fn meta_map(cat: Option<u8>, n: Option<i64>) -> HashMap<String, TensorValue> {
    let mut m = HashMap::new();
    if let Some(c) = cat {
        m.insert("cat".to_string(), TensorValue::Scalar(ScalarValue::String(CATS[c as usize % 3].to_string())));
    }
    if let Some(n) = n {
        m.insert("n".to_string(), TensorValue::Scalar(ScalarValue::Int(n)));
    }
    m
}

fn meta_of(cat: u8, n: i8) -> (Option<u8>, Option<i64>) {
    (if cat < 3 { Some(cat) } else { None }, if n >= 0 { Some(i64::from(n)) } else { None })
}

// ------------------------------------------------------------------ judging a search result

struct Judge<'a> {
    tag: &'a str,
    q: &'a [f32],
    k: usize,
    metric: Metric,
}

/// Eligible keys of a search: live, of the query's dimension, matching the filter.
fn eligible<'a>(side: &'a Side, q: &[f32], f: Option<&F>) -> BTreeMap<&'a str, &'a [f32]> {
    side.live
        .iter()
        .filter(|(_, e)| e.v.len() == q.len() && f.map_or(true, |f| filter_matches(f, e)))
        .map(|(k, e)| (k.as_str(), e.v.as_slice()))
        .collect()
}

fn judge(ctx: &mut CaseCtx, side: &Side, j: &Judge, mode: &Mode, res: &[(String, f32)], f: Option<&F>) -> Result<(), Fail> {
    let el = eligible(side, j.q, f);
    let why_not = |key: &str| -> &'static str {
        match side.live.get(key) {
            None => "dead-key",
            Some(e) if e.v.len() != j.q.len() => "wrong-dim-key",
            Some(_) => "filtered-out-key",
        }
    };
    match oracle::check(mode, res, &el, &why_not, j.q, j.k, j.metric) {
        Ok(()) => Ok(()),
        Err(fl) => {
            // a result that the data of an outdated index explains is a stale-index witness
            if let (Some(snap), Some(site)) = (&side.snap, side.mutated) {
                if oracle::explained_by(res, &snap.map, j.q, snap.metric, f.is_some()) {
                    return ctx.fail(
                        format!("stale-{}index-after-{site}", side.prefix),
                        format!(
                            "{}: the cached index built before `{site}` was consulted: result {res:?} is explained by the data at build time but not by the current data ({}: {})",
                            j.tag, fl.kind, fl.msg
                        ),
                    );
                }
            }
            ctx.fail(format!("{}:{}", j.tag, fl.kind), format!("{} q={:?} k={} -> {res:?}: {}", j.tag, j.q, j.k, fl.msg))
        },
    }
}

fn label_search(ctx: &mut CaseCtx, side: &Side, what: &str, q: &[f32], k: usize, metric: Metric, f: Option<&F>) {
    let el = eligible(side, q, f);
    let (cut, tie, zero) = oracle::classes(&el, q, k, metric);
    ctx.label(format!("search:{what}"));
    if cut {
        ctx.label("k < eligible");
    }
    if tie {
        ctx.label("exact tie across the cut");
    }
    if zero {
        ctx.label("zero-norm vector eligible");
    }
    if el.len() >= 3 && k < el.len() {
        ctx.set_nontrivial();
        ctx.label("nontrivial: >=3 eligible, k < eligible");
    }
    if el.len() >= 20 && k < el.len() {
        ctx.label(">=20 eligible, k < eligible");
    }
    if let Some(site) = side.mutated {
        ctx.set_nontrivial();
        ctx.label(format!("search after build+{}{site}", side.prefix));
    }
    if side.cache_live() {
        ctx.label(format!("search with live {}index", side.prefix));
    }
}

/// Run one search of the product. A panic is attributed: to an outdated index that the model says
/// must not be consulted (query of another dimension than the data it was built from), to a valid
/// cached index queried with another dimension, or to the API as such.
fn run_search(
    ctx: &mut CaseCtx,
    side: &Side,
    tag: &str,
    q: &[f32],
    run: &dyn Fn() -> vector_engine::Result<Vec<SearchResult>>,
) -> Result<Option<Vec<(String, f32)>>, Fail> {
    match catch_unwind(AssertUnwindSafe(run)) {
        Ok(Ok(r)) => Ok(Some(pairs(r))),
        Ok(Err(e)) => {
            ctx.fail(format!("{tag}:unexpected-error"), format!("{tag} q={q:?} failed: {e}"))?;
            Ok(None)
        },
        Err(p) => {
            let msg = nv_engine::runner::panic_message(&p);
            if let (Some(snap), Some(site)) = (&side.snap, side.mutated) {
                if snap.dim != q.len() {
                    ctx.fail(
                        format!("stale-{}index-after-{site}", side.prefix),
                        format!("{tag}: the cached index built before `{site}` was consulted with a query of dimension {} (indexed: {}) and panicked: {msg}", q.len(), snap.dim),
                    )?;
                    return Ok(None);
                }
            }
            if live_mismatch(side, q) {
                ctx.fail(
                    "index-query-dim-mismatch:panic",
                    format!("{tag}: panic with a valid cached index over {}-vectors and a query of dimension {}: {msg}", side.snap.as_ref().map_or(0, |s| s.dim), q.len()),
                )?;
                return Ok(None);
            }
            ctx.fail(format!("{tag}:panic"), format!("{tag} q={q:?} panicked: {msg}"))?;
            Ok(None)
        },
    }
}

/// A valid cached index exists and the query has another dimension than the indexed vectors: no
/// stored vector is eligible, the only correct answer is the empty list.
fn live_mismatch(side: &Side, q: &[f32]) -> bool {
    side.cache_live() && side.snap.as_ref().is_some_and(|sn| sn.dim != q.len())
}

fn judge_mismatch(ctx: &mut CaseCtx, tag: &str, q: &[f32], res: &[(String, f32)]) -> Result<(), Fail> {
    ctx.label("live index, query of another dimension");
    if !res.is_empty() {
        ctx.fail(
            "index-query-dim-mismatch:returns-keys",
            format!("{tag}: a query of dimension {} (another dimension than every stored vector) returned {res:?}", q.len()),
        )?;
    }
    Ok(())
}

/// Keys of the cached path are `list_keys()` output stripped of "emb:" a second time.
fn emb_prefix_witness(side: &Side, res: &[(String, f32)]) -> Option<String> {
    res.iter().find(|(k, _)| !side.live.contains_key(k) && side.live.contains_key(&format!("emb:{k}"))).map(|(k, _)| k.clone())
}

// ------------------------------------------------------------------ interpreter

struct Explicit {
    index: HNSWIndex,
    mapping: Vec<String>,
    snap: Snap,
}

fn unexpected<T>(ctx: &mut CaseCtx, tag: &str, e: &VectorError) -> Result<Option<T>, Fail> {
    ctx.fail(format!("{tag}:unexpected-error"), format!("{tag} failed: {e}"))?;
    Ok(None)
}

fn resolve<'a>(c: &'a Case, q: &'a Q) -> &'a [f32] {
    match q {
        Q::P(i) => &c.pool[nv_engine::pick(*i, c.pool.len())],
        Q::F(v) => v,
    }
}

fn pick_k(k: Option<u16>, n: usize) -> usize {
    match k {
        None => 0,
        Some(r) => 1 + nv_engine::pick(r, n + 2),
    }
}

thread_local! {
    /// set once this worker thread reported a failure: every later call on the thread is a shrink
    /// candidate (or the final evaluation of the shrunk case)
    static SHRINKING: std::cell::Cell<bool> = const { std::cell::Cell::new(false) };
    /// every case reported as failing on this thread (hash of its JSON) with the failure reported
    static ACCEPTED: std::cell::RefCell<BTreeMap<u64, Fail>> = const { std::cell::RefCell::new(BTreeMap::new()) };
}

fn case_hash(c: &Case) -> u64 {
    nv_engine::fnv64(serde_json::to_string(c).unwrap_or_default().as_bytes())
}

/// The product breaks score ties by the iteration order of a randomly seeded hash set, so a case
/// whose failure depends on a tie fails only sometimes. A witnessed failure is always reported.
/// While shrinking, a candidate is accepted only when it fails three times in a row (so the replay
/// file normally holds a case that fails every time), and the final evaluation of a case that was
/// reported as failing before reports the failure recorded then. `replay` (strict mode) tries a case up to eight
/// times and reports the first failure.
fn check(c: &Case, ctx: &mut CaseCtx) -> Result<(), Fail> {
    if ctx.strict {
        for _ in 0..8 {
            check_once(c, ctx)?;
        }
        return Ok(());
    }
    if !SHRINKING.with(std::cell::Cell::get) {
        let r = check_once(c, ctx);
        if let Err(f) = &r {
            SHRINKING.with(|s| s.set(true));
            ACCEPTED.with(|a| a.borrow_mut().insert(case_hash(c), f.clone()));
        }
        return r;
    }
    let h = case_hash(c);
    if let Some(f) = ACCEPTED.with(|a| a.borrow().get(&h).cloned()) {
        return Err(f);
    }
    let Err(f) = check_once(c, ctx) else { return Ok(()) };
    for _ in 0..2 {
        match check_once(c, ctx) {
            Err(f2) if f2.sig == f.sig => {},
            _ => return Ok(()),
        }
    }
    ACCEPTED.with(|a| a.borrow_mut().insert(h, f.clone()));
    Err(f)
}

fn check_once(c: &Case, ctx: &mut CaseCtx) -> Result<(), Fail> {
    if c.pool.is_empty() {
        return Ok(());
    }
    let thr = [0.5f32, 0.7, 0.0, 1.0][c.cfg.sparse_thr as usize % 4];
    let mut ecfg = VectorEngineConfig::default().with_sparse_threshold(thr);
    if c.cfg.par {
        ecfg = ecfg.with_parallel_threshold(4).with_batch_parallel_threshold(2);
        ctx.label("cfg: parallel scan/batch thresholds");
    }
    let eng = VectorEngine::with_config(ecfg).map_err(|e| Fail::new("setup", e.to_string()))?;

    let mut d = Side::new("");
    let mut s = Side::new("coll-");
    // named collection configuration (model)
    let mut created = c.coll.created;
    let mut cmetric = if created { c.coll.metric % 3 } else { 0 };
    let mut cdim: Option<usize> = if created { c.coll.dim.map(|i| gen::DIMS[i as usize % 3]) } else { None };
    if created {
        let mut cc = VectorCollectionConfig::default().with_metric(metric_of(cmetric).0);
        if let Some(dm) = cdim {
            cc = cc.with_dimension(dm);
        }
        eng.create_collection(COLL, cc).map_err(|e| Fail::new("setup", e.to_string()))?;
    }
    let mut hx: Option<Explicit> = None;

    // expand the bulk part's macro operations
    let mut ops: Vec<Op> = Vec::with_capacity(c.ops.len());
    let n = c.pool.len();
    let nth = |i: usize| ((i * 65536 + n - 1) / n) as u16; // pick(nth(i), n) == i
    for op in &c.ops {
        match op {
            Op::StoreAll => ops.push(Op::BatchStore { items: (0..n.min(200)).map(|i| (i as u8, nth(i))).collect() }),
            Op::CStoreSome { n: m } => {
                for i in 0..(*m as usize).min(n) {
                    let meta = if i % 2 == 0 { Some(((i % 3) as u8, (i % 5) as i8)) } else { None };
                    ops.push(Op::CStore { key: (i % 5) as u8, v: nth(n - 1 - i), meta });
                }
            },
            o => {
                // every search is preceded by the same search asking for everything (k > live vectors):
                // what it must return does not depend on how the product breaks score ties, so
                // set-level defects (a dead key, a missing key, a wrong score) fail on every run
                if let Some(p) = probe_of(o) {
                    ops.push(p);
                }
                ops.push(o.clone());
            },
        }
    }

    for op in &ops {
        match op {
            Op::StoreAll | Op::CStoreSome { .. } => {},
            // ================================================= default collection: mutations
            Op::Store { key, v } => {
                let key = dkey(*key);
                let vec = c.pool[nv_engine::pick(*v, c.pool.len())].clone();
                if let Err(e) = eng.store_embedding(&key, vec.clone()) {
                    unexpected::<()>(ctx, "store_embedding", &e)?;
                    continue;
                }
                if d.live.contains_key(&key) {
                    ctx.label("overwrite");
                }
                d.live.insert(key.clone(), Entry { v: vec, cat: None, n: None });
                d.mutate("store");
                readback_default(ctx, &eng, &d, &key)?;
            },
            Op::StoreMeta { key, v, cat, n } => {
                let key = dkey(*key);
                let vec = c.pool[nv_engine::pick(*v, c.pool.len())].clone();
                let (cat, n) = meta_of(*cat, *n);
                if let Err(e) = eng.store_embedding_with_metadata(&key, vec.clone(), meta_map(cat, n)) {
                    unexpected::<()>(ctx, "store_embedding_with_metadata", &e)?;
                    continue;
                }
                if d.live.contains_key(&key) {
                    ctx.label("overwrite");
                }
                d.live.insert(key.clone(), Entry { v: vec, cat, n });
                d.mutate("store-with-metadata");
                readback_default(ctx, &eng, &d, &key)?;
            },
            Op::BatchStore { items } => {
                // with the parallel batch path two writes of one key race: keep the last per key
                let mut list: Vec<(String, Vec<f32>)> = Vec::new();
                for (k, v) in items {
                    let key = dkey(*k);
                    let vec = c.pool[nv_engine::pick(*v, c.pool.len())].clone();
                    if c.cfg.par {
                        list.retain(|(k2, _)| *k2 != key);
                    }
                    list.push((key, vec));
                }
                let inputs: Vec<EmbeddingInput> = list.iter().map(|(k, v)| EmbeddingInput::new(k.clone(), v.clone())).collect();
                match eng.batch_store_embeddings(inputs) {
                    Err(e) => {
                        unexpected::<()>(ctx, "batch_store_embeddings", &e)?;
                        continue;
                    },
                    Ok(r) => {
                        let want: Vec<&String> = list.iter().map(|(k, _)| k).collect();
                        if r.count != list.len() || r.stored_keys.iter().collect::<Vec<_>>() != want {
                            ctx.fail("batch_store:result", format!("batch_store_embeddings reported {:?}, stored {want:?}", r.stored_keys))?;
                        }
                    },
                }
                if !list.is_empty() {
                    for (k, v) in list {
                        d.live.insert(k, Entry { v, cat: None, n: None });
                    }
                    d.mutate("batch-store");
                    ctx.label("batch store");
                }
            },
            Op::Delete { key } => {
                let key = dkey(*key);
                let r = eng.delete_embedding(&key);
                if d.live.contains_key(&key) {
                    if let Err(e) = r {
                        unexpected::<()>(ctx, "delete_embedding", &e)?;
                        continue;
                    }
                    d.live.remove(&key);
                    d.mutate("delete");
                    ctx.label("delete");
                } else if !matches!(r, Err(VectorError::NotFound(_))) {
                    ctx.fail("delete:expected-notfound", format!("delete_embedding of absent {key:?} returned {r:?}"))?;
                }
            },
            Op::BatchDelete { keys } => {
                let names: Vec<String> = keys.iter().map(|k| dkey(*k)).collect();
                let want = names.iter().filter(|k| d.live.contains_key(*k)).collect::<BTreeSet<_>>().len();
                match eng.batch_delete_embeddings(names.clone()) {
                    Err(e) => {
                        unexpected::<()>(ctx, "batch_delete_embeddings", &e)?;
                        continue;
                    },
                    Ok(n) if n != want => ctx.fail("batch_delete:count", format!("batch_delete_embeddings({names:?}) = {n}, model {want}"))?,
                    Ok(_) => {},
                }
                if want > 0 {
                    for k in &names {
                        d.live.remove(k);
                    }
                    d.mutate("batch-delete");
                    ctx.label("batch delete");
                }
            },
            Op::Clear => {
                match eng.clear() {
                    Err(e) => {
                        unexpected::<()>(ctx, "clear", &e)?;
                        continue;
                    },
                    Ok(n) if n != d.live.len() => ctx.fail("clear:count", format!("clear() = {n}, model {}", d.live.len()))?,
                    Ok(_) => {},
                }
                if !d.live.is_empty() {
                    d.live.clear();
                    d.mutate("clear");
                    ctx.label("clear");
                }
            },
            Op::Build { cfg } => {
                let r = eng.build_and_cache_index(hnsw_cfg(*cfg));
                if d.live.is_empty() || d.uniform_dim().is_some() {
                    if let Err(e) = r {
                        unexpected::<()>(ctx, "build_and_cache_index", &e)?;
                        continue;
                    }
                    d.take_snap(Metric::Cosine);
                    ctx.label(if d.live.is_empty() { "build index (empty)" } else { "build index" });
                } else if !matches!(r, Err(VectorError::DimensionMismatch { .. })) {
                    ctx.fail("build:expected-dimension-mismatch", format!("build_and_cache_index over mixed dimensions returned {r:?}"))?;
                } else {
                    ctx.label("build index refused (mixed dims)");
                }
            },
            Op::Get { key } => {
                let key = dkey(*key);
                if d.live.contains_key(&key) {
                    readback_default(ctx, &eng, &d, &key)?;
                } else {
                    let r = eng.get_embedding(&key);
                    if !matches!(r, Err(VectorError::NotFound(_))) {
                        ctx.fail("get:expected-notfound", format!("get_embedding of absent {key:?} returned {r:?}"))?;
                    }
                }
            },

            // ================================================= default collection: searches
            Op::Search { q, k } => {
                let q = resolve(c, q);
                let k = pick_k(*k, d.live.len());
                if k == 0 {
                    expect_topk(ctx, "search_similar", eng.search_similar(q, 0))?;
                    continue;
                }
                label_search(ctx, &d, "similar", q, k, Metric::Cosine, None);
                let Some(res) = run_search(ctx, &d, "search_similar", q, &|| eng.search_similar(q, k))? else { continue };
                if is_zero(q) {
                    ctx.label("zero query");
                    if !res.is_empty() {
                        ctx.fail("search_similar:zero-query-nonempty", format!("zero query returned {res:?}"))?;
                    }
                    continue;
                }
                if live_mismatch(&d, q) {
                    judge_mismatch(ctx, "search_similar+index", q, &res)?;
                } else if d.cache_live() {
                    if let Some(w) = emb_prefix_witness(&d, &res) {
                        ctx.fail(
                            "index-key-emb-prefix-stripped",
                            format!("search_similar via the cached index returned key {w:?}; the stored key is \"emb:{w}\" (prefix stripped twice)"),
                        )?;
                        continue;
                    }
                    judge(ctx, &d, &Judge { tag: "search_similar+index", q, k, metric: Metric::Cosine }, &Mode::Sound, &res, None)?;
                } else {
                    judge(ctx, &d, &Judge { tag: "search_similar", q, k, metric: Metric::Cosine }, &Mode::Exact, &res, None)?;
                }
            },
            Op::SearchMetric { q, k, metric } => {
                let q = resolve(c, q);
                let k = pick_k(*k, d.live.len());
                let (pm, om, _) = metric_of(*metric);
                if k == 0 {
                    expect_topk(ctx, "search_similar_with_metric", eng.search_similar_with_metric(q, 0, pm))?;
                    continue;
                }
                label_search(ctx, &d, &format!("metric:{}", om.name()), q, k, om, None);
                let tag = format!("search_metric.{}", om.name());
                let Some(res) = run_search(ctx, &d, &tag, q, &|| eng.search_similar_with_metric(q, k, pm))? else { continue };
                if is_zero(q) && om != Metric::Euclid {
                    ctx.label("zero query");
                    if !res.is_empty() {
                        ctx.fail("search_metric:zero-query-nonempty", format!("zero query ({}) returned {res:?}", om.name()))?;
                    }
                    continue;
                }
                // never served from the cached index: always exhaustive
                judge(ctx, &d, &Judge { tag: &tag, q, k, metric: om }, &Mode::Exact, &res, None)?;
            },
            Op::SearchFiltered { q, k, f, strat, over } => {
                let q = resolve(c, q);
                let k = pick_k(*k, d.live.len());
                let cond = filter_of(f);
                let (cfg, sname, factor) = strat_of(*strat, *over);
                if k == 0 {
                    expect_topk(ctx, "search_similar_filtered", eng.search_similar_filtered(q, 0, &cond, cfg))?;
                    continue;
                }
                label_search(ctx, &d, &format!("filtered:{sname}"), q, k, Metric::Cosine, Some(f));
                ctx.label(format!("filter kind {}", f.kind % 9));
                let tag = format!("search_filtered.{sname}");
                let Some(res) = run_search(ctx, &d, &tag, q, &|| eng.search_similar_filtered(q, k, &cond, cfg.clone()))? else { continue };
                if is_zero(q) {
                    ctx.label("zero query");
                    if !res.is_empty() {
                        ctx.fail("search_filtered:zero-query-nonempty", format!("zero query returned {res:?}"))?;
                    }
                    continue;
                }
                let jd = Judge { tag: &tag, q, k, metric: Metric::Cosine };
                if *strat % 3 == 1 {
                    // pre-filter: documented as "filter first, then search the subset" - exhaustive
                    judge(ctx, &d, &jd, &Mode::Exact, &res, Some(f))?;
                } else if live_mismatch(&d, q) {
                    judge_mismatch(ctx, "search_filtered+index", q, &res)?;
                } else if d.cache_live() {
                    if let Some(w) = emb_prefix_witness(&d, &res) {
                        ctx.fail("index-key-emb-prefix-stripped", format!("{tag} via the cached index returned key {w:?}; the stored key is \"emb:{w}\""))?;
                        continue;
                    }
                    let tag = format!("{tag}+index");
                    judge(ctx, &d, &Judge { tag: &tag, ..jd }, &Mode::Sound, &res, Some(f))?;
                } else {
                    let pool = eligible(&d, q, None);
                    let kprime = k.saturating_mul(factor).max(k);
                    judge(ctx, &d, &jd, &Mode::Post { kprime, pool: &pool }, &res, Some(f))?;
                }
            },

            // ================================================= explicit (caller-held) HNSW index
            Op::HnswBuild { storage, cfg } => {
                let (st, stname) = if *storage % 2 == 0 { (HNSWStorageStrategy::Dense, "dense") } else { (HNSWStorageStrategy::Auto, "auto") };
                let r = eng.build_hnsw_index_with_options(HNSWBuildOptions { storage: st, hnsw_config: hnsw_cfg(*cfg) });
                if d.live.is_empty() || d.uniform_dim().is_some() {
                    match r {
                        Err(e) => {
                            unexpected::<()>(ctx, "build_hnsw_index", &e)?;
                        },
                        Ok((index, mapping)) => {
                            let got: BTreeSet<&String> = mapping.iter().collect();
                            let want: BTreeSet<&String> = d.live.keys().collect();
                            if got != want || mapping.len() != d.live.len() || index.len() != d.live.len() {
                                ctx.fail(
                                    "build_hnsw:mapping",
                                    format!("build_hnsw_index: mapping {mapping:?} / {} nodes, stored keys {want:?}", index.len()),
                                )?;
                            }
                            // the caller's configuration names the metric the index ranks and scores by
                            let metric = match (*cfg / 3) % 4 {
                                2 => Metric::Euclid,
                                3 => Metric::Dot,
                                _ => Metric::Cosine,
                            };
                            ctx.label(format!("explicit index built ({stname}, {})", metric.name()));
                            let snap = Snap {
                                map: d.live.iter().map(|(k, e)| (k.clone(), e.v.clone())).collect(),
                                dim: d.uniform_dim().unwrap_or(0),
                                metric,
                            };
                            hx = if d.live.is_empty() { None } else { Some(Explicit { index, mapping, snap }) };
                        },
                    }
                } else if !matches!(r, Err(VectorError::DimensionMismatch { .. })) {
                    ctx.fail("build_hnsw:expected-dimension-mismatch", "build_hnsw_index over mixed dimensions did not fail".to_string())?;
                }
            },
            Op::HnswSearch { q, k, mode } => {
                let q = resolve(c, q);
                if hx.is_none() && !d.live.is_empty() && d.uniform_dim().is_some() {
                    // no index held yet: the caller builds one now (default options)
                    if let Ok((index, mapping)) = eng.build_hnsw_index(HNSWConfig::default()) {
                        let snap = Snap {
                            map: d.live.iter().map(|(k, e)| (k.clone(), e.v.clone())).collect(),
                            dim: d.uniform_dim().unwrap_or(0),
                            metric: Metric::Cosine,
                        };
                        hx = Some(Explicit { index, mapping, snap });
                    }
                }
                let Some(x) = &hx else {
                    ctx.label("skipped: no explicit index");
                    continue;
                };
                if q.len() != x.snap.dim {
                    ctx.label("skipped: explicit index of another dimension");
                    continue;
                }
                let k = pick_k(*k, x.snap.map.len());
                if k == 0 {
                    expect_topk(ctx, "search_with_hnsw", eng.search_with_hnsw(&x.index, &x.mapping, q, 0))?;
                    continue;
                }
                if *mode % 4 == 0 {
                    // results are about the data the caller's index was built from
                    let el: BTreeMap<&str, &[f32]> = x.snap.map.iter().map(|(k, v)| (k.as_str(), v.as_slice())).collect();
                    ctx.label("search:hnsw explicit");
                    if el.len() >= 3 && k < el.len() {
                        ctx.set_nontrivial();
                        ctx.label("nontrivial: >=3 eligible, k < eligible");
                    }
                    let res = match eng.search_with_hnsw(&x.index, &x.mapping, q, k) {
                        Ok(r) => pairs(r),
                        Err(e) => {
                            unexpected::<()>(ctx, "search_with_hnsw", &e)?;
                            continue;
                        },
                    };
                    let why = |_: &str| -> &'static str { "key-not-in-index" };
                    if let Err(fl) = oracle::check(&Mode::Sound, &res, &el, &why, q, k, x.snap.metric) {
                        let tag = if x.snap.metric == Metric::Cosine { "search_with_hnsw".to_string() } else { format!("search_with_hnsw.{}", x.snap.metric.name()) };
                        ctx.fail(format!("{tag}:{}", fl.kind), format!("{tag} q={q:?} k={k} -> {res:?}: {}", fl.msg))?;
                    }
                } else {
                    // candidates from the index, re-ranked against the vectors stored *now*
                    let (pm, om) = match *mode % 4 {
                        1 => (ExtendedDistanceMetric::Cosine, Metric::CosHalf),
                        2 => (ExtendedDistanceMetric::Euclidean, Metric::Euclid),
                        _ => (ExtendedDistanceMetric::Manhattan, Metric::Manhattan),
                    };
                    let el: BTreeMap<&str, &[f32]> = x
                        .snap
                        .map
                        .keys()
                        .filter_map(|k| d.live.get(k).map(|e| (k.as_str(), e.v.as_slice())))
                        .collect();
                    if el.values().any(|v| v.len() != q.len()) {
                        ctx.label("skipped: re-rank over changed dimensions");
                        continue;
                    }
                    ctx.label(format!("search:hnsw explicit rerank {}", om.name()));
                    if el.len() >= 3 && k < el.len() {
                        ctx.set_nontrivial();
                        ctx.label("nontrivial: >=3 eligible, k < eligible");
                    }
                    let res = match eng.search_with_hnsw_and_metric(&x.index, &x.mapping, q, k, &pm) {
                        Ok(r) => pairs(r),
                        Err(e) => {
                            unexpected::<()>(ctx, "search_with_hnsw_and_metric", &e)?;
                            continue;
                        },
                    };
                    let why = |key: &str| -> &'static str {
                        if d.live.contains_key(key) {
                            "key-not-in-index"
                        } else {
                            "dead-key"
                        }
                    };
                    if let Err(fl) = oracle::check(&Mode::Sound, &res, &el, &why, q, k, om) {
                        ctx.fail(
                            format!("search_with_hnsw_and_metric.{}:{}", om.name(), fl.kind),
                            format!("search_with_hnsw_and_metric({}) q={q:?} k={k} -> {res:?}: {}", om.name(), fl.msg),
                        )?;
                    }
                }
            },

            // ================================================= named collection
            Op::CStore { key, v, meta } => {
                let key = ckey(*key);
                let vec = c.pool[nv_engine::pick(*v, c.pool.len())].clone();
                let (cat, n) = meta.map_or((None, None), |(cat, n)| meta_of(cat, n));
                let r = match meta {
                    None => eng.store_in_collection(COLL, &key, vec.clone()),
                    Some(_) => eng.store_in_collection_with_metadata(COLL, &key, vec.clone(), meta_map(cat, n)),
                };
                if cdim.is_some_and(|dm| dm != vec.len()) {
                    if !matches!(r, Err(VectorError::DimensionMismatch { .. })) {
                        ctx.fail("coll-store:expected-dimension-mismatch", format!("store of a {}-vector into a collection of dimension {cdim:?} returned {r:?}", vec.len()))?;
                    }
                    ctx.label("coll store refused (dimension)");
                    continue;
                }
                if let Err(e) = r {
                    unexpected::<()>(ctx, "store_in_collection", &e)?;
                    continue;
                }
                s.live.insert(key.clone(), Entry { v: vec, cat, n });
                s.mutate("store");
                readback_coll(ctx, &eng, &s, &key)?;
            },
            Op::CDelete { key } => {
                let key = ckey(*key);
                let r = eng.delete_from_collection(COLL, &key);
                if s.live.contains_key(&key) {
                    if let Err(e) = r {
                        unexpected::<()>(ctx, "delete_from_collection", &e)?;
                        continue;
                    }
                    s.live.remove(&key);
                    s.mutate("delete");
                } else if !matches!(r, Err(VectorError::NotFound(_))) {
                    ctx.fail("coll-delete:expected-notfound", format!("delete_from_collection of absent {key:?} returned {r:?}"))?;
                }
            },
            Op::CGet { key } => {
                let key = ckey(*key);
                if s.live.contains_key(&key) {
                    readback_coll(ctx, &eng, &s, &key)?;
                } else {
                    let r = eng.get_from_collection(COLL, &key);
                    if !matches!(r, Err(VectorError::NotFound(_))) {
                        ctx.fail("coll-get:expected-notfound", format!("get_from_collection of absent {key:?} returned {r:?}"))?;
                    }
                }
            },
            Op::CDrop => {
                let r = eng.delete_collection(COLL);
                if created {
                    if let Err(e) = r {
                        unexpected::<()>(ctx, "delete_collection", &e)?;
                        continue;
                    }
                    created = false;
                    cmetric = 0;
                    cdim = None;
                    s.live.clear();
                    s.mutate("delete-collection");
                    ctx.label("coll dropped");
                } else if !matches!(r, Err(VectorError::CollectionNotFound(_))) {
                    ctx.fail("coll-drop:expected-notfound", format!("delete_collection of a collection never created returned {r:?}"))?;
                }
            },
            Op::CCreate { metric, dim } => {
                let dm = dim.map(|i| gen::DIMS[i as usize % 3]);
                let mut cc = VectorCollectionConfig::default().with_metric(metric_of(*metric).0);
                if let Some(x) = dm {
                    cc = cc.with_dimension(x);
                }
                let r = eng.create_collection(COLL, cc);
                if created {
                    if !matches!(r, Err(VectorError::CollectionExists(_))) {
                        ctx.fail("coll-create:expected-exists", format!("create_collection of an existing collection returned {r:?}"))?;
                    }
                } else {
                    if let Err(e) = r {
                        unexpected::<()>(ctx, "create_collection", &e)?;
                        continue;
                    }
                    created = true;
                    cmetric = *metric % 3;
                    cdim = dm;
                    // the caller's index was built for the previous configuration: the caller drops it
                    eng.invalidate_hnsw_cache(COLL);
                    s.snap = None;
                    s.mutated = None;
                    s.built = false;
                    ctx.label("coll (re)created");
                }
            },
            Op::CBuild => {
                // a caller builds an index for the collection from what the API returns and caches it
                let Some(dim) = s.uniform_dim() else {
                    ctx.label("skipped: coll index (empty or mixed dims)");
                    continue;
                };
                let mut keys = eng.list_collection_keys(COLL);
                keys.sort();
                let want: Vec<String> = s.live.keys().cloned().collect();
                if keys != want {
                    ctx.fail("coll-list:keys", format!("list_collection_keys = {keys:?}, model {want:?}"))?;
                    continue;
                }
                let (_, om, hm) = metric_of(cmetric);
                // mostly an index of the collection's metric; sometimes the caller caches one built
                // with another metric (scores must still be the collection's)
                let hm = if keys.len() % 4 == 3 {
                    ctx.label("coll index of another metric cached");
                    metric_of(cmetric.wrapping_add(1)).2
                } else {
                    hm
                };
                let index = HNSWIndex::with_config(HNSWConfig::default().with_distance_metric(hm));
                let mut ok = true;
                for k in &keys {
                    match eng.get_from_collection(COLL, k) {
                        Ok(v) if v.len() == dim => {
                            index.insert(v);
                        },
                        other => {
                            ctx.fail("coll-readback", format!("get_from_collection({k:?}) = {other:?} while building an index"))?;
                            ok = false;
                            break;
                        },
                    }
                }
                if !ok {
                    continue;
                }
                eng.cache_hnsw_index(COLL, Arc::new(index), keys);
                s.take_snap(om);
                ctx.label(format!("coll index cached ({})", om.name()));
            },
            Op::CSearch { q, k } => {
                let q = resolve(c, q);
                let k = pick_k(*k, s.live.len());
                let (_, om, _) = metric_of(cmetric);
                if k == 0 {
                    expect_topk(ctx, "search_in_collection", eng.search_in_collection(COLL, q, 0))?;
                    continue;
                }
                if cdim.is_some_and(|dm| dm != q.len()) {
                    let r = eng.search_in_collection(COLL, q, k);
                    if !matches!(r, Err(VectorError::DimensionMismatch { .. })) {
                        ctx.fail("coll-search:expected-dimension-mismatch", format!("query of dimension {} in a collection of dimension {cdim:?} returned {r:?}", q.len()))?;
                    }
                    continue;
                }
                label_search(ctx, &s, &format!("coll:{}", om.name()), q, k, om, None);
                let tag = format!("search_in_collection.{}", om.name());
                let Some(res) = run_search(ctx, &s, &tag, q, &|| eng.search_in_collection(COLL, q, k))? else { continue };
                if is_zero(q) {
                    ctx.label("zero query");
                    if om == Metric::Cosine {
                        if !res.is_empty() {
                            ctx.fail("coll-search:zero-query-nonempty", format!("zero query (cosine) returned {res:?}"))?;
                        }
                        continue;
                    }
                    // dot product: every score is 0; an empty answer is accepted as well
                    if om == Metric::Dot && res.is_empty() {
                        continue;
                    }
                }
                if live_mismatch(&s, q) {
                    judge_mismatch(ctx, "search_in_collection+index", q, &res)?;
                } else if s.cache_live() {
                    let tag = format!("{tag}+index");
                    judge(ctx, &s, &Judge { tag: &tag, q, k, metric: om }, &Mode::Sound, &res, None)?;
                } else {
                    judge(ctx, &s, &Judge { tag: &tag, q, k, metric: om }, &Mode::Exact, &res, None)?;
                }
            },
            Op::CSearchFiltered { q, k, f, strat, over } => {
                let q = resolve(c, q);
                let k = pick_k(*k, s.live.len());
                let (_, om, _) = metric_of(cmetric);
                let cond = filter_of(f);
                let (cfg, sname, factor) = strat_of(*strat, *over);
                if k == 0 {
                    expect_topk(ctx, "search_filtered_in_collection", eng.search_filtered_in_collection(COLL, q, 0, &cond, cfg))?;
                    continue;
                }
                if cdim.is_some_and(|dm| dm != q.len()) {
                    let r = eng.search_filtered_in_collection(COLL, q, k, &cond, cfg);
                    if !matches!(r, Err(VectorError::DimensionMismatch { .. })) {
                        ctx.fail("coll-filtered:expected-dimension-mismatch", format!("query of dimension {} in a collection of dimension {cdim:?} returned {r:?}", q.len()))?;
                    }
                    continue;
                }
                label_search(ctx, &s, &format!("coll-filtered:{sname}:{}", om.name()), q, k, om, Some(f));
                let tag = format!("search_filtered_in_collection.{sname}.{}", om.name());
                let Some(res) = run_search(ctx, &s, &tag, q, &|| eng.search_filtered_in_collection(COLL, q, k, &cond, cfg.clone()))? else { continue };
                if is_zero(q) {
                    ctx.label("zero query");
                    if res.is_empty() {
                        continue;
                    }
                    if om == Metric::Cosine {
                        ctx.fail("coll-filtered:zero-query-nonempty", format!("zero query (cosine) returned {res:?}"))?;
                        continue;
                    }
                }
                if *strat % 3 != 1 && live_mismatch(&s, q) {
                    judge_mismatch(ctx, "search_filtered_in_collection+index", q, &res)?;
                    continue;
                }
                let pool = eligible(&s, q, None);
                let kprime = k.saturating_mul(factor).max(k);
                let mode = if *strat % 3 == 1 {
                    Mode::Exact
                } else if s.cache_live() {
                    Mode::Sound
                } else {
                    Mode::Post { kprime, pool: &pool }
                };
                // the pre-filter branch scores with cosine whatever the collection's metric is: when the
                // result is wrong under the collection's metric but a correct exhaustive cosine answer,
                // report exactly that
                if om != Metric::Cosine && *strat % 3 != 2 {
                    let el = eligible(&s, q, Some(f));
                    let why = |_: &str| -> &'static str { "x" };
                    let under_metric = oracle::check(&mode, &res, &el, &why, q, k, om).is_ok();
                    if !under_metric && oracle::check(&Mode::Exact, &res, &el, &why, q, k, Metric::Cosine).is_ok() {
                        ctx.fail(
                            "coll-prefilter-scores-cosine-not-collection-metric",
                            format!(
                                "{tag}: result {res:?} is the exhaustive answer under cosine similarity, but the collection's metric is {}",
                                om.name()
                            ),
                        )?;
                        continue;
                    }
                }
                judge(ctx, &s, &Judge { tag: &tag, q, k, metric: om }, &mode, &res, Some(f))?;
            },
        }
    }

    // final sweep: everything stored reads back exactly; nothing else is listed
    let mut keys = eng.list_keys();
    keys.sort();
    let want: Vec<String> = d.live.keys().cloned().collect();
    if keys != want || eng.count() != want.len() {
        ctx.fail("list-keys", format!("list_keys = {keys:?} (count {}), model {want:?}", eng.count()))?;
    }
    for k in &want {
        readback_default(ctx, &eng, &d, k)?;
    }
    let mut keys = eng.list_collection_keys(COLL);
    keys.sort();
    let want: Vec<String> = s.live.keys().cloned().collect();
    if keys != want {
        ctx.fail("coll-list:keys", format!("list_collection_keys = {keys:?}, model {want:?}"))?;
    }
    for k in &want {
        readback_coll(ctx, &eng, &s, k)?;
    }
    Ok(())
}

fn probe_of(op: &Op) -> Option<Op> {
    const ALL: Option<u16> = Some(u16::MAX);
    let mut p = op.clone();
    match &mut p {
        Op::Search { k, .. }
        | Op::SearchMetric { k, .. }
        | Op::SearchFiltered { k, .. }
        | Op::CSearch { k, .. }
        | Op::CSearchFiltered { k, .. } => {
            if k.is_none() || *k == ALL {
                return None;
            }
            *k = ALL;
        },
        _ => return None,
    }
    Some(p)
}

fn strat_of(strat: u8, over: u8) -> (Option<FilteredSearchConfig>, &'static str, usize) {
    match strat % 3 {
        0 => (None, "auto", 3),
        1 => (Some(FilteredSearchConfig::pre_filter()), "pre", 3),
        _ => {
            let f = usize::from(over.clamp(1, 3));
            (Some(FilteredSearchConfig::post_filter().with_oversample(f)), "post", f)
        },
    }
}

fn expect_topk(ctx: &mut CaseCtx, tag: &str, r: vector_engine::Result<Vec<SearchResult>>) -> Result<(), Fail> {
    ctx.label("k = 0");
    if !matches!(r, Err(VectorError::InvalidTopK)) {
        ctx.fail(format!("{tag}:expected-invalid-topk"), format!("{tag} with k=0 returned {r:?}"))?;
    }
    Ok(())
}

fn repr_label(ctx: &mut CaseCtx, eng: &VectorEngine, storage_key: &str, v: &[f32]) {
    if let Ok(t) = eng.store().get(storage_key) {
        match t.get("vector") {
            Some(TensorValue::Sparse(_)) => {
                ctx.label("stored sparse");
                if v.iter().any(|x| *x != 0.0 && x.abs() <= 1e-6) {
                    ctx.label("stored sparse with tiny non-zero component");
                }
                if v.iter().all(|x| *x == 0.0) {
                    ctx.label("stored all-zero vector");
                }
            },
            Some(TensorValue::Vector(_)) => ctx.label("stored dense"),
            _ => {},
        }
    }
}

fn readback_default(ctx: &mut CaseCtx, eng: &VectorEngine, d: &Side, key: &str) -> Result<(), Fail> {
    let want = &d.live[key].v;
    repr_label(ctx, eng, &format!("emb:{key}"), want);
    match eng.get_embedding(key) {
        Ok(got) if same(&got, want) => Ok(()),
        other => ctx.fail("readback", format!("get_embedding({key:?}) = {other:?}, stored {want:?}")),
    }
}

fn readback_coll(ctx: &mut CaseCtx, eng: &VectorEngine, s: &Side, key: &str) -> Result<(), Fail> {
    let want = &s.live[key].v;
    repr_label(ctx, eng, &format!("coll:{COLL}:emb:{key}"), want);
    match eng.get_from_collection(COLL, key) {
        Ok(got) if same(&got, want) => Ok(()),
        other => ctx.fail("coll-readback", format!("get_from_collection({key:?}) = {other:?}, stored {want:?}")),
    }
}

fn main() {
    main_for(PropDef {
        id: "C06",
        level: "exploration",
        rule: "a case is a history of store/overwrite/delete/batch/clear/build-index/search/get operations over the default collection and one named collection (vectors of dimension 3/8/33: dense, >=70% zeros, all-zero, scaled duplicates, tiny components; every metric; metadata filters). Non-trivial = the history contains a search with >= 3 eligible vectors (live, of the query's dimension, matching the filter) and k < eligible, or a search issued after a mutation that followed an index build of that collection. distinct = distinct generated case (hash of its JSON).",
        assumptions: vec![
            "scores: cosine = dot/(|q||v|) and 0 when a norm is 0; euclidean = 1/(1+L2); dot = inner product; re-ranked HNSW: cosine -> (cos+1)/2, manhattan -> 1/(1+L1) (documented formulas), recomputed in f64",
            "score tolerance 1e-4*max(1,|s|), plus for dot products 4(n+2)*6e-8*sum|q_i v_i| (forward error bound of an f32 sum)",
            "component magnitudes in {0} U [1e-10, 1e3] so that f32 squares neither overflow nor underflow",
            "with a valid cached index only soundness is asserted (live keys, true scores, order, no duplicates, <= k); recall is not",
            "post-filter / auto filtered search is judged as 'exhaustive top k*oversample, then filter' (documented strategy), pre-filter as exhaustive",
            "a caller-held explicit index (search_with_hnsw) is judged against the data it was built from",
            "with the parallel batch path, a batch never contains one key twice (two writes of one key would race)",
            "tie order depends on the product's hash-map scan order (random per process); predicates accept every tie order",
        ],
        parts: vec![
            PropPart::new("ops", 100_000, 2_000_000, gen::ops_strategy, check).shrink_iters(12000).boxed(),
            PropPart::new("bulk", 8_000, 100_000, gen::bulk_strategy, check).shrink_iters(2500).boxed(),
        ],
        children: vec![],
    });
}
