//! C17 — Membership views converge and never move backwards.
//!
//! Parts:
//!  * `perm`    one multiset of updates delivered to two replicas (LWWMembershipState::merge) in
//!              different permutations / batchings / with repetitions; views must be equal and
//!              equal to the reference maximum; incarnation and clock never decrease.
//!  * `small`   every multiset of ≤ 3 updates over a tiny domain × every delivery order, exhaustively.
//!  * `events`  histories mixing gossip exchange with local suspect/fail/refute/mark_healthy on
//!              3–4 replicas, updates produced the way nodes produce them; monotonicity, "never
//!              failed above an announced incarnation", convergence after full exchange.
//!  * `manager` the same update streams through GossipMembershipManager::handle_gossip(Sync).
//!  * `manager_msgs` Sync / Suspect / Alive messages handed to the manager of member m0 itself (its own
//!               entry arrives through syncs too): incarnations and the logical clock never go down.

use nv_engine::{main_for, CaseCtx, CustomPart, Fail, PropDef, PropPart, Tier};
use proptest::prelude::*;
use serde::{Deserialize, Serialize};
use std::collections::BTreeMap;
use std::sync::Arc;
use tensor_chain::gossip::{GossipConfig, GossipMembershipManager, GossipMessage, GossipNodeState, LWWMembershipState};
use tensor_chain::membership::NodeHealth;
use tensor_chain::network::MemoryTransport;

#[derive(Clone, Debug, Serialize, Deserialize, PartialEq, Eq, PartialOrd, Ord)]
struct Upd {
    member: u8,
    inc: u64,
    ts: u64,
    health: u8,
}

fn health_of(h: u8) -> NodeHealth {
    match h % 4 {
        0 => NodeHealth::Healthy,
        1 => NodeHealth::Degraded,
        2 => NodeHealth::Failed,
        _ => NodeHealth::Unknown,
    }
}

fn health_code(h: NodeHealth) -> u8 {
    match h {
        NodeHealth::Healthy => 0,
        NodeHealth::Degraded => 1,
        NodeHealth::Failed => 2,
        _ => 3,
    }
}

fn member_id(m: u8) -> String {
    format!("m{m}")
}

fn to_state(u: &Upd) -> GossipNodeState {
    // explicit wall time: the view compared is (health, incarnation); updated_at is not part of it
    GossipNodeState::with_wall_time(member_id(u.member), health_of(u.health), u.ts, u.inc, 1_000)
}

/// One delivery of the multiset: permutation keys, duplicates inserted, batch cuts.
#[derive(Clone, Debug, Serialize, Deserialize)]
struct Delivery {
    keys: Vec<u16>,
    dups: Vec<(u16, u16)>,
    cuts: Vec<bool>,
}

#[derive(Clone, Debug, Serialize, Deserialize)]
struct PermCase {
    updates: Vec<Upd>,
    a: Delivery,
    b: Delivery,
}

fn upd_strategy(members: u8, incs: u64, tss: u64) -> impl Strategy<Value = Upd> {
    (0..members, 0..incs, 0..tss, 0u8..4).prop_map(|(member, inc, ts, health)| Upd { member, inc, ts, health })
}

fn delivery_strategy() -> impl Strategy<Value = Delivery> {
    (
        prop::collection::vec(any::<u16>(), 12),
        prop::collection::vec((any::<u16>(), any::<u16>()), 0..4),
        prop::collection::vec(any::<bool>(), 16),
    )
        .prop_map(|(keys, dups, cuts)| Delivery { keys, dups, cuts })
}

fn perm_strategy(_t: Tier) -> impl Strategy<Value = PermCase> {
    (2u8..=4, 1u64..=4, 1u64..=5)
        .prop_flat_map(|(m, i, t)| prop::collection::vec(upd_strategy(m, i, t), 2..=12))
        .prop_flat_map(|updates| (Just(updates), delivery_strategy(), delivery_strategy()))
        .prop_map(|(updates, a, b)| PermCase { updates, a, b })
}

/// Expand a delivery into batches of update indices.
fn expand(n: usize, d: &Delivery) -> Vec<Vec<usize>> {
    let mut order: Vec<usize> = (0..n).collect();
    order.sort_by_key(|i| (d.keys.get(*i).copied().unwrap_or(0), *i));
    for (which, pos) in &d.dups {
        let w = nv_engine::pick(*which, n);
        let p = nv_engine::pick(*pos, order.len() + 1);
        order.insert(p, w);
    }
    let mut batches: Vec<Vec<usize>> = vec![Vec::new()];
    for (k, idx) in order.iter().enumerate() {
        batches.last_mut().unwrap().push(*idx);
        if d.cuts.get(k).copied().unwrap_or(false) && k + 1 < order.len() {
            batches.push(Vec::new());
        }
    }
    batches
}

type View = BTreeMap<String, (u8, u64)>;

fn view_of(s: &LWWMembershipState) -> View {
    s.all_states().map(|st| (st.node_id.clone(), (health_code(st.health), st.incarnation))).collect()
}

/// Deliver batches to a fresh replica, checking monotonicity after every merge call.
fn deliver(updates: &[Upd], batches: &[Vec<usize>], ctx: &mut CaseCtx, who: &str) -> Result<LWWMembershipState, Fail> {
    let mut s = LWWMembershipState::new();
    let mut last_inc: BTreeMap<String, u64> = BTreeMap::new();
    let mut last_clock = s.lamport_time();
    for b in batches {
        let states: Vec<GossipNodeState> = b.iter().map(|i| to_state(&updates[*i])).collect();
        s.merge(&states);
        check_monotone(&s, &mut last_inc, &mut last_clock, ctx, who)?;
    }
    Ok(s)
}

fn check_monotone(
    s: &LWWMembershipState,
    last_inc: &mut BTreeMap<String, u64>,
    last_clock: &mut u64,
    ctx: &mut CaseCtx,
    who: &str,
) -> Result<(), Fail> {
    if s.lamport_time() < *last_clock {
        ctx.fail("clock-decreased", format!("{who}: lamport_time went {} -> {}", *last_clock, s.lamport_time()))?;
    }
    *last_clock = s.lamport_time();
    for st in s.all_states() {
        let prev = last_inc.get(&st.node_id).copied();
        if let Some(p) = prev {
            if st.incarnation < p {
                ctx.fail(
                    "incarnation-decreased",
                    format!("{who}: incarnation of {} went {p} -> {}", st.node_id, st.incarnation),
                )?;
            }
        }
        last_inc.insert(st.node_id.clone(), st.incarnation);
    }
    // a member once recorded is never forgotten by merge
    for m in last_inc.keys() {
        if s.get(m).is_none() {
            ctx.fail("member-vanished", format!("{who}: member {m} vanished"))?;
        }
    }
    Ok(())
}

/// Reference: per member the set of updates that are maximal under the documented newer-wins rule
/// (higher incarnation, then higher timestamp). Returns member -> set of (health, inc) of maxima.
fn reference(updates: &[Upd]) -> BTreeMap<String, Vec<(u8, u64)>> {
    let mut best: BTreeMap<u8, (u64, u64)> = BTreeMap::new();
    for u in updates {
        let e = best.entry(u.member).or_insert((u.inc, u.ts));
        if (u.inc, u.ts) > *e {
            *e = (u.inc, u.ts);
        }
    }
    let mut out = BTreeMap::new();
    for (m, (inc, ts)) in best {
        let mut hs: Vec<(u8, u64)> =
            updates.iter().filter(|u| u.member == m && u.inc == inc && u.ts == ts).map(|u| (u.health % 4, u.inc)).collect();
        hs.sort_unstable();
        hs.dedup();
        out.insert(member_id(m), hs);
    }
    out
}

fn tie_class(updates: &[Upd]) -> bool {
    // two updates for one member with equal (inc, ts) and different health
    for (i, a) in updates.iter().enumerate() {
        for b in &updates[i + 1..] {
            if a.member == b.member && a.inc == b.inc && a.ts == b.ts && a.health % 4 != b.health % 4 {
                return true;
            }
        }
    }
    false
}

fn check_views(updates: &[Upd], va: &View, vb: &View, ctx: &mut CaseCtx) -> Result<(), Fail> {
    let refv = reference(updates);
    if va != vb {
        let tie = tie_class(updates);
        let sig = if tie { "diverge-on-tie" } else { "diverge" };
        ctx.fail(sig, format!("replica views differ after the same multiset: A={va:?} B={vb:?}"))?;
    }
    for (who, v) in [("A", va), ("B", vb)] {
        if v.len() != refv.len() {
            ctx.fail("member-set", format!("{who} holds {} members, reference {}", v.len(), refv.len()))?;
        }
        for (m, maxima) in &refv {
            match v.get(m) {
                None => ctx.fail("member-missing", format!("{who} lacks member {m}"))?,
                Some(got) => {
                    if !maxima.contains(got) {
                        ctx.fail(
                            "not-newest",
                            format!("{who}: member {m} is {got:?}, newest update(s) under newer-wins: {maxima:?}"),
                        )?;
                    }
                },
            }
        }
    }
    Ok(())
}

fn classify(c: &PermCase, ctx: &mut CaseCtx) -> (Vec<Vec<usize>>, Vec<Vec<usize>>) {
    let n = c.updates.len();
    let ba = expand(n, &c.a);
    let bb = expand(n, &c.b);
    let tie = tie_class(&c.updates);
    // relative order of two updates of one member differs between the deliveries
    let flat = |b: &Vec<Vec<usize>>| -> Vec<usize> { b.iter().flatten().copied().collect() };
    let (fa, fb) = (flat(&ba), flat(&bb));
    let mut reordered = false;
    'o: for i in 0..n {
        for j in 0..n {
            if i != j && c.updates[i].member == c.updates[j].member && c.updates[i] != c.updates[j] {
                let pa = fa.iter().position(|x| *x == i) < fa.iter().position(|x| *x == j);
                let pb = fb.iter().position(|x| *x == i) < fb.iter().position(|x| *x == j);
                if pa != pb {
                    reordered = true;
                    break 'o;
                }
            }
        }
    }
    if tie {
        ctx.label("tie(inc,ts) with different health");
    }
    if reordered {
        ctx.label("same-member updates reordered between replicas");
    }
    if !c.a.dups.is_empty() || !c.b.dups.is_empty() {
        ctx.label("repetition");
    }
    if ba.len() != bb.len() {
        ctx.label("different batching");
    }
    if tie || reordered {
        ctx.set_nontrivial();
    }
    (ba, bb)
}

fn perm_check(c: &PermCase, ctx: &mut CaseCtx) -> Result<(), Fail> {
    let (ba, bb) = classify(c, ctx);
    let sa = deliver(&c.updates, &ba, ctx, "A")?;
    let sb = deliver(&c.updates, &bb, ctx, "B")?;
    check_views(&c.updates, &view_of(&sa), &view_of(&sb), ctx)
}

// ---------------------------------------------------------------- small exhaustive

fn small_part() -> CustomPart {
    CustomPart {
        name: "small",
        run: Box::new(|cfg, findings, stats| {
            // domain: 2 members × inc {0,1} × ts {0,1} × 3 healths = 24 updates;
            // multisets of size ≤ k (k=2 quick, 3 thorough), every ordering against every other.
            let mut dom = Vec::new();
            for member in 0..2u8 {
                for inc in 0..2u64 {
                    for ts in 0..2u64 {
                        for health in 0..3u8 {
                            dom.push(Upd { member, inc, ts, health });
                        }
                    }
                }
            }
            let k = cfg.tier.pick(3usize, 4usize);
            let mut idx = vec![0usize; 1];
            let mut violation = None;
            'sizes: for size in 1..=k {
                idx = vec![0; size];
                loop {
                    // non-decreasing index tuples = multisets
                    let ms: Vec<Upd> = idx.iter().map(|i| dom[*i].clone()).collect();
                    // all permutations
                    let perms = permutations(size);
                    let mut views: Vec<View> = Vec::new();
                    for p in &perms {
                        let mut ctx = CaseCtx::new(findings, false);
                        let batches: Vec<Vec<usize>> = p.iter().map(|i| vec![*i]).collect();
                        let r = deliver(&ms, &batches, &mut ctx, "R").map(|s| view_of(&s));
                        match r {
                            Ok(v) => views.push(v),
                            Err(f) => {
                                violation = Some((ms.clone(), f));
                                break 'sizes;
                            },
                        }
                    }
                    stats.evaluations += perms.len() as u64;
                    let tie = tie_class(&ms);
                    if tie {
                        stats.label("tie multisets");
                    }
                    if size >= 2 {
                        stats.nontrivial.insert(nv_engine::fnv64(format!("{ms:?}").as_bytes()));
                    }
                    let mut ctx = CaseCtx::new(findings, false);
                    for v in &views[1..] {
                        if let Err(f) = check_views(&ms, &views[0], v, &mut ctx) {
                            violation = Some((ms.clone(), f));
                            break 'sizes;
                        }
                    }
                    if ctx.known_hit() {
                        stats.excluded("diverge-on-tie");
                    }
                    if stats.samples.len() < 2 && tie {
                        stats.sample(serde_json::json!({"multiset": ms, "orders": perms.len()}));
                    }
                    // next multiset
                    let mut p = size;
                    loop {
                        if p == 0 {
                            break;
                        }
                        p -= 1;
                        if idx[p] + 1 < dom.len() {
                            idx[p] += 1;
                            for q in p + 1..size {
                                idx[q] = idx[p];
                            }
                            break;
                        }
                        if p == 0 {
                            idx.clear();
                            break;
                        }
                    }
                    if idx.is_empty() {
                        break;
                    }
                }
            }
            let _ = idx;
            stats.exhaustive = true;
            violation.map(|(ms, f)| {
                let case = serde_json::to_value(&ms).unwrap();
                let path = nv_engine::runner::write_replay(cfg, "small", &f, &case);
                nv_engine::Violation { part: "small".into(), sig: f.sig, msg: f.msg, replay: path }
            })
        }),
        replay: Box::new(|case, findings, strict| {
            let ms: Vec<Upd> = serde_json::from_value(case.clone()).map_err(|e| Fail::new("replay-format", e.to_string()))?;
            let mut ctx = CaseCtx::new(findings, strict);
            let perms = permutations(ms.len());
            let mut views = Vec::new();
            for p in &perms {
                let batches: Vec<Vec<usize>> = p.iter().map(|i| vec![*i]).collect();
                views.push(view_of(&deliver(&ms, &batches, &mut ctx, "R")?));
            }
            for v in &views[1..] {
                check_views(&ms, &views[0], v, &mut ctx)?;
            }
            Ok(())
        }),
    }
}

fn permutations(n: usize) -> Vec<Vec<usize>> {
    fn rec(cur: &mut Vec<usize>, used: &mut Vec<bool>, n: usize, out: &mut Vec<Vec<usize>>) {
        if cur.len() == n {
            out.push(cur.clone());
            return;
        }
        for i in 0..n {
            if !used[i] {
                used[i] = true;
                cur.push(i);
                rec(cur, used, n, out);
                cur.pop();
                used[i] = false;
            }
        }
    }
    let mut out = Vec::new();
    rec(&mut Vec::new(), &mut vec![false; n], n, &mut out);
    out
}

// ---------------------------------------------------------------- events

#[derive(Clone, Debug, Serialize, Deserialize)]
enum Ev {
    /// member announces itself (update_local with its own current incarnation)
    Announce(u8),
    /// replica r suspects member m at the incarnation r currently holds for m plus `ahead` (a
    /// suspicion relayed by a reporter that is ahead of r, or simply wrong, names a higher one)
    Suspect(u8, u8, #[serde(default)] u8),
    Fail(u8, u8),
    MarkHealthy(u8, u8),
    /// member m bumps its incarnation and refutes locally
    Refute(u8),
    /// replica `to` merges up to k states gossiped by `from`
    Gossip(u8, u8, u8),
    /// replica `to` applies an Alive(m, inc) it heard: refute(m, announced inc of m)
    HearAlive(u8, u8),
}

#[derive(Clone, Debug, Serialize, Deserialize)]
struct EvCase {
    n: u8,
    evs: Vec<Ev>,
}

fn ev_strategy(_t: Tier) -> impl Strategy<Value = EvCase> {
    (3u8..=4).prop_flat_map(|n| {
        let ev = prop_oneof![
            2 => (0..n).prop_map(Ev::Announce),
            3 => (0..n, 0..n, prop_oneof![3 => Just(0u8), 1 => 1u8..4]).prop_map(|(a, b, d)| Ev::Suspect(a, b, d)),
            3 => (0..n, 0..n).prop_map(|(a, b)| Ev::Fail(a, b)),
            2 => (0..n, 0..n).prop_map(|(a, b)| Ev::MarkHealthy(a, b)),
            2 => (0..n).prop_map(Ev::Refute),
            6 => (0..n, 0..n, 1u8..6).prop_map(|(a, b, k)| Ev::Gossip(a, b, k)),
            2 => (0..n, 0..n).prop_map(|(a, b)| Ev::HearAlive(a, b)),
        ];
        (Just(n), prop::collection::vec(ev, 0..40)).prop_map(|(n, evs)| EvCase { n, evs })
    })
}

fn ev_check(c: &EvCase, ctx: &mut CaseCtx) -> Result<(), Fail> {
    let n = c.n as usize;
    let mut reps: Vec<LWWMembershipState> = (0..n).map(|_| LWWMembershipState::new()).collect();
    let mut own_inc: Vec<u64> = vec![0; n];
    // highest incarnation each member itself announced (Announce / Refute)
    let mut announced: Vec<Option<u64>> = vec![None; n];
    let mut last_inc: Vec<BTreeMap<String, u64>> = vec![BTreeMap::new(); n];
    let mut last_clock: Vec<u64> = vec![0; n];
    let mut kinds = std::collections::BTreeSet::new();
    let mut local_after_merge = false;
    let mut merged = vec![false; n];
    for ev in &c.evs {
        match ev {
            Ev::Announce(m) => {
                let m = *m as usize % n;
                reps[m].update_local(member_id(m as u8), NodeHealth::Healthy, own_inc[m]);
                announced[m] = Some(announced[m].unwrap_or(0).max(own_inc[m]));
                kinds.insert("announce");
            },
            Ev::Suspect(r, m, ahead) => {
                let (r, m) = (*r as usize % n, *m as usize % n);
                if let Some(inc) = reps[r].get(&member_id(m as u8)).map(|s| s.incarnation) {
                    if *ahead > 0 {
                        kinds.insert("suspect-naming-a-higher-incarnation");
                    }
                    if reps[r].suspect(&member_id(m as u8), inc + u64::from(*ahead)) {
                        kinds.insert("suspect");
                        local_after_merge |= merged[r];
                    }
                }
            },
            Ev::Fail(r, m) => {
                let (r, m) = (*r as usize % n, *m as usize % n);
                if reps[r].fail(&member_id(m as u8)) {
                    kinds.insert("fail");
                    local_after_merge |= merged[r];
                }
            },
            Ev::MarkHealthy(r, m) => {
                let (r, m) = (*r as usize % n, *m as usize % n);
                if reps[r].mark_healthy(&member_id(m as u8)) {
                    kinds.insert("mark_healthy");
                }
            },
            Ev::Refute(m) => {
                let m = *m as usize % n;
                if reps[m].get(&member_id(m as u8)).is_some() {
                    // a member refutes with an incarnation above anything it has seen for itself
                    let seen = reps[m].get(&member_id(m as u8)).map(|s| s.incarnation).unwrap_or(0);
                    own_inc[m] = own_inc[m].max(seen) + 1;
                    if reps[m].refute(&member_id(m as u8), own_inc[m]) {
                        announced[m] = Some(announced[m].unwrap_or(0).max(own_inc[m]));
                        kinds.insert("refute");
                    }
                }
            },
            Ev::Gossip(from, to, k) => {
                let (from, to) = (*from as usize % n, *to as usize % n);
                if from != to {
                    // same selection rule as states_for_gossip (most recent first, up to k), but with a
                    // deterministic tie order: the product sorts a HashMap's values, whose order
                    // is randomised per process; any subset is a legal gossip payload
                    let mut st: Vec<GossipNodeState> = reps[from].all_states().cloned().collect();
                    st.sort_by(|a, b| b.timestamp.cmp(&a.timestamp).then(a.node_id.cmp(&b.node_id)));
                    st.truncate(*k as usize);
                    if !st.is_empty() {
                        reps[to].merge(&st);
                        merged[to] = true;
                        kinds.insert("gossip");
                    }
                }
            },
            Ev::HearAlive(to, m) => {
                let (to, m) = (*to as usize % n, *m as usize % n);
                if let Some(a) = announced[m] {
                    if reps[to].refute(&member_id(m as u8), a) {
                        kinds.insert("hear_alive");
                    }
                }
            },
        }
        for r in 0..n {
            check_monotone(&reps[r], &mut last_inc[r], &mut last_clock[r], ctx, &format!("replica {r}"))?;
            for st in reps[r].all_states() {
                let m: usize = st.node_id[1..].parse().unwrap_or(0);
                let ann = announced[m];
                if st.health == NodeHealth::Failed && ann.map_or(true, |a| st.incarnation > a) {
                    ctx.fail(
                        "failed-above-announced",
                        format!(
                            "replica {r} records {} Failed at incarnation {} but the member announced at most {:?}",
                            st.node_id, st.incarnation, ann
                        ),
                    )?;
                }
                if ann.map_or(true, |a| st.incarnation > a) {
                    ctx.fail(
                        "incarnation-above-announced",
                        format!("replica {r} records {} at incarnation {} > announced {:?}", st.node_id, st.incarnation, ann),
                    )?;
                }
            }
        }
    }
    for k in &kinds {
        ctx.label(*k);
    }
    if kinds.len() >= 4 && kinds.contains("gossip") && local_after_merge {
        ctx.set_nontrivial();
    }
    // full exchange: everyone merges everyone's complete state, twice; then all views must agree
    for _round in 0..2 {
        let snaps: Vec<Vec<GossipNodeState>> = reps.iter().map(|r| r.all_states().cloned().collect()).collect();
        for to in 0..n {
            for (from, snap) in snaps.iter().enumerate() {
                if from != to && !snap.is_empty() {
                    reps[to].merge(snap);
                }
            }
            check_monotone(&reps[to], &mut last_inc[to], &mut last_clock[to], ctx, &format!("replica {to}"))?;
        }
    }
    let v0 = view_of(&reps[0]);
    for r in 1..n {
        let v = view_of(&reps[r]);
        if v != v0 {
            // tie diagnosis: the differing member has equal (inc, ts) on both sides
            let mut tie = false;
            for (m, a) in &v0 {
                if v.get(m) != Some(a) {
                    let s0 = reps[0].get(m);
                    let s1 = reps[r].get(m);
                    if let (Some(s0), Some(s1)) = (s0, s1) {
                        tie |= s0.incarnation == s1.incarnation && s0.timestamp == s1.timestamp;
                    }
                }
            }
            let sig = if tie { "diverge-on-tie" } else { "diverge" };
            ctx.fail(sig, format!("after full exchange replica 0 sees {v0:?} but replica {r} sees {v:?}"))?;
        }
    }
    Ok(())
}

// ---------------------------------------------------------------- manager

fn manager_check(c: &PermCase, ctx: &mut CaseCtx) -> Result<(), Fail> {
    let (ba, bb) = classify(c, ctx);
    let mk = |name: &str| {
        let t = Arc::new(MemoryTransport::new(name.to_string()));
        GossipMembershipManager::new(name.to_string(), GossipConfig::default(), t)
    };
    let (ma, mb) = (mk("replicaA"), mk("replicaB"));
    let feed = |m: &GossipMembershipManager, batches: &[Vec<usize>], ctx: &mut CaseCtx, who: &str| -> Result<(), Fail> {
        let mut last_inc: BTreeMap<String, u64> = BTreeMap::new();
        let mut last_clock = m.lamport_time();
        for (k, b) in batches.iter().enumerate() {
            let states: Vec<GossipNodeState> = b.iter().map(|i| to_state(&c.updates[*i])).collect();
            let sender_time = states.iter().map(|s| s.timestamp).max().unwrap_or(0) + k as u64;
            // the sender is an observer outside the compared member set: handle_sync records a
            // locally produced "sender is healthy" state, which is a local event, not part of the multiset
            m.handle_gossip(GossipMessage::Sync { sender: "observer".to_string(), states, sender_time });
            if m.lamport_time() < last_clock {
                ctx.fail("clock-decreased", format!("{who}: manager lamport_time went {last_clock} -> {}", m.lamport_time()))?;
            }
            last_clock = m.lamport_time();
            for st in m.all_states() {
                if let Some(p) = last_inc.get(&st.node_id) {
                    if st.incarnation < *p {
                        ctx.fail("incarnation-decreased", format!("{who}: {} went {p} -> {}", st.node_id, st.incarnation))?;
                    }
                }
                last_inc.insert(st.node_id.clone(), st.incarnation);
            }
        }
        Ok(())
    };
    feed(&ma, &ba, ctx, "A")?;
    feed(&mb, &bb, ctx, "B")?;
    let view = |m: &GossipMembershipManager| -> View {
        m.all_states()
            .into_iter()
            .filter(|s| s.node_id.starts_with('m'))
            .map(|s| (s.node_id.clone(), (health_code(s.health), s.incarnation)))
            .collect()
    };
    check_views(&c.updates, &view(&ma), &view(&mb), ctx)
}

// ---------------------------------------------------------------- manager_msgs

/// One message handed to `GossipMembershipManager::handle_gossip` of member m0.
#[derive(Clone, Debug, Serialize, Deserialize)]
enum GMsg {
    /// Sync from member `sender` carrying these updates (the local member's own entry included:
    /// peers remember a node's previous life across its restart)
    Sync { sender: u8, states: Vec<Upd> },
    Suspect { reporter: u8, suspect: u8, inc: u64 },
    Alive { node: u8, inc: u64 },
}

#[derive(Clone, Debug, Serialize, Deserialize)]
struct MsgCase {
    msgs: Vec<GMsg>,
}

fn msg_strategy(_t: Tier) -> impl Strategy<Value = MsgCase> {
    let m = prop_oneof![
        5 => (0u8..4, prop::collection::vec(upd_strategy(4, 4, 5), 1..4)).prop_map(|(sender, states)| GMsg::Sync { sender, states }),
        3 => (1u8..4, 0u8..4, 0u64..4).prop_map(|(reporter, suspect, inc)| GMsg::Suspect { reporter, suspect, inc }),
        2 => (0u8..4, 0u64..4).prop_map(|(node, inc)| GMsg::Alive { node, inc }),
    ];
    prop::collection::vec(m, 1..14).prop_map(|msgs| MsgCase { msgs })
}

/// The manager is member m0 itself. Whatever peers send (syncs that carry m0's own entry,
/// suspicions of m0 or of others, refutations), no member's recorded incarnation and the manager's
/// logical clock may ever go down.
fn manager_msgs_check(c: &MsgCase, ctx: &mut CaseCtx) -> Result<(), Fail> {
    // handle_suspect / handle_alive spawn their broadcasts: they need a runtime context (the tasks
    // are never polled; what is checked is the state the handler leaves behind)
    let rt = tokio::runtime::Builder::new_current_thread().enable_time().build().map_err(|e| Fail::new("harness", e.to_string()))?;
    let _enter = rt.enter();
    let t = Arc::new(MemoryTransport::new(member_id(0)));
    let m = GossipMembershipManager::new(member_id(0), GossipConfig::default(), t);
    let mut last_inc: BTreeMap<String, u64> = m.all_states().into_iter().map(|s| (s.node_id.clone(), s.incarnation)).collect();
    let mut last_clock = m.lamport_time();
    let mut own_raised = false;
    for (k, msg) in c.msgs.iter().enumerate() {
        let (what, gm) = match msg {
            GMsg::Sync { sender, states } => {
                let st: Vec<GossipNodeState> = states.iter().map(to_state).collect();
                if states.iter().any(|u| u.member == 0 && u.inc > 0) {
                    own_raised = true;
                }
                let sender_time = st.iter().map(|s| s.timestamp).max().unwrap_or(0) + k as u64;
                ("sync", GossipMessage::Sync { sender: member_id(*sender), states: st, sender_time })
            },
            GMsg::Suspect { reporter, suspect, inc } => {
                if *suspect == 0 {
                    ctx.label(if own_raised { "the local member is suspected after a sync raised its own entry" } else { "the local member is suspected" });
                    if own_raised {
                        ctx.set_nontrivial();
                    }
                }
                ("suspect", GossipMessage::Suspect { reporter: member_id(*reporter), suspect: member_id(*suspect), incarnation: *inc })
            },
            GMsg::Alive { node, inc } => ("alive", GossipMessage::Alive { node_id: member_id(*node), incarnation: *inc }),
        };
        m.handle_gossip(gm);
        if m.lamport_time() < last_clock {
            ctx.fail("msgs:clock-decreased", format!("after message {k} ({what}): lamport_time went {last_clock} -> {}", m.lamport_time()))?;
        }
        last_clock = m.lamport_time();
        for st in m.all_states() {
            if let Some(p) = last_inc.get(&st.node_id) {
                if st.incarnation < *p {
                    let who = if st.node_id == member_id(0) { "own" } else { "peer" };
                    ctx.fail(
                        format!("msgs:incarnation-decreased:{who}:after-{what}"),
                        format!("after message {k} ({msg:?}) the recorded incarnation of {} went {p} -> {}", st.node_id, st.incarnation),
                    )?;
                }
            }
            last_inc.insert(st.node_id.clone(), st.incarnation);
        }
    }
    Ok(())
}

trait NtExt {
    fn set_nontrivial_if(&mut self, c: bool);
}
impl NtExt for CaseCtx<'_> {
    fn set_nontrivial_if(&mut self, c: bool) {
        if c {
            self.set_nontrivial();
        }
    }
}

fn main() {
    main_for(PropDef {
        id: "C17",
        level: "exploration",
        rule: "perm/manager: a multiset of 2..12 updates over 2-4 members (incarnation 0..3, timestamp 0..4, all healths) delivered to two replicas as different permutations/batchings/repetitions; non-trivial = the multiset has two updates of one member with equal (incarnation,timestamp) and different health, or the two deliveries order two distinct updates of one member differently. small: every multiset of <=3 (quick) / <=4 (thorough) updates over 2 members x inc{0,1} x ts{0,1} x 3 healths against every delivery order (exhaustive). events: histories of <=40 local/gossip events on 3-4 replicas; non-trivial = >=4 event kinds incl. gossip and a local transition after a merge. manager_msgs: 1..13 Sync / Suspect / Alive messages (members m0..m3, incarnations 0..3) handed to the manager of member m0; non-trivial = m0 is suspected after a sync carried its own entry at a higher incarnation. distinct = distinct generated case (hash of its JSON).",
        assumptions: vec![
            "view compared = (health, incarnation) per member; updated_at and timestamp are not part of the view",
            "updates in the events part are produced the way nodes produce them (a member announces only its own incarnations)",
            "manager part: the Sync sender is an observer outside the compared member set, because handle_sync records a local 'sender healthy' event",
        ],
        parts: vec![
            PropPart::new("perm", 100_000, 20_000_000, perm_strategy, perm_check).boxed(),
            Box::new(small_part()),
            PropPart::new("events", 40_000, 6_000_000, ev_strategy, ev_check).boxed(),
            PropPart::new("manager", 20_000, 3_000_000, perm_strategy, manager_check).boxed(),
            PropPart::new("manager_msgs", 40_000, 4_000_000, msg_strategy, manager_msgs_check).boxed(),
        ],
        children: vec![],
    });
}
