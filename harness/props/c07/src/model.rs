//! Case model of C07: what goes into a store (through the engines and through raw puts), the
//! proptest strategies, and the deterministic builder that turns a `Content` into a real store.
//! The builder is also what the crash children run, so it must be a pure function of the case.

use graph_engine::{GraphEngine, PropertyValue};
use nv_engine::{mix, pick, Tier};
use proptest::prelude::*;
use relational_engine::{Column, ColumnType, Condition, RelationalEngine, Schema, Value};
use serde::{Deserialize, Serialize};
use std::collections::{BTreeMap, BTreeSet, HashMap};
use tensor_store::{ChunkHash, EntityId, ScalarValue, SlabRouter, SparseVector, TensorData, TensorStore, TensorValue};
use vector_engine::VectorEngine;

// ------------------------------------------------------------------ field values

#[derive(Clone, Debug, Serialize, Deserialize)]
pub enum Val {
    Null,
    Bool(bool),
    Int(i64),
    /// f64 by bits so that NaN payloads and -0.0 survive the replay file
    Float(u64),
    Str(String),
    Bytes(Vec<u8>),
    /// small dense vector (f32 bits)
    Vec(Vec<u32>),
    SparseVec(u8, Vec<(u8, u32)>),
    Pointer(String),
    Pointers(Vec<String>),
}

fn f64_bits() -> impl Strategy<Value = u64> {
    prop_oneof![
        Just(0.0f64.to_bits()),
        Just((-0.0f64).to_bits()),
        Just(f64::NAN.to_bits()),
        Just(0x7ff8_0000_0000_beefu64), // NaN with a payload
        Just(f64::INFINITY.to_bits()),
        Just(f64::NEG_INFINITY.to_bits()),
        Just(1.5f64.to_bits()),
        Just(f64::MIN_POSITIVE.to_bits()),
        Just(5e-324f64.to_bits()),
        Just(f64::MAX.to_bits()),
        any::<u64>(),
    ]
}

/// Components of small vector-valued fields (not the embedding slab): moderate, finite values plus
/// signed zeros; kept away from the ascending-huge-integer domain of the recorded C20 id-list findings.
fn small_comp() -> impl Strategy<Value = u32> {
    prop_oneof![
        3 => Just(0.0f32.to_bits()),
        1 => Just((-0.0f32).to_bits()),
        4 => prop::sample::select(vec![1.0f32, -2.5, 0.125, 3.0e-3, 7.0, 2.0, 0.75, -0.333, 1e-7, 16_777_216.0]).prop_map(f32::to_bits),
        1 => (-1000i32..1000).prop_map(|i| (i as f32 / 8.0).to_bits()),
    ]
}

pub fn val_strategy() -> impl Strategy<Value = Val> {
    prop_oneof![
        1 => Just(Val::Null),
        1 => any::<bool>().prop_map(Val::Bool),
        2 => prop_oneof![Just(i64::MIN), Just(i64::MAX), Just(0i64), Just(-1i64), any::<i64>()].prop_map(Val::Int),
        2 => f64_bits().prop_map(Val::Float),
        2 => prop_oneof![Just(String::new()), "[a-z]{1,6}", Just("héllo wörld ✓".to_string()), Just("bytes:3".to_string())].prop_map(Val::Str),
        1 => prop::collection::vec(any::<u8>(), 0..12).prop_map(Val::Bytes),
        2 => prop::collection::vec(small_comp(), 0..7).prop_map(Val::Vec),
        1 => (4u8..12, prop::collection::vec((0u8..12, small_comp()), 0..4)).prop_map(|(d, e)| Val::SparseVec(d, e)),
        1 => "[a-z:]{0,5}".prop_map(Val::Pointer),
        1 => prop::collection::vec("[a-z]{0,4}", 0..3).prop_map(Val::Pointers),
    ]
}

pub fn to_tensor_value(v: &Val) -> TensorValue {
    match v {
        Val::Null => TensorValue::Scalar(ScalarValue::Null),
        Val::Bool(b) => TensorValue::Scalar(ScalarValue::Bool(*b)),
        Val::Int(i) => TensorValue::Scalar(ScalarValue::Int(*i)),
        Val::Float(b) => TensorValue::Scalar(ScalarValue::Float(f64::from_bits(*b))),
        Val::Str(s) => TensorValue::Scalar(ScalarValue::String(s.clone())),
        Val::Bytes(b) => TensorValue::Scalar(ScalarValue::Bytes(b.clone())),
        Val::Vec(v) => TensorValue::Vector(v.iter().map(|b| f32::from_bits(*b)).collect()),
        Val::SparseVec(d, e) => {
            let mut dense = vec![0.0f32; *d as usize];
            for (p, b) in e {
                dense[*p as usize % *d as usize] = f32::from_bits(*b);
            }
            TensorValue::Sparse(SparseVector::from_dense(&dense))
        },
        Val::Pointer(p) => TensorValue::Pointer(p.clone()),
        Val::Pointers(p) => TensorValue::Pointers(p.clone()),
    }
}

/// Field names. `ids` / `*_ids` are deliberately absent (recorded C20 findings idlist:by-field-name:*).
pub const FIELDS: [&str; 8] = ["f0", "f1", "f2", "name", "_type", "data", "vector", "_embedding"];

pub type Fields = Vec<(u8, Val)>;

fn fields_strategy(max: usize) -> impl Strategy<Value = Fields> {
    prop::collection::vec((0u8..8, val_strategy()), 0..=max)
}

pub fn tensor_of(fields: &Fields, no_vec_in_emb_fields: bool) -> TensorData {
    let mut d = TensorData::new();
    for (n, v) in fields {
        let name = FIELDS[*n as usize % FIELDS.len()];
        if no_vec_in_emb_fields && matches!(v, Val::Vec(_) | Val::SparseVec(..)) {
            continue;
        }
        d.set(name, to_tensor_value(v));
    }
    d
}

// ------------------------------------------------------------------ embedding vectors

/// Components of embedding-slab vectors: around the documented 1e-6 sparse threshold, ordinary
/// values, extremes, and (rarely) non-finite / arbitrary bit patterns.
fn comp() -> impl Strategy<Value = u32> {
    let thr = 1e-6f32;
    let above = f32::from_bits(thr.to_bits() + 1);
    let below = f32::from_bits(thr.to_bits() - 1);
    prop_oneof![
        6 => Just(0.0f32.to_bits()),
        1 => Just((-0.0f32).to_bits()),
        6 => prop::sample::select(vec![1.0f32, -2.5, 0.125, 3.0e-3, 0.75, -0.3333, 42.0]).prop_map(f32::to_bits),
        5 => prop::sample::select(vec![thr, -thr, above, -above, below, 9e-7, -5e-7, 1e-7, 2e-6, -1.5e-6, 1e-5, 5e-4, -2e-4, 1e-3]).prop_map(f32::to_bits),
        1 => prop::sample::select(vec![f32::MIN_POSITIVE, 1e-45, f32::MAX, -f32::MAX, 1e30]).prop_map(f32::to_bits),
        1 => prop::sample::select(vec![f32::NAN, f32::INFINITY, f32::NEG_INFINITY]).prop_map(f32::to_bits),
        1 => any::<u32>(),
    ]
}

#[derive(Clone, Debug, Serialize, Deserialize)]
pub enum VecSpec {
    /// the pattern repeated over the whole dimension
    Cycle(Vec<u32>),
    /// `k` (scaled to 0..=D) slots, walked with the given stride, take values from the pattern; the rest is +0.0
    Mask { k: u16, stride: u8, pat: Vec<u32> },
    Const(u32),
    /// v[i] = a/4 + b*i/128
    Ramp { a: i8, b: i8 },
    /// sum of r separable terms over the tensor-train shape of the dimension (TT-rank <= r)
    LowRank { r: u8, a: Vec<i8>, b: Vec<i8>, c: Vec<i8> },
}

fn vec_spec() -> impl Strategy<Value = VecSpec> {
    prop_oneof![
        3 => prop::collection::vec(comp(), 1..12).prop_map(VecSpec::Cycle),
        6 => (any::<u16>(), 0u8..4, prop::collection::vec(comp(), 1..8)).prop_map(|(k, stride, pat)| VecSpec::Mask { k, stride, pat }),
        1 => comp().prop_map(VecSpec::Const),
        2 => (-8i8..=8, -8i8..=8).prop_map(|(a, b)| VecSpec::Ramp { a, b }),
        4 => (1u8..=3, prop::collection::vec(-8i8..=8, 3..10), prop::collection::vec(-8i8..=8, 3..10), prop::collection::vec(-8i8..=8, 3..14))
            .prop_map(|(r, a, b, c)| VecSpec::LowRank { r, a, b, c }),
    ]
}

/// Tensor-train shapes documented for the common dimensions (tensor-compress book page).
fn tt_shape(d: usize) -> Option<(usize, usize, usize)> {
    match d {
        64 => Some((4, 4, 4)),
        256 => Some((4, 8, 8)),
        384 => Some((4, 8, 12)),
        768 => Some((8, 8, 12)),
        _ => None,
    }
}

fn gcd(a: usize, b: usize) -> usize {
    if b == 0 {
        a
    } else {
        gcd(b, a % b)
    }
}

pub fn expand(spec: &VecSpec, d: usize) -> Vec<f32> {
    match spec {
        VecSpec::Cycle(p) => (0..d).map(|i| f32::from_bits(p[i % p.len()])).collect(),
        VecSpec::Mask { k, stride, pat } => {
            let mut v = vec![0.0f32; d];
            let k = pick(*k, d + 1);
            let mut s = match stride % 4 {
                0 => 1,
                1 => 7,
                2 => 11,
                _ => d.saturating_sub(1),
            } % d.max(1);
            if s == 0 || gcd(s, d) != 1 {
                s = 1;
            }
            for i in 0..k {
                v[(i * s) % d] = f32::from_bits(pat[i % pat.len()]);
            }
            v
        },
        VecSpec::Const(c) => vec![f32::from_bits(*c); d],
        VecSpec::Ramp { a, b } => (0..d).map(|i| (f64::from(*a) / 4.0 + f64::from(*b) * i as f64 / 128.0) as f32).collect(),
        VecSpec::LowRank { r, a, b, c } => {
            let (n1, n2, n3) = tt_shape(d).unwrap_or((d, 1, 1));
            let mut v = vec![0.0f32; d];
            let at = |t: &Vec<i8>, p: usize, n: usize, i: usize| f64::from(t[(p * n + i) % t.len()]) / 4.0;
            for i1 in 0..n1 {
                for i2 in 0..n2 {
                    for i3 in 0..n3 {
                        let mut s = 0.0f64;
                        for p in 0..*r as usize {
                            s += at(a, p, n1, i1) * at(b, p, n2, i2) * at(c, p, n3, i3);
                        }
                        v[i1 * n2 * n3 + i2 * n3 + i3] = s as f32;
                    }
                }
            }
            v
        },
    }
}

/// True when the vector was generated WITH tensor-train rank <= 3 (well under the preset max_rank 8)
/// and its values are in an ordinary range, so that the documented reconstruction accuracy applies.
pub fn tt_claim(spec: &VecSpec, d: usize, v: &[f32]) -> Option<&'static str> {
    let class = match spec {
        VecSpec::Const(_) => "constant",
        VecSpec::Ramp { b: 0, .. } => "constant",
        VecSpec::Ramp { .. } => "ramp",
        VecSpec::LowRank { r, .. } if matches!(d, 256 | 384 | 768) => match r {
            1 => "separable-1-term",
            2 => "separable-2-terms",
            _ => "separable-3-terms",
        },
        _ => return None,
    };
    let max = v.iter().fold(0.0f32, |m, x| m.max(x.abs()));
    (v.iter().all(|x| x.is_finite()) && (1e-2..=1e6).contains(&max)).then_some(class)
}

// ------------------------------------------------------------------ raw operations

pub const META_KEYS: [&str; 12] =
    ["plain", "user:1", "cfg:a:b", "k", "é:ü", "node:raw", "edge:raw:7", "table:t:1", "_blob:meta:x", "_blob:chunk:9", "zz:last", "a"];

#[derive(Clone, Debug, Serialize, Deserialize)]
pub enum RawOp {
    Meta { key: u8, fields: Fields },
    Emb { name: u8, dim: u8, spec: VecSpec, extra: Fields },
    Cache { key: u8, fields: Fields },
    Del(u16),
}

pub fn meta_key(k: u8) -> &'static str {
    META_KEYS[k as usize % META_KEYS.len()]
}
pub fn emb_key(n: u8) -> String {
    format!("emb:r{}", n % 8)
}
pub fn cache_key(n: u8) -> String {
    format!("_cache:c{}", n % 6)
}

fn del_candidates() -> Vec<String> {
    let mut v: Vec<String> = META_KEYS.iter().map(|s| s.to_string()).collect();
    v.extend((0..8).map(emb_key));
    v.extend((0..6).map(cache_key));
    v
}

fn raw_op() -> impl Strategy<Value = RawOp> {
    prop_oneof![
        5 => (0u8..12, fields_strategy(4)).prop_map(|(key, fields)| RawOp::Meta { key, fields }),
        6 => (0u8..8, 0u8..8, vec_spec(), fields_strategy(2)).prop_map(|(name, dim, spec, extra)| RawOp::Emb { name, dim, spec, extra }),
        2 => (0u8..6, fields_strategy(3)).prop_map(|(key, fields)| RawOp::Cache { key, fields }),
        2 => any::<u16>().prop_map(RawOp::Del),
    ]
}

/// Operation lists for the embedding-dimension part: mostly `emb:` puts.
pub fn emb_ops_strategy(max: usize) -> impl Strategy<Value = Vec<RawOp>> {
    let op = prop_oneof![
        2 => (0u8..12, fields_strategy(3)).prop_map(|(key, fields)| RawOp::Meta { key, fields }),
        12 => (0u8..8, 0u8..8, vec_spec(), fields_strategy(2)).prop_map(|(name, dim, spec, extra)| RawOp::Emb { name, dim, spec, extra }),
        1 => (0u8..6, fields_strategy(2)).prop_map(|(key, fields)| RawOp::Cache { key, fields }),
        2 => any::<u16>().prop_map(RawOp::Del),
    ];
    prop::collection::vec(op, 0..=max)
}

/// Dimension of a raw `emb:` put given the slab's dimension: mostly the slab's own, sometimes one the
/// slab refuses (kept in metadata only, exact).
pub fn emb_dim(sel: u8, slab_dim: usize, uniform: bool) -> usize {
    if uniform {
        return slab_dim;
    }
    match sel % 8 {
        0..=4 => slab_dim,
        5 => 4,
        6 => slab_dim + 1,
        _ => 64,
    }
}

/// Which `emb:` keys hold a vector for which the tensor-train accuracy is claimed.
#[derive(Default, Debug, Clone)]
pub struct Probes {
    pub tt_claim: BTreeMap<String, &'static str>,
    pub node_ids: Vec<u64>,
    pub edge_ids: Vec<u64>,
    pub blob_hashes: Vec<u64>,
    pub classes: BTreeSet<&'static str>,
}

pub fn apply_raw(ops: &[RawOp], router: &SlabRouter, uniform: bool, probes: &mut Probes) {
    let slab_dim = router.embeddings.dimension();
    let cands = del_candidates();
    for op in ops {
        match op {
            RawOp::Meta { key, fields } => {
                let k = meta_key(*key);
                let _ = router.put(k, tensor_of(fields, uniform));
                probes.classes.insert(if k.starts_with("_blob:") { "blobs" } else { "metadata" });
            },
            RawOp::Emb { name, dim, spec, extra } => {
                let k = emb_key(*name);
                let d = emb_dim(*dim, slab_dim, uniform);
                let v = expand(spec, d);
                let mut t = tensor_of(extra, uniform);
                match tt_claim(spec, d, &v) {
                    Some(class) if d == slab_dim => {
                        probes.tt_claim.insert(k.clone(), class);
                    },
                    _ => {
                        probes.tt_claim.remove(&k);
                    },
                }
                t.set("_embedding", TensorValue::Vector(v));
                let _ = router.put(&k, t);
                probes.classes.insert("embeddings");
            },
            RawOp::Cache { key, fields } => {
                let _ = router.put(&cache_key(*key), tensor_of(fields, uniform));
                probes.classes.insert("cache");
            },
            RawOp::Del(i) => {
                let k = &cands[pick(*i, cands.len())];
                if router.delete(k).is_ok() {
                    probes.tt_claim.remove(k);
                }
            },
        }
    }
}

// ------------------------------------------------------------------ relational

#[derive(Clone, Debug, Serialize, Deserialize)]
pub struct Cell {
    pub null: bool,
    /// drives Int (as i64), Float (as bits), Bool (low bit), Bytes and Json
    pub raw: u64,
    pub s: String,
}

fn cell() -> impl Strategy<Value = Cell> {
    let raw = prop_oneof![
        Just(0u64),
        Just(1u64),
        Just(i64::MIN as u64), // also -0.0 as a float
        Just(i64::MAX as u64), // also a NaN
        Just(u64::MAX),        // -1 / NaN
        Just(f64::INFINITY.to_bits()),
        Just(f64::NEG_INFINITY.to_bits()),
        Just(1.5f64.to_bits()),
        Just(f64::NAN.to_bits()),
        any::<u64>(),
    ];
    (prop::bool::weighted(0.3), raw, prop_oneof![Just(String::new()), "[a-z]{1,5}", Just("ünï,c:ode".to_string())]).prop_map(|(null, raw, s)| Cell { null, raw, s })
}

#[derive(Clone, Debug, Serialize, Deserialize)]
pub enum TOp {
    Ins(Vec<Cell>),
    Del(u16),
    Upd(u16, u8, Cell),
}

#[derive(Clone, Debug, Serialize, Deserialize)]
pub struct TableSpec {
    pub name: u8,
    /// (type 0..6, nullable)
    pub cols: Vec<(u8, bool)>,
    pub ops: Vec<TOp>,
    pub index: Option<u8>,
}

fn table_spec(max_ops: usize) -> impl Strategy<Value = TableSpec> {
    let op = prop_oneof![
        8 => prop::collection::vec(cell(), 6).prop_map(TOp::Ins),
        1 => any::<u16>().prop_map(TOp::Del),
        1 => (any::<u16>(), 0u8..6, cell()).prop_map(|(r, c, v)| TOp::Upd(r, c, v)),
    ];
    (0u8..4, prop::collection::vec((0u8..6, prop::bool::weighted(0.6)), 1..=6), prop::collection::vec(op, 0..=max_ops), prop::option::weighted(0.3, 0u8..6))
        .prop_map(|(name, cols, ops, index)| TableSpec { name, cols, ops, index })
}

fn col_type(t: u8) -> ColumnType {
    match t % 6 {
        0 => ColumnType::Int,
        1 => ColumnType::Float,
        2 => ColumnType::String,
        3 => ColumnType::Bool,
        4 => ColumnType::Bytes,
        _ => ColumnType::Json,
    }
}

fn cell_value(c: &Cell, t: u8, nullable: bool) -> Value {
    if c.null && nullable {
        return Value::Null;
    }
    match t % 6 {
        0 => Value::Int(c.raw as i64),
        1 => Value::Float(f64::from_bits(c.raw)),
        2 => Value::String(c.s.clone()),
        3 => Value::Bool(c.raw & 1 == 1),
        4 => {
            let mut b = c.s.as_bytes().to_vec();
            b.extend_from_slice(&c.raw.to_le_bytes()[..(c.raw % 5) as usize]);
            Value::Bytes(b)
        },
        _ => Value::Json(match c.raw % 4 {
            0 => serde_json::json!({ "k": c.s, "n": (c.raw >> 8) as i32 }),
            1 => serde_json::json!([c.s, null, true]),
            2 => serde_json::json!(c.s),
            _ => serde_json::Value::Null,
        }),
    }
}

pub fn apply_tables(tables: &[TableSpec], rel: &RelationalEngine, probes: &mut Probes) {
    let mut seen = BTreeSet::new();
    for t in tables {
        let name = format!("t{}", t.name % 4);
        if !seen.insert(name.clone()) {
            continue;
        }
        let cols: Vec<Column> = t
            .cols
            .iter()
            .enumerate()
            .map(|(i, (ty, nullable))| {
                let c = Column::new(format!("c{i}"), col_type(*ty));
                if *nullable {
                    c.nullable()
                } else {
                    c
                }
            })
            .collect();
        if rel.create_table(&name, Schema::new(cols)).is_err() {
            continue;
        }
        probes.classes.insert("relational");
        if let Some(ix) = t.index {
            let col = format!("c{}", ix as usize % t.cols.len());
            let _ = if ix % 2 == 0 { rel.create_index(&name, &col) } else { rel.create_btree_index(&name, &col) };
        }
        let mut live: Vec<u64> = Vec::new();
        for op in &t.ops {
            match op {
                TOp::Ins(cells) => {
                    let mut row = HashMap::new();
                    for (i, (ty, nullable)) in t.cols.iter().enumerate() {
                        row.insert(format!("c{i}"), cell_value(&cells[i % cells.len()], *ty, *nullable));
                    }
                    if let Ok(id) = rel.insert(&name, row) {
                        live.push(id);
                    }
                },
                TOp::Del(r) => {
                    if !live.is_empty() {
                        let id = live.remove(pick(*r, live.len()));
                        let _ = rel.delete_rows(&name, Condition::Eq("_id".to_string(), Value::Int(id as i64)));
                    }
                },
                TOp::Upd(r, c, v) => {
                    if !live.is_empty() {
                        let id = live[pick(*r, live.len())];
                        let ci = *c as usize % t.cols.len();
                        let (ty, nullable) = t.cols[ci];
                        let mut up = HashMap::new();
                        up.insert(format!("c{ci}"), cell_value(v, ty, nullable));
                        let _ = rel.update(&name, Condition::Eq("_id".to_string(), Value::Int(id as i64)), up);
                    }
                },
            }
        }
    }
}

// ------------------------------------------------------------------ graph (engine)

#[derive(Clone, Debug, Serialize, Deserialize)]
pub struct NodeSpec {
    pub label: u8,
    pub props: Vec<(u8, u8, Cell)>,
}

#[derive(Clone, Debug, Serialize, Deserialize)]
pub struct EdgeSpec {
    pub from: u16,
    pub to: u16,
    pub ty: u8,
    pub directed: bool,
    pub props: Vec<(u8, u8, Cell)>,
}

fn props() -> impl Strategy<Value = Vec<(u8, u8, Cell)>> {
    prop::collection::vec((0u8..4, 0u8..9, cell()), 0..4)
}

fn prop_value(kind: u8, c: &Cell) -> PropertyValue {
    match kind % 9 {
        0 => PropertyValue::Null,
        1 => PropertyValue::Int(c.raw as i64),
        2 => PropertyValue::Float(f64::from_bits(c.raw)),
        3 => PropertyValue::String(c.s.clone()),
        4 => PropertyValue::Bool(c.raw & 1 == 1),
        5 => PropertyValue::Bytes(c.s.as_bytes().to_vec()),
        6 => PropertyValue::DateTime((c.raw >> 20) as i64),
        7 => PropertyValue::List(vec![PropertyValue::Int((c.raw >> 40) as i64), PropertyValue::String(c.s.clone())]),
        _ => PropertyValue::Point { lat: ((c.raw % 180) as f64) - 90.0, lon: ((c.raw % 360) as f64) - 180.0 },
    }
}

fn prop_map(p: &[(u8, u8, Cell)]) -> HashMap<String, PropertyValue> {
    p.iter().map(|(n, k, c)| (format!("p{}", n % 4), prop_value(*k, c))).collect()
}

pub fn apply_graph(nodes: &[NodeSpec], edges: &[EdgeSpec], g: &GraphEngine, probes: &mut Probes) {
    const LABELS: [&str; 3] = ["Person", "Doc", "x"];
    const TYPES: [&str; 3] = ["KNOWS", "REFS", "t"];
    for n in nodes {
        if let Ok(id) = g.create_node(LABELS[n.label as usize % 3], prop_map(&n.props)) {
            probes.node_ids.push(id);
            probes.classes.insert("graph");
        }
    }
    if probes.node_ids.is_empty() {
        return;
    }
    for e in edges {
        let from = probes.node_ids[pick(e.from, probes.node_ids.len())];
        let to = probes.node_ids[pick(e.to, probes.node_ids.len())];
        if let Ok(id) = g.create_edge(from, to, TYPES[e.ty as usize % 3], prop_map(&e.props), e.directed) {
            probes.edge_ids.push(id);
        }
    }
}

// ------------------------------------------------------------------ vector engine, graph tensor, blob log

#[derive(Clone, Debug, Serialize, Deserialize)]
pub struct VecPut {
    pub name: u8,
    pub dim: u8,
    pub spec: VecSpec,
}

#[derive(Clone, Debug, Serialize, Deserialize)]
pub struct GtEdge {
    pub from: u8,
    pub to: u8,
    pub ty: u8,
    pub directed: bool,
    pub data: Option<Fields>,
}

// ------------------------------------------------------------------ the whole content

#[derive(Clone, Debug, Serialize, Deserialize, Default)]
pub struct Content {
    pub raw: Vec<RawOp>,
    pub tables: Vec<TableSpec>,
    pub nodes: Vec<NodeSpec>,
    pub edges: Vec<EdgeSpec>,
    pub vecs: Vec<VecPut>,
    pub gt: Vec<GtEdge>,
    pub gt_del: Vec<u16>,
    pub blobs: Vec<Vec<u8>>,
    /// (seed, number of generated entries) appended deterministically
    pub bulk: Option<(u64, u32)>,
    /// every embedding-like vector has the slab dimension (needed by the tensor-train preset of the
    /// quantising format, whose configuration fixes one dimension)
    pub uniform: bool,
}

/// `scale`: 0 = empty, 1 = at most one item per class, 2 = a handful, 3 = about 50 entries.
fn content_scaled(scale: usize, bulk_max: u32) -> BoxedStrategy<Content> {
    // (handful, about-fifty) counts per class
    let n = |k: usize| -> usize {
        match scale {
            0 => 0,
            1 => 1,
            2 => k,
            _ => k * 4,
        }
    };
    let n_tables = [0usize, 1, 2, 3][scale.min(3)];
    let bulk = if bulk_max == 0 { Just(None).boxed() } else { (any::<u64>(), bulk_max / 4..=bulk_max).prop_map(Some).boxed() };
    let node_max = n(3);
    (
        (
            prop::collection::vec(raw_op(), 0..=n(5)),
            prop::collection::vec(table_spec(n(4).max(1)), 0..=n_tables),
            prop::collection::vec((0u8..3, props()).prop_map(|(label, props)| NodeSpec { label, props }), 0..=node_max),
            prop::collection::vec((any::<u16>(), any::<u16>(), 0u8..3, any::<bool>(), props()).prop_map(|(from, to, ty, directed, props)| EdgeSpec { from, to, ty, directed, props }), 0..=node_max),
            prop::collection::vec((0u8..6, 1u8..10, vec_spec()).prop_map(|(name, dim, spec)| VecPut { name, dim, spec }), 0..=n(2)),
        ),
        (
            prop::collection::vec(
                (0u8..24, 0u8..24, 0u8..3, any::<bool>(), prop::option::weighted(0.4, fields_strategy(2))).prop_map(|(from, to, ty, directed, data)| GtEdge { from, to, ty, directed, data }),
                0..=n(3),
            ),
            prop::collection::vec(any::<u16>(), 0..=n(1)),
            prop::collection::vec(prop::collection::vec(any::<u8>(), 0..40), 0..=n(2)),
            bulk,
            prop::bool::weighted(0.3),
        ),
    )
        .prop_map(|((raw, tables, nodes, edges, vecs), (gt, gt_del, blobs, bulk, uniform))| Content { raw, tables, nodes, edges, vecs, gt, gt_del, blobs, bulk, uniform })
        .boxed()
}

/// Contents for the round-trip part: sizes 0, 1, a handful, ~50 and (rarely) generated bulk.
pub fn content_strategy(t: Tier) -> BoxedStrategy<Content> {
    let bulk_small = t.pick(600u32, 3_000u32);
    let bulk_large = t.pick(4_000u32, 40_000u32);
    let large = match t {
        Tier::Quick => content_scaled(2, bulk_small),
        Tier::Thorough => content_scaled(2, bulk_large),
    };
    prop_oneof![
        2 => content_scaled(0, 0),
        6 => content_scaled(1, 0),
        24 => content_scaled(2, 0),
        16 => content_scaled(3, 0),
        2 => content_scaled(2, bulk_small),
        1 => large,
    ]
    .boxed()
}

/// Small contents for the crash parts (the snapshot should stay a few hundred bytes to a few KB).
pub fn small_content_strategy() -> BoxedStrategy<Content> {
    prop_oneof![
        1 => content_scaled(0, 0),
        3 => content_scaled(1, 0),
        6 => content_scaled(2, 0),
    ]
    .boxed()
}

pub fn tiny_content_strategy() -> BoxedStrategy<Content> {
    prop_oneof![
        1 => content_scaled(0, 0),
        4 => content_scaled(1, 0),
        1 => content_scaled(2, 0),
    ]
    .boxed()
}

pub struct Built {
    pub store: TensorStore,
    pub probes: Probes,
}

/// Build a real store from a content description: relational tables through `RelationalEngine`,
/// nodes/edges through `GraphEngine`, embeddings through `VectorEngine` and raw `emb:` puts,
/// metadata / cache / blob-class keys through raw puts, plus the two internal slabs that are only
/// reachable directly (`GraphTensor`, `BlobLog`).
pub fn build_into(c: &Content, store: &TensorStore) -> Probes {
    let mut probes = Probes::default();
    let rel = RelationalEngine::with_store(store.clone());
    apply_tables(&c.tables, &rel, &mut probes);
    let g = GraphEngine::with_store(store.clone());
    apply_graph(&c.nodes, &c.edges, &g, &mut probes);
    if !c.uniform {
        let ve = VectorEngine::with_store(store.clone());
        for v in &c.vecs {
            let d = (v.dim as usize).clamp(1, 9);
            if ve.store_embedding(&format!("v{}", v.name % 6), expand(&v.spec, d)).is_ok() {
                probes.classes.insert("embeddings");
            }
        }
    }
    apply_raw(&c.raw, store.router(), c.uniform, &mut probes);
    // internal slabs
    const TYPES: [&str; 3] = ["a", "b", ""];
    let gt = &store.router().graph;
    let mut gids = Vec::new();
    for e in &c.gt {
        let id = gt.add_edge(EntityId::new(u64::from(e.from)), EntityId::new(u64::from(e.to)), TYPES[e.ty as usize % 3], e.directed);
        if let Some(f) = &e.data {
            gt.set_edge_data(id, tensor_of(f, false));
        }
        gids.push(id);
        probes.classes.insert("graph-tensor");
    }
    for d in &c.gt_del {
        if !gids.is_empty() {
            let id = gids.remove(pick(*d, gids.len()));
            gt.delete_edge(id);
        }
    }
    for b in &c.blobs {
        let h: ChunkHash = store.router().blobs.append(b);
        probes.blob_hashes.push(h.0);
        probes.classes.insert("blob-log");
    }
    if let Some((seed, n)) = c.bulk {
        bulk(store, &rel, seed, n, &mut probes);
    }
    probes
}

pub fn build(c: &Content) -> Built {
    let store = TensorStore::new();
    let probes = build_into(c, &store);
    Built { store, probes }
}

fn bulk(store: &TensorStore, rel: &RelationalEngine, seed: u64, n: u32, probes: &mut Probes) {
    let has_table = rel
        .create_table(
            "big",
            Schema::new(vec![Column::new("c0", ColumnType::Int), Column::new("c1", ColumnType::String).nullable(), Column::new("c2", ColumnType::Float).nullable()]),
        )
        .is_ok();
    let mut rows = Vec::new();
    // one bulk in four is highly redundant (every entry carries the same long text and a block of
    // zero bytes): its snapshot compresses several hundred to one
    let redundant = seed % 4 == 0;
    if redundant {
        probes.classes.insert("metadata");
    }
    for i in 0..u64::from(n) {
        let h = mix(seed ^ i.wrapping_mul(0x9e37_79b9));
        if redundant {
            let mut d = TensorData::new();
            d.set("body", TensorValue::Scalar(ScalarValue::String("lorem ipsum dolor sit amet, consectetur adipiscing elit ".repeat(28))));
            d.set("pad", TensorValue::Scalar(ScalarValue::Bytes(vec![0u8; 6144])));
            d.set("n", TensorValue::Scalar(ScalarValue::Int(i as i64)));
            let _ = store.put(format!("bulk:{i:06}"), d);
            continue;
        }
        match h % 8 {
            0..=3 => {
                let mut d = TensorData::new();
                d.set("a", TensorValue::Scalar(ScalarValue::Int(h as i64)));
                d.set("b", TensorValue::Scalar(ScalarValue::String(format!("s{:x}", h >> 40))));
                if h & 16 != 0 {
                    d.set("c", TensorValue::Scalar(ScalarValue::Float(f64::from_bits(h))));
                }
                let _ = store.put(format!("bulk:{i:06}"), d);
                probes.classes.insert("metadata");
            },
            4 => {
                let mut v = vec![0.0f32; 384];
                for j in 0..8u64 {
                    v[(mix(h ^ j) % 384) as usize] = ((mix(h.wrapping_add(j)) % 2000) as f32 - 1000.0) / 256.0;
                }
                let mut d = TensorData::new();
                d.set("_embedding", TensorValue::Vector(v));
                let _ = store.put(format!("emb:b{i:06}"), d);
                probes.classes.insert("embeddings");
            },
            5 => {
                if i % 16 == 5 {
                    let a = (h % 17) as i8 - 8;
                    let v = expand(&VecSpec::Ramp { a, b: 3 }, 384);
                    let k = format!("emb:d{i:06}");
                    if let Some(class) = tt_claim(&VecSpec::Ramp { a, b: 3 }, 384, &v) {
                        probes.tt_claim.insert(k.clone(), class);
                    }
                    let mut d = TensorData::new();
                    d.set("_embedding", TensorValue::Vector(v));
                    let _ = store.put(k, d);
                } else {
                    let mut d = TensorData::new();
                    d.set("blob", TensorValue::Scalar(ScalarValue::Bytes(h.to_le_bytes().to_vec())));
                    let _ = store.put(format!("_blob:chunk:{i:06}"), d);
                    probes.classes.insert("blobs");
                }
            },
            6 => {
                let mut d = TensorData::new();
                d.set("v", TensorValue::Scalar(ScalarValue::Int(i as i64)));
                let _ = store.put(format!("_cache:b{:04}", i % 3000), d);
                probes.classes.insert("cache");
            },
            _ => {
                let mut r = HashMap::new();
                r.insert("c0".to_string(), Value::Int(h as i64));
                r.insert("c1".to_string(), if h & 32 != 0 { Value::Null } else { Value::String(format!("r{i}")) });
                r.insert("c2".to_string(), if h & 64 != 0 { Value::Null } else { Value::Float(f64::from_bits(h.rotate_left(7))) });
                rows.push(r);
            },
        }
    }
    if has_table && !rows.is_empty() {
        for chunk in rows.chunks(500) {
            let _ = rel.batch_insert("big", chunk.to_vec());
        }
        probes.classes.insert("relational");
    }
}

/// Data classes of the property statement (plus cache entries) that a built store holds; the two
/// internal slabs reachable only through `router()` are labelled but not counted.
pub fn counted_classes(p: &Probes) -> usize {
    p.classes.iter().filter(|c| !matches!(**c, "graph-tensor" | "blob-log")).count()
}

/// Number of entries a content holds (for labels only).
pub fn size_class(store: &TensorStore) -> &'static str {
    let n = store.scan("").len();
    match n {
        0 => "size:0",
        1 => "size:1",
        2..=9 => "size:2-9",
        10..=99 => "size:10-99",
        100..=999 => "size:100-999",
        1000..=9999 => "size:1k-10k",
        _ => "size:10k+",
    }
}
