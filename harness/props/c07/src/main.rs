//! C07 — Snapshots reproduce the store exactly and replace files atomically.
//!
//! Parts:
//!  * `roundtrip`  a store filled through RelationalEngine / GraphEngine / VectorEngine and raw puts
//!                 (all key classes, all value kinds, the internal graph-tensor and blob-log slabs,
//!                 sizes 0 .. tens of thousands) is taken through every snapshot form — default file
//!                 (zstd), uncompressed v3 file, bytes -> SlabRouter::from_bytes, bytes ->
//!                 restore_from_bytes (into an empty and into a used store), the quantising format —
//!                 and every slab-level reader plus the engine reads of the reloaded store are compared
//!                 with the original (floats bitwise; embedding-slab vectors by their documented class).
//!  * `embdims`    SlabRouter with embedding dimension 4 / 64 / 255 / 256 / 384 / 768: dense, sparse,
//!                 near-threshold, constant / ramp / low-TT-rank and arbitrary vectors through
//!                 save_to_file, the uncompressed writer and to_bytes/from_bytes.
//!  * `kill`       previous snapshot P at a path, new content N saved to the same path in a child
//!                 process with RLIMIT_FSIZE = L (one L per case: around the header, absolute up to 4000, around |N|);
//!                 the path must then load as P or N entirely. Writers: save_snapshot,
//!                 save_v3_uncompressed, save_snapshot_compressed, checkpoint.
//!  * `kill_all`   the same with every L in 0..=|N|+2 for small snapshots.

mod atomic;
mod model;
mod obs;

use model::{build, build_into, content_strategy, size_class, Content, Probes, RawOp};
use nv_engine::{main_for, scratch, CaseCtx, Fail, PropDef, PropPart, Tier};
use obs::{observe_engines, observe_router, same_state, state_diff, Cmp, EngObs, Mode, RouterObs};
use proptest::prelude::*;
use serde::{Deserialize, Serialize};
use tensor_store::{SlabRouter, SlabRouterConfig, TensorStore};

#[derive(Clone, Debug, Serialize, Deserialize)]
struct RtCase {
    content: Content,
    /// bit 0 delta_encoding, bit 1 rle_encoding, bit 2 tensor-train mode (if the content allows it),
    /// bit 3 load with bloom filter, bit 4 restore_from_bytes into a used store instead of a fresh one
    sel: u8,
    /// content of the store that restore_from_bytes overwrites
    pre: Content,
    /// history of the overwritten store's embedding slab: slab-dimension embeddings `emb:p<n>` put
    /// after `pre`, those flagged deleted again (freed slots) before restore_from_bytes runs
    #[serde(default)]
    pre_emb: Vec<(u8, bool)>,
}

fn rt_strategy(t: Tier) -> impl Strategy<Value = RtCase> {
    (content_strategy(t), 0u8..32, model::tiny_content_strategy(), prop::collection::vec((0u8..10, prop::bool::weighted(0.5)), 0..10))
        .prop_map(|(content, sel, pre, pre_emb)| RtCase { content, sel, pre, pre_emb })
}

struct Orig<'a> {
    probes: &'a Probes,
    r: RouterObs,
    e: EngObs,
}

/// Every key the store lists must be readable through the store's own get/exists.
fn listed_keys_readable(fmt: &'static str, store: &TensorStore, ctx: &mut CaseCtx) -> Result<(), Fail> {
    for k in store.scan("") {
        if !store.exists(&k) || store.get(&k).is_err() {
            return ctx.fail(
                format!("{fmt}:key-listed-but-not-readable"),
                format!("[{fmt}] scan lists {k:?} but exists() = {} and get() = {:?}", store.exists(&k), store.get(&k).map(|_| ()).map_err(|e| e.to_string())),
            );
        }
    }
    Ok(())
}

fn compare_store(fmt: &'static str, mode: Mode, loaded: &TensorStore, o: &Orig, ctx: &mut CaseCtx) -> Result<(), Fail> {
    let n_r = observe_router(loaded.router(), o.probes, false);
    let mut cmp = Cmp { fmt, mode, ctx, rel_slab_diverged: false, bytes_lossy: false };
    cmp.router(&o.r, &n_r, o.probes)?;
    let n_e = observe_engines(loaded, o.probes, false);
    cmp.engines(&o.e, &n_e)
}

/// The tensor-train preset of the quantising format fixes one dimension: usable only when every
/// embedding-like vector (emb: key, or field `_embedding` / `vector`) has that dimension.
fn tt_eligible(o: &RouterObs) -> bool {
    // ... and only for vectors in an ordinary numeric range (finite, |v| <= 1e15): the decomposition
    // works with squared norms in f32
    let ok = |x: &[f32]| x.len() == 384 && x.iter().all(|c| c.is_finite() && c.abs() <= 1e15);
    let mut any = false;
    for (k, f) in &o.kv {
        for (name, v) in f {
            let emb_like = k.starts_with("emb:") || name == "_embedding" || name == "vector";
            if emb_like {
                if let Some(x) = v.to_dense() {
                    if !ok(&x) {
                        return false;
                    }
                    any = true;
                }
            }
        }
    }
    for v in o.slab.values() {
        if !ok(v) {
            return false;
        }
        any = true;
    }
    any
}

fn roundtrip(c: &RtCase, ctx: &mut CaseCtx) -> Result<(), Fail> {
    let b = build(&c.content);
    let store = &b.store;
    for cl in &b.probes.classes {
        ctx.label(format!("class:{cl}"));
    }
    ctx.label(size_class(store));
    let classes = model::counted_classes(&b.probes);
    ctx.label(format!("data classes:{classes}"));
    if classes >= 3 {
        ctx.set_nontrivial();
    }
    let o = Orig { probes: &b.probes, r: observe_router(store.router(), &b.probes, false), e: observe_engines(store, &b.probes, false) };
    if o.r.rel.values().any(|t| t.rows.iter().any(|_| true)) {
        ctx.label("relational rows present");
    }
    if !o.r.slab.is_empty() {
        ctx.label("embedding slab populated");
    }
    let dir = scratch::Dir::new("c07rt");

    // ---- default file format (zstd)
    let p = dir.join("default.snap");
    match store.save_snapshot(&p) {
        Err(e) => ctx.fail("file:save-failed", format!("save_snapshot failed: {e}"))?,
        Ok(()) => {
            let head = std::fs::read(&p).unwrap_or_default();
            if head.len() < 20 || &head[..4] != b"NEUM" || head[8] & 1 != 1 {
                ctx.fail("file:header", format!("default snapshot does not start with the documented header (magic NEUM, compressed flag): {:?}", &head[..head.len().min(20)]))?;
            }
            let loaded = if c.sel & 8 != 0 {
                ctx.label("loaded with bloom filter");
                TensorStore::load_snapshot_with_bloom_filter(&p, 1000, 0.01)
            } else {
                TensorStore::load_snapshot(&p)
            };
            match loaded {
                Err(e) => ctx.fail("file:load-failed", format!("load_snapshot of a snapshot just saved failed: {e}"))?,
                Ok(l) => compare_store("file", Mode::Exact, &l, &o, ctx)?,
            }
        },
    }

    // ---- uncompressed v3 writer
    let p = dir.join("raw.snap");
    match tensor_store::snapshot::save_v3_uncompressed(store.router(), &p) {
        Err(e) => ctx.fail("file-raw:save-failed", format!("save_v3_uncompressed failed: {e}"))?,
        Ok(()) => {
            let head = std::fs::read(&p).unwrap_or_default();
            if head.len() < 20 || &head[..4] != b"NEUM" || head[8] & 1 != 0 {
                ctx.fail("file-raw:header", format!("uncompressed snapshot header: {:?}", &head[..head.len().min(20)]))?;
            }
            match TensorStore::load_snapshot(&p) {
                Err(e) => ctx.fail("file-raw:load-failed", format!("load_snapshot of an uncompressed snapshot failed: {e}"))?,
                Ok(l) => compare_store("file-raw", Mode::Exact, &l, &o, ctx)?,
            }
        },
    }

    // ---- bytes form
    match store.snapshot_bytes() {
        Err(e) => ctx.fail("bytes:save-failed", format!("snapshot_bytes failed: {e}"))?,
        Ok(bytes) => {
            match SlabRouter::from_bytes(&bytes) {
                Err(e) => ctx.fail("bytes-router:load-failed", format!("SlabRouter::from_bytes failed: {e}"))?,
                Ok(r) => {
                    let n_r = observe_router(&r, &b.probes, false);
                    let mut cmp = Cmp { fmt: "bytes-router", mode: Mode::Exact, ctx, rel_slab_diverged: false, bytes_lossy: false };
                    cmp.router(&o.r, &n_r, &b.probes)?;
                },
            }
            // the overwritten store may have been created with a Bloom filter (get/exists consult it)
            let new_target = || if c.sel & 8 != 0 { TensorStore::with_bloom_filter(2000, 0.01) } else { TensorStore::new() };
            if c.sel & 8 != 0 {
                ctx.label("restore_from_bytes into a store with a Bloom filter");
            }
            if c.sel & 16 == 0 {
                let fresh = new_target();
                match fresh.restore_from_bytes(&bytes) {
                    Err(e) => ctx.fail("bytes-restore:load-failed", format!("restore_from_bytes failed: {e}"))?,
                    Ok(()) => {
                        compare_store("bytes-restore", Mode::Exact, &fresh, &o, ctx)?;
                        listed_keys_readable("bytes-restore", &fresh, ctx)?;
                    },
                }
            } else {
                ctx.label("restore_from_bytes into a used store");
                let used = new_target();
                let _ = build_into(&c.pre, &used);
                let slab_dim = used.router().embeddings.dimension();
                for (n, _) in &c.pre_emb {
                    let mut t = tensor_store::TensorData::new();
                    let v: Vec<f32> = (0..slab_dim).map(|i| 1.0 + f32::from(*n) + (i % 7) as f32 * 0.25).collect();
                    t.set("_embedding", tensor_store::TensorValue::Vector(v));
                    let _ = used.router().put(&format!("emb:p{n}"), t);
                }
                let mut freed = 0;
                for (n, del) in &c.pre_emb {
                    if *del && used.router().delete(&format!("emb:p{n}")).is_ok() {
                        freed += 1;
                    }
                }
                if freed > 0 {
                    ctx.label("restore_from_bytes into a store whose embedding slab has freed slots");
                }
                match used.restore_from_bytes(&bytes) {
                    Err(e) => ctx.fail("bytes-restore-used:load-failed", format!("restore_from_bytes into a used store failed: {e}"))?,
                    Ok(()) => {
                        compare_store("bytes-restore-used", Mode::Exact, &used, &o, ctx)?;
                        listed_keys_readable("bytes-restore-used", &used, ctx)?;
                    },
                }
            }
        },
    }

    // ---- quantising format
    let tt = (c.sel & 4 != 0 || c.content.uniform) && tt_eligible(&o.r);
    let cfg = tensor_compress::CompressionConfig {
        tensor_mode: if tt { Some(tensor_compress::TensorMode::TensorTrain(tensor_compress::TTConfig::for_dim(384).map_err(|e| Fail::new("harness", e.to_string()))?)) } else { None },
        delta_encoding: c.sel & 1 != 0,
        rle_encoding: c.sel & 2 != 0,
    };
    if tt {
        ctx.label("quant: tensor-train mode");
    }
    let p = dir.join("quant.snap");
    match store.save_snapshot_compressed(&p, cfg) {
        Err(e) => {
            let es = e.to_string();
            let sig = if tt && es.contains("empty matrix") { "quant:save-failed:tt-decompose-empty-matrix" } else { "quant:save-failed" };
            ctx.fail(sig, format!("save_snapshot_compressed failed: {es}"))?
        },
        Ok(()) => match TensorStore::load_snapshot_compressed(&p) {
            Err(e) => ctx.fail("quant:load-failed", format!("load_snapshot_compressed failed: {e}"))?,
            Ok(l) => compare_store("quant", Mode::Quant { tt }, &l, &o, ctx)?,
        },
    }

    // saving is read-only
    let again = observe_router(store.router(), &b.probes, false);
    if !same_state(&o.r, &again) {
        ctx.fail(format!("original-changed-by-saving:{}", obs::diff_component(&o.r, &again)), format!("the original store reads differently after the saves: {}", state_diff(&o.r, &again)))?;
    }
    Ok(())
}

// ------------------------------------------------------------------ embdims

#[derive(Clone, Debug, Serialize, Deserialize)]
struct DimCase {
    dim: u8,
    ops: Vec<RawOp>,
}

const DIMS: [usize; 6] = [4, 64, 255, 256, 384, 768];

fn dim_strategy(_t: Tier) -> impl Strategy<Value = DimCase> {
    (0u8..6, model::emb_ops_strategy(10)).prop_map(|(dim, ops)| DimCase { dim, ops })
}

fn embdims(c: &DimCase, ctx: &mut CaseCtx) -> Result<(), Fail> {
    let d = DIMS[c.dim as usize % DIMS.len()];
    let router = SlabRouter::with_config(&SlabRouterConfig { embedding_dim: d, ..SlabRouterConfig::default() });
    let mut probes = Probes::default();
    model::apply_raw(&c.ops, &router, false, &mut probes);
    ctx.label(format!("dim:{d}"));
    if model::counted_classes(&probes) >= 3 {
        ctx.set_nontrivial();
    }
    let o = observe_router(&router, &probes, false);
    if !probes.tt_claim.is_empty() {
        ctx.label("vector with bounded TT-rank stored");
    }
    let dir = scratch::Dir::new("c07dim");
    let check = |fmt: &'static str, r: Result<SlabRouter, String>, ctx: &mut CaseCtx| -> Result<(), Fail> {
        match r {
            Err(e) => ctx.fail(format!("{fmt}:load-failed"), format!("{fmt}: {e}")),
            Ok(r) => {
                let n = observe_router(&r, &probes, false);
                let mut cmp = Cmp { fmt, mode: Mode::Exact, ctx, rel_slab_diverged: false, bytes_lossy: false };
                cmp.router(&o, &n, &probes)
            },
        }
    };
    let p = dir.join("r.snap");
    check("file", router.save_to_file(&p).map_err(|e| e.to_string()).and_then(|()| SlabRouter::load_from_file(&p).map_err(|e| e.to_string())), ctx)?;
    let p = dir.join("u.snap");
    check("file-raw", tensor_store::snapshot::save_v3_uncompressed(&router, &p).map_err(|e| e.to_string()).and_then(|()| SlabRouter::load_from_file(&p).map_err(|e| e.to_string())), ctx)?;
    check("bytes-router", router.to_bytes().map_err(|e| e.to_string()).and_then(|b| SlabRouter::from_bytes(&b).map_err(|e| e.to_string())), ctx)?;
    Ok(())
}

/// Every SlabRouter the product creates allocates (and zero-fills) a 16 MB embedding chunk. With
/// glibc's defaults each of them is a fresh mmap + page faults + munmap, which serialises the worker
/// threads on the process's memory-map lock; keeping such blocks inside the malloc arenas avoids
/// that. Pure performance tuning of the harness process, no effect on what is checked.
fn tune_malloc() {
    // SAFETY: mallopt only sets allocator parameters
    unsafe {
        libc::mallopt(libc::M_MMAP_THRESHOLD, 32 << 20);
        libc::mallopt(libc::M_TRIM_THRESHOLD, 1 << 30);
        libc::mallopt(libc::M_TOP_PAD, 64 << 20);
    }
}

fn main() {
    tune_malloc();
    main_for(PropDef {
        id: "C07",
        level: "fault_enumeration",
        rule: "roundtrip: a store built through RelationalEngine (tables of 1-6 columns over all 6 column types, NULLs, deletes, updates, indexes), GraphEngine (nodes/edges with all property kinds), VectorEngine and raw puts (12 metadata/graph/table/blob-class keys, 8 emb: keys with slab-dimension and off-dimension vectors, cache keys, deletes, every TensorValue/ScalarValue kind incl. int extremes, NaN/inf/-0.0, empty strings, bytes, sparse vectors, pointers) plus the internal graph-tensor and blob-log slabs; sizes 0, 1, a handful, ~50 and generated bulk (quick <= 600, thorough <= 40 000 entries); each case goes through all five snapshot forms. embdims: SlabRouter with embedding dimension 4/64/255/256/384/768 and up to 10 raw operations. kill: one child save with RLIMIT_FSIZE=L per case (L absolute in 0..48 / 48..200 / 200..800 / 800..4000, or |N|-12..|N|+3) over 4 writers and 4 path shapes; kill_all: every L in 0..=|N|+2 (snapshots up to 350 bytes quick / 3 000 thorough, decided for the zstd writers on the process-independent uncompressed size / 4; stratified above). non-trivial = the store holds >= 3 of the data classes relational rows/schemas, graph nodes/edges, embeddings, metadata keys, blob-class keys, cache entries (the internal graph-tensor and blob-log slabs are labelled, not counted), or a child save was killed strictly inside the payload (L above the 20-byte header); distinct = distinct generated case",
        assumptions: vec![
            "oracle = the store's own readers applied to the original and to the reloaded store: scan+get of every key, embedding slab, metadata copy of _embedding, entity-index keys, relational slab scan_all + schema, graph tensor adjacency and edge data, blob log, RelationalEngine select/get_schema/row_count, GraphEngine get_node/get_edge/neighbors, VectorEngine get_embedding; values compared through canonical bitcode bytes (floats bitwise)",
            "embedding-slab vectors: dimension < 256 and fewer than half components <= 1e-6: bit-identical; at least half components <= 1e-6 (sparse form): identical except that components with |v| <= 1e-6 may come back as +0.0; dimension >= 256 otherwise (tensor-train): same length, finite if the input was finite, and relative L2 error <= 1e-3 for vectors generated with TT-rank <= 3 (constant, linear ramp, sum of <= 3 separable terms over the documented shapes 4x8x8 / 4x8x12 / 8x8x12) whose largest component is in [1e-2, 1e6]",
            "quantising format: everything except vector payloads exact; vector payloads numerically equal (representation may change from sparse to dense) without tensor-train mode, within the tensor-train tolerance with it; the tensor-train preset is used only when every embedding-like vector has the preset's dimension (384); field names 'ids'/'*_ids' and ascending integer vectors above 2^63 are not generated/compared (recorded C20 findings)",
            "crash model: the child process is killed by the kernel (SIGXFSZ) when a file it writes would exceed L bytes; bytes written before that stay (no power-loss / lost-page-cache model, fsync is not observable here)",
            "crash parts compare the loaded state with the previous / new snapshot as loaded through the same format; GraphEngine's wall-clock _created_at/_updated_at fields are masked there because the child builds the new content at a different time",
            "entity ids are not compared (not observable through the store API); the compressed size of a snapshot varies by a few bytes between processes (hash-map field order), so |N| is known to the parent only approximately",
        ],
        parts: vec![
            PropPart::new("roundtrip", 2_400, 26_000, rt_strategy, roundtrip).shrink_iters(400).boxed(),
            PropPart::new("embdims", 3_200, 56_000, dim_strategy, embdims).shrink_iters(600).boxed(),
            PropPart::new("kill", 1_800, 28_000, atomic::kill_strategy, atomic::kill_check).shrink_iters(150).boxed(),
            PropPart::new("kill_all", 12, 110, atomic::kill_all_strategy, atomic::kill_all_check).shrink_iters(30).boxed(),
        ],
        children: vec![("save", Box::new(atomic::child_save))],
    });
}
