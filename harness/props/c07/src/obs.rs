//! Observable state of a store (every slab-level reader plus the engine-level reads) and the
//! comparison of an original with a reloaded store. Nothing here uses the snapshot code; values are
//! compared through their canonical bitcode bytes (floats bit-exact) or, for the lossy vector
//! classes, through the documented tolerances.

use crate::model::Probes;
use graph_engine::{Direction, GraphEngine, PropertyValue};
use nv_engine::{CaseCtx, Fail};
use relational_engine::{Condition, RelationalEngine, Value};
use std::collections::{BTreeMap, BTreeSet};
use tensor_store::{ChunkHash, EdgeId, EntityId, ScalarValue, SlabRouter, TensorStore, TensorValue};
use vector_engine::VectorEngine;

pub type FieldMap = BTreeMap<String, TensorValue>;

#[derive(Clone, Default)]
pub struct RelObs {
    pub schema: String,
    pub rows: Vec<(u64, Vec<u8>)>,
    pub count: usize,
}

#[derive(Clone, Default)]
pub struct RouterObs {
    /// scan("") + get of every key; for slab-served embedding keys without the overlaid `_embedding`
    pub kv: BTreeMap<String, FieldMap>,
    /// keys that scan("") lists but get() refuses
    pub unreadable: Vec<String>,
    /// key -> the embedding slab's vector (what get() overlays as `_embedding`)
    pub slab: BTreeMap<String, Vec<f32>>,
    /// key -> the metadata slab's own `_embedding` copy
    pub meta_emb: BTreeMap<String, TensorValue>,
    pub index_keys: BTreeSet<String>,
    pub rel: BTreeMap<String, RelObs>,
    pub gt_edges: usize,
    pub gt_out: BTreeMap<u64, Vec<(u64, u64)>>,
    pub gt_in: BTreeMap<u64, Vec<(u64, u64)>>,
    pub gt_data: BTreeMap<u64, FieldMap>,
    pub blobs: BTreeMap<u64, Option<Vec<u8>>>,
    pub blob_chunks: u64,
    pub len: usize,
}

const CLOCK_FIELDS: [&str; 2] = ["_created_at", "_updated_at"];

fn field_map(d: &tensor_store::TensorData, mask_clock: bool) -> FieldMap {
    d.fields_iter().filter(|(k, _)| !(mask_clock && CLOCK_FIELDS.contains(&k.as_str()))).map(|(k, v)| (k.clone(), v.clone())).collect()
}

pub fn observe_router(r: &SlabRouter, probes: &Probes, mask_clock: bool) -> RouterObs {
    let mut o = RouterObs::default();
    let mut keys = r.scan("");
    keys.sort();
    for k in keys {
        match r.get(&k) {
            Ok(d) => {
                let mut f = field_map(&d, mask_clock);
                if k.starts_with("emb:") {
                    if let Some(id) = r.index.get(&k) {
                        if let Some(v) = r.embeddings.get(id) {
                            o.slab.insert(k.clone(), v);
                            f.remove("_embedding");
                        }
                    }
                    if let Some(m) = r.metadata.get(&k) {
                        if let Some(e) = m.get("_embedding") {
                            o.meta_emb.insert(k.clone(), e.clone());
                        }
                    }
                }
                o.kv.insert(k, f);
            },
            Err(_) => o.unreadable.push(k),
        }
    }
    o.index_keys = r.index.scan_prefix("").into_iter().map(|(k, _)| k).collect();
    let mut tables = r.relations.table_names();
    tables.sort();
    for t in tables {
        let mut ro = RelObs { schema: r.relations.get_schema(&t).map(|s| format!("{:?}|pk={:?}", s.columns, s.primary_key)).unwrap_or_else(|| "<no schema>".into()), ..Default::default() };
        if let Ok(rows) = r.relations.scan_all(&t) {
            ro.rows = rows.into_iter().map(|(id, row)| (id.0, bitcode::serialize(&row).unwrap_or_default())).collect();
            ro.rows.sort();
        }
        ro.count = r.relations.row_count(&t).unwrap_or(usize::MAX);
        o.rel.insert(t, ro);
    }
    o.gt_edges = r.graph.edge_count();
    for n in 0..32u64 {
        let mut out: Vec<(u64, u64)> = r.graph.outgoing(EntityId::new(n)).into_iter().map(|(t, e)| (t.as_u64(), e.as_u64())).collect();
        out.sort_unstable();
        if !out.is_empty() {
            o.gt_out.insert(n, out);
        }
        let mut inc: Vec<(u64, u64)> = r.graph.incoming(EntityId::new(n)).into_iter().map(|(t, e)| (t.as_u64(), e.as_u64())).collect();
        inc.sort_unstable();
        if !inc.is_empty() {
            o.gt_in.insert(n, inc);
        }
    }
    for e in 0..80u64 {
        if let Some(d) = r.graph.get_edge_data(EdgeId::new(e)) {
            o.gt_data.insert(e, field_map(&d, false));
        }
    }
    for h in &probes.blob_hashes {
        o.blobs.insert(*h, r.blobs.get(&ChunkHash(*h)));
    }
    o.blob_chunks = r.blobs.chunk_count();
    o.len = r.len();
    o
}

// ------------------------------------------------------------------ engine level

#[derive(Clone, Default, PartialEq, Eq, Debug)]
pub struct EngObs {
    /// table -> (schema, rows as canonical strings, row_count) or the error
    pub tables: BTreeMap<String, Result<(String, Vec<String>, usize), String>>,
    pub nodes: BTreeMap<u64, String>,
    pub edges: BTreeMap<u64, String>,
    pub neighbors: BTreeMap<u64, Vec<u64>>,
    pub node_count: usize,
    pub edge_count: usize,
    pub vecs: BTreeMap<String, Vec<u32>>,
}

fn value_canon(v: &Value) -> String {
    match v {
        Value::Null => "null".into(),
        Value::Int(i) => format!("i{i}"),
        Value::Float(f) => format!("f{:016x}", f.to_bits()),
        Value::String(s) => format!("s{s:?}"),
        Value::Bool(b) => format!("B{b}"),
        Value::Bytes(b) => format!("b{b:?}"),
        Value::Json(j) => format!("j{j}"),
        #[allow(unreachable_patterns)]
        other => format!("?{other:?}"),
    }
}

fn prop_canon(v: &PropertyValue) -> String {
    match v {
        PropertyValue::Null => "null".into(),
        PropertyValue::Int(i) => format!("i{i}"),
        PropertyValue::Float(f) => format!("f{:016x}", f.to_bits()),
        PropertyValue::String(s) => format!("s{s:?}"),
        PropertyValue::Bool(b) => format!("B{b}"),
        PropertyValue::DateTime(t) => format!("t{t}"),
        PropertyValue::List(l) => format!("[{}]", l.iter().map(prop_canon).collect::<Vec<_>>().join(",")),
        PropertyValue::Map(m) => {
            let s: BTreeMap<&String, String> = m.iter().map(|(k, v)| (k, prop_canon(v))).collect();
            format!("{s:?}")
        },
        PropertyValue::Bytes(b) => format!("b{b:?}"),
        PropertyValue::Point { lat, lon } => format!("P{:016x},{:016x}", lat.to_bits(), lon.to_bits()),
        #[allow(unreachable_patterns)]
        other => format!("?{other:?}"),
    }
}

fn props_canon(p: &std::collections::HashMap<String, PropertyValue>) -> String {
    let s: BTreeMap<&String, String> = p.iter().map(|(k, v)| (k, prop_canon(v))).collect();
    format!("{s:?}")
}

pub fn observe_engines(store: &TensorStore, probes: &Probes, mask_clock: bool) -> EngObs {
    let mut o = EngObs::default();
    let rel = RelationalEngine::with_store(store.clone());
    let mut tables = rel.list_tables();
    tables.sort();
    for t in tables {
        let r = (|| -> Result<(String, Vec<String>, usize), String> {
            let schema = rel.get_schema(&t).map_err(|e| format!("get_schema: {e}"))?;
            let rows = rel.select(&t, Condition::True).map_err(|e| format!("select: {e}"))?;
            let rows: Vec<String> = rows.iter().map(|r| format!("{}|{}", r.id, r.values.iter().map(|(c, v)| format!("{c}={}", value_canon(v))).collect::<Vec<_>>().join("|"))).collect();
            let n = rel.row_count(&t).map_err(|e| format!("row_count: {e}"))?;
            Ok((format!("{:?}", schema.columns), rows, n))
        })();
        o.tables.insert(t, r);
    }
    let g = GraphEngine::with_store(store.clone());
    let ts = |c: Option<u64>, u: Option<u64>| if mask_clock { String::new() } else { format!("{c:?}/{u:?}") };
    for id in &probes.node_ids {
        let s = match g.get_node(*id) {
            Ok(n) => format!("{:?} {} {}", n.labels, props_canon(&n.properties), ts(n.created_at, n.updated_at)),
            Err(e) => format!("error: {e}"),
        };
        o.nodes.insert(*id, s);
        let mut nb: Vec<u64> = g.neighbors(*id, None, Direction::Both, None).map(|v| v.into_iter().map(|n| n.id).collect()).unwrap_or_else(|_| vec![u64::MAX]);
        nb.sort_unstable();
        o.neighbors.insert(*id, nb);
    }
    for id in &probes.edge_ids {
        let s = match g.get_edge(*id) {
            Ok(e) => format!("{}->{} {} {} {} {}", e.from, e.to, e.edge_type, e.directed, props_canon(&e.properties), ts(e.created_at, e.updated_at)),
            Err(e) => format!("error: {e}"),
        };
        o.edges.insert(*id, s);
    }
    o.node_count = g.node_count();
    o.edge_count = g.edge_count();
    let ve = VectorEngine::with_store(store.clone());
    let mut keys = ve.list_keys();
    keys.sort();
    for k in keys {
        if let Ok(v) = ve.get_embedding(&k) {
            o.vecs.insert(k, v.iter().map(|x| x.to_bits()).collect());
        }
    }
    o
}

// ------------------------------------------------------------------ comparison

#[derive(Clone, Copy, PartialEq)]
pub enum Mode {
    /// default file format / bytes forms: everything exact, embedding slab by its documented classes
    Exact,
    /// the quantising format: everything exact except vector payloads
    Quant { tt: bool },
}

fn key_class(k: &str) -> &'static str {
    for (p, c) in [("emb:", "emb"), ("node:", "graph"), ("edge:", "graph"), ("table:", "table"), ("_cache:", "cache"), ("_blob:", "blob"), ("_meta:table:", "table-meta"), ("_", "internal")] {
        if k.starts_with(p) {
            return c;
        }
    }
    "meta"
}

fn kind(v: &TensorValue) -> &'static str {
    match v {
        TensorValue::Scalar(ScalarValue::Null) => "null",
        TensorValue::Scalar(ScalarValue::Bool(_)) => "bool",
        TensorValue::Scalar(ScalarValue::Int(_)) => "int",
        TensorValue::Scalar(ScalarValue::Float(_)) => "float",
        TensorValue::Scalar(ScalarValue::String(_)) => "string",
        TensorValue::Scalar(ScalarValue::Bytes(_)) => "bytes",
        TensorValue::Vector(_) => "vector",
        TensorValue::Sparse(_) => "sparse",
        TensorValue::Pointer(_) => "pointer",
        TensorValue::Pointers(_) => "pointers",
    }
}

fn exact_eq(a: &TensorValue, b: &TensorValue) -> bool {
    bitcode::serialize(a).ok() == bitcode::serialize(b).ok()
}

fn rel_l2(a: &[f32], b: &[f32]) -> f64 {
    let mut num = 0.0f64;
    let mut den = 0.0f64;
    for (x, y) in a.iter().zip(b) {
        num += (f64::from(*x) - f64::from(*y)).powi(2);
        den += f64::from(*x).powi(2);
    }
    if den == 0.0 {
        num.sqrt()
    } else {
        (num / den).sqrt()
    }
}

/// Relative L2 reconstruction error allowed for vectors generated with tensor-train rank <= 3 under
/// the documented preset (max_rank 8, tolerance 1e-4 per truncation, two truncations).
pub const TT_REL_TOL: f64 = 1e-3;
/// Documented sparse-storage threshold of the embedding slab.
const SPARSE_THR: f32 = 1e-6;

/// How badly a reconstruction missed (part of the signature, so that a small loss of accuracy is not
/// hidden behind the recorded "comes back as zeros" finding).
fn err_bucket(e: f64, new: &[f32]) -> &'static str {
    if new.iter().all(|x| *x == 0.0) {
        "reconstructed-as-all-zeros"
    } else if e >= 0.1 {
        "error-above-10-percent"
    } else if e >= 0.01 {
        "error-1-to-10-percent"
    } else {
        "error-below-1-percent"
    }
}

/// Finite and far from f32 overflow when squared and summed (the decomposition works with norms).
fn moderate(v: &[f32]) -> bool {
    v.iter().all(|x| x.is_finite() && x.abs() <= 1e15)
}

/// Domain of the recorded C20 id-list findings (ascending non-negative integral values with one
/// above the u64 range): not re-reported here.
fn c20_idlist_overflow_domain(v: &[f32]) -> bool {
    v.len() >= 2 && v.windows(2).all(|w| w[0] <= w[1]) && v.iter().all(|x| *x >= 0.0 && x.fract() == 0.0) && v.iter().any(|x| *x >= 9.0e18)
}

pub struct Cmp<'a, 'b> {
    pub fmt: &'static str,
    pub mode: Mode,
    pub ctx: &'a mut CaseCtx<'b>,
    /// set when a recorded finding made later layers meaningless
    pub rel_slab_diverged: bool,
    pub bytes_lossy: bool,
}

impl Cmp<'_, '_> {
    /// Signatures carry the format family, messages the exact format: the three forms that go
    /// through SlabRouter::snapshot()/restore() unchanged share one family.
    fn fail(&mut self, what: &str, msg: String) -> Result<(), Fail> {
        let family = match self.fmt {
            "file" | "file-raw" | "bytes-router" => "v3",
            "bytes-restore" | "bytes-restore-used" => "bytes-restore",
            other => other,
        };
        self.ctx.fail(format!("{family}:{what}"), format!("[{}] {}", self.fmt, msg))
    }

    pub fn slab_vec(&mut self, key: &str, orig: &[f32], new: &[f32], claim: Option<&'static str>) -> Result<(), Fail> {
        if orig.len() != new.len() {
            return self.fail("emb-slab:length", format!("{key}: embedding of length {} came back with length {}", orig.len(), new.len()));
        }
        let n = orig.len();
        if orig.iter().zip(new).all(|(a, b)| a.to_bits() == b.to_bits()) {
            self.ctx.label("emb-slab vector bit-identical");
            return Ok(());
        }
        if let Mode::Quant { tt } = self.mode {
            // the quantising format: vector payloads within the configured error
            if tt {
                if moderate(orig) && !new.iter().all(|x| x.is_finite()) {
                    return self.fail("vector:tt:nonfinite", format!("{key}: finite vector (all |v| <= 1e15) came back with non-finite components"));
                }
                if let Some(class) = claim {
                    let e = rel_l2(orig, new);
                    self.ctx.label("quant: TT vector with bounded rank checked against tolerance");
                    if e > TT_REL_TOL {
                        return self.fail(&format!("vector:tt:lowrank-error:{class}:{}", err_bucket(e, new)), format!("{key}: vector generated with TT-rank <= 3 ({class}) reconstructed with relative L2 error {e:.3e} > {TT_REL_TOL:e}"));
                    }
                }
                return Ok(());
            }
            if c20_idlist_overflow_domain(orig) {
                self.ctx.label("quant: vector in the recorded C20 id-list domain skipped");
                return Ok(());
            }
            for (i, (a, b)) in orig.iter().zip(new).enumerate() {
                if !(a == b || (a.is_nan() && b.is_nan())) {
                    return self.fail("vector:raw-differs", format!("{key}: component {i} {a:e} came back as {b:e} with no vector compression configured"));
                }
            }
            return Ok(());
        }
        let zeros = orig.iter().filter(|v| v.abs() <= SPARSE_THR).count();
        let nans = orig.iter().filter(|v| v.is_nan()).count();
        let sparse_ok = zeros * 2 >= n;
        // NaN components are not "zeros" by the documented rule; the recorded finding
        // emb-slab:nan-component-zeroed is that the product counts them as such
        let sparse_if_nan_is_zero = nans > 0 && (zeros + nans) * 2 >= n;
        if n < 256 || sparse_ok || sparse_if_nan_is_zero {
            for (i, (a, b)) in orig.iter().zip(new).enumerate() {
                if a.to_bits() == b.to_bits() {
                    continue;
                }
                if sparse_ok && a.abs() <= SPARSE_THR && b.to_bits() == 0 {
                    self.ctx.label("emb-slab sparse form dropped a component <= 1e-6");
                    continue;
                }
                let class = if sparse_ok { "sparse-form" } else { "dense-below-256" };
                let what = if sparse_if_nan_is_zero && (a.is_nan() || a.abs() <= SPARSE_THR) && b.to_bits() == 0 {
                    "emb-slab:nan-component-zeroed".to_string()
                } else if a.is_nan() {
                    format!("emb-slab:{class}:nan-component-changed")
                } else if a.abs() <= SPARSE_THR {
                    format!("emb-slab:{class}:component-below-threshold-changed")
                } else {
                    format!("emb-slab:{class}:component-above-threshold-changed")
                };
                return self.fail(
                    &what,
                    format!("{key}: dimension {n}, {zeros} components <= 1e-6, {nans} NaN; component {i} = {a:e} (bits {:08x}) came back as {b:e} (bits {:08x})", a.to_bits(), b.to_bits()),
                );
            }
            return Ok(());
        }
        // dimension >= 256, stored dense: the tensor-train path
        self.ctx.label("emb-slab vector through the tensor-train path");
        if moderate(orig) && !new.iter().all(|x| x.is_finite()) {
            return self.fail("emb-slab:tt:nonfinite", format!("{key}: finite {n}-dim vector (all |v| <= 1e15) came back with non-finite components"));
        }
        if let Some(class) = claim {
            let e = rel_l2(orig, new);
            self.ctx.label(format!("emb-slab TT vector checked against tolerance:{class}"));
            if e > TT_REL_TOL {
                return self.fail(&format!("emb-slab:tt:lowrank-error:{class}:{}", err_bucket(e, new)), format!("{key}: {n}-dim vector generated with TT-rank <= 3 ({class}) reconstructed with relative L2 error {e:.3e} > {TT_REL_TOL:e}"));
            }
        }
        Ok(())
    }

    fn value(&mut self, key: &str, field: &str, a: &TensorValue, b: &TensorValue) -> Result<(), Fail> {
        if exact_eq(a, b) {
            return Ok(());
        }
        let kc = key_class(key);
        if let Mode::Quant { tt } = self.mode {
            if let (Some(x), Some(y)) = (a.to_dense(), b.to_dense()) {
                // vector payload: representation may change (sparse -> dense), values within the configured error
                let emb_like = key.starts_with("emb:") || field == "_embedding" || field == "vector";
                let mut c = Cmp { fmt: self.fmt, mode: Mode::Quant { tt: tt && emb_like }, ctx: self.ctx, rel_slab_diverged: false, bytes_lossy: false };
                return c.slab_vec(&format!("{key}.{field}"), &x, &y, None);
            }
            if let TensorValue::Scalar(ScalarValue::Bytes(_)) = a {
                self.bytes_lossy = true;
                return self.fail("kv:bytes-scalar-not-preserved", format!("{key}.{field}: bytes value came back as {b:?}"));
            }
        }
        self.fail(&format!("kv:{kc}:value-differs:{}", kind(a)), format!("{key}.{field}: {a:?} came back as {b:?}"))
    }

    pub fn router(&mut self, o: &RouterObs, n: &RouterObs, probes: &Probes) -> Result<(), Fail> {
        // keys
        for k in o.kv.keys() {
            if !n.kv.contains_key(k) {
                let extra = if n.unreadable.contains(k) { " (listed by scan but get fails)" } else { "" };
                self.fail(&format!("kv:{}:key-missing", key_class(k)), format!("key {k:?} is missing after the round trip{extra}"))?;
            }
        }
        for k in n.kv.keys() {
            if !o.kv.contains_key(k) {
                self.fail(&format!("kv:{}:key-extra", key_class(k)), format!("key {k:?} appeared after the round trip"))?;
            }
        }
        if n.unreadable.len() != o.unreadable.len() {
            self.fail("kv:unreadable-keys", format!("keys listed by scan but not readable: {:?} before, {:?} after", o.unreadable, n.unreadable))?;
        }
        for (k, fo) in &o.kv {
            let Some(fnw) = n.kv.get(k) else { continue };
            for (f, a) in fo {
                match fnw.get(f) {
                    None => self.fail(&format!("kv:{}:field-missing", key_class(k)), format!("{k}.{f} ({}) is missing after the round trip", kind(a)))?,
                    Some(b) => self.value(k, f, a, b)?,
                }
            }
            for f in fnw.keys() {
                if !fo.contains_key(f) {
                    let what = if f == "_embedding" && o.slab.contains_key(k) { "emb-slab:entry-lost" } else { "kv:field-extra" };
                    self.fail(what, format!("{k}.{f} appeared after the round trip (the embedding slab no longer serves this key)"))?;
                }
            }
        }
        // embedding slab
        for (k, a) in &o.slab {
            match n.slab.get(k) {
                Some(b) => self.slab_vec(k, a, b, probes.tt_claim.get(k).copied())?,
                None => {
                    if n.kv.get(k).is_some_and(|f| !f.contains_key("_embedding")) {
                        self.fail("emb-slab:entry-lost", format!("{k}: no embedding after the round trip"))?;
                    }
                },
            }
        }
        for k in n.slab.keys() {
            if !o.slab.contains_key(k) {
                self.fail("emb-slab:entry-extra", format!("{k}: the embedding slab serves this key only after the round trip"))?;
            }
        }
        if self.mode == Mode::Exact && !self.fmt.starts_with("bytes-restore") {
            // the metadata slab's own copy of `_embedding` (what scan_filter_map shows), held to the
            // same vector classes as the slab copy; restore_from_bytes copies key by key through
            // get()/put(), which by design refills this copy from the slab's, so it is not compared there
            for (k, a) in &o.meta_emb {
                match (a, n.meta_emb.get(k)) {
                    (_, Some(b)) if exact_eq(a, b) => {},
                    (TensorValue::Vector(x), Some(TensorValue::Vector(y))) => self.slab_vec(&format!("{k} (metadata copy)"), x, y, probes.tt_claim.get(k).copied())?,
                    (_, other) => self.fail("kv:emb:metadata-copy-of-embedding-differs", format!("{k}: the metadata slab's own _embedding copy {} came back as {:?}", kind(a), other.map(kind)))?,
                }
            }
        }
        if o.index_keys != n.index_keys {
            self.fail("entity-index:keys", format!("entity index keys {:?} came back as {:?}", o.index_keys, n.index_keys))?;
        }
        if o.len != n.len {
            self.fail("router:len", format!("len() {} came back as {}", o.len, n.len))?;
        }
        // relational slab
        for (t, a) in &o.rel {
            match n.rel.get(t) {
                None => {
                    self.rel_slab_diverged = true;
                    self.fail("rel-slab:table-missing", format!("table {t:?} ({} rows) is missing from the relational slab after the round trip", a.rows.len()))?;
                },
                Some(b) => {
                    if a.schema != b.schema {
                        self.rel_slab_diverged = true;
                        self.fail("rel-slab:schema", format!("table {t:?}: schema {} came back as {}", a.schema, b.schema))?;
                    }
                    if a.rows != b.rows || a.count != b.count {
                        self.rel_slab_diverged = true;
                        let ids = |r: &RelObs| r.rows.iter().map(|(i, _)| *i).collect::<Vec<_>>();
                        let what = if ids(a) != ids(b) { "rel-slab:row-set" } else { "rel-slab:row-values" };
                        self.fail(what, format!("table {t:?}: rows {:?} (count {}) came back as {:?} (count {}); first differing row: {:?}", ids(a), a.count, ids(b), b.count, a.rows.iter().zip(&b.rows).find(|(x, y)| x != y).map(|(x, _)| x.0)))?;
                    }
                },
            }
        }
        for t in n.rel.keys() {
            if !o.rel.contains_key(t) {
                self.rel_slab_diverged = true;
                self.fail("rel-slab:table-extra", format!("table {t:?} appeared in the relational slab after the round trip"))?;
            }
        }
        // graph tensor
        let gt_same_edges = o.gt_edges == n.gt_edges && o.gt_out == n.gt_out && o.gt_in == n.gt_in;
        let gt_same_data = o.gt_data.len() == n.gt_data.len() && o.gt_data.iter().all(|(e, f)| n.gt_data.get(e).is_some_and(|g| maps_eq(f, g)));
        if !gt_same_edges || !gt_same_data {
            let what = if n.gt_edges == 0 && n.gt_data.is_empty() {
                "graph-tensor:lost"
            } else if o.gt_edges != n.gt_edges {
                "graph-tensor:edge-count"
            } else if !gt_same_edges {
                "graph-tensor:edge-ids-or-adjacency"
            } else {
                "graph-tensor:edge-data"
            };
            self.fail(
                what,
                format!(
                    "graph tensor: {} edges, outgoing {:?}, incoming {:?}, edge data for {:?} came back as {} edges, outgoing {:?}, incoming {:?}, edge data for {:?}",
                    o.gt_edges,
                    o.gt_out,
                    o.gt_in,
                    o.gt_data.keys().collect::<Vec<_>>(),
                    n.gt_edges,
                    n.gt_out,
                    n.gt_in,
                    n.gt_data.keys().collect::<Vec<_>>()
                ),
            )?;
        }
        // blob log
        if o.blobs != n.blobs || o.blob_chunks != n.blob_chunks {
            let what = if n.blob_chunks == 0 && o.blob_chunks > 0 { "blob-log:lost" } else { "blob-log:differs" };
            self.fail(what, format!("blob log: {} chunks came back as {} chunks; chunk bytes equal: {}", o.blob_chunks, n.blob_chunks, o.blobs == n.blobs))?;
        }
        Ok(())
    }

    pub fn engines(&mut self, o: &EngObs, n: &EngObs) -> Result<(), Fail> {
        if !self.rel_slab_diverged && o.tables != n.tables {
            let t = o.tables.iter().find(|(k, v)| n.tables.get(*k) != Some(v)).map(|(k, _)| k.clone()).or_else(|| n.tables.keys().find(|k| !o.tables.contains_key(*k)).cloned()).unwrap_or_default();
            self.fail("rel-engine:select-or-schema", format!("RelationalEngine on the reloaded store: table {t:?} reads {:?}, the original reads {:?}", n.tables.get(&t), o.tables.get(&t)))?;
        }
        if !self.bytes_lossy {
            if o.nodes != n.nodes || o.node_count != n.node_count {
                self.fail("graph-engine:nodes", format!("GraphEngine nodes {:?} (count {}) came back as {:?} (count {})", o.nodes, o.node_count, n.nodes, n.node_count))?;
            }
            if o.edges != n.edges || o.edge_count != n.edge_count {
                self.fail("graph-engine:edges", format!("GraphEngine edges {:?} (count {}) came back as {:?} (count {})", o.edges, o.edge_count, n.edges, n.edge_count))?;
            }
        }
        if o.neighbors != n.neighbors {
            self.fail("graph-engine:neighbors", format!("GraphEngine neighbors {:?} came back as {:?}", o.neighbors, n.neighbors))?;
        }
        if o.vecs != n.vecs {
            let exact = matches!(self.mode, Mode::Exact);
            let numerically = o.vecs.len() == n.vecs.len()
                && o.vecs.iter().all(|(k, a)| {
                    n.vecs.get(k).is_some_and(|b| {
                        let dense: Vec<f32> = a.iter().map(|x| f32::from_bits(*x)).collect();
                        if a.len() == b.len() && c20_idlist_overflow_domain(&dense) {
                            return true;
                        }
                        a.len() == b.len() && a.iter().zip(b).all(|(x, y)| {
                            let (x, y) = (f32::from_bits(*x), f32::from_bits(*y));
                            x == y || (x.is_nan() && y.is_nan())
                        })
                    })
                });
            if exact || !numerically {
                self.fail("vector-engine:get_embedding", format!("VectorEngine embeddings {:?} came back as {:?}", o.vecs.keys().collect::<Vec<_>>(), n.vecs.keys().collect::<Vec<_>>()))?;
            }
        }
        Ok(())
    }
}

fn maps_eq(a: &FieldMap, b: &FieldMap) -> bool {
    a.len() == b.len() && a.iter().all(|(k, v)| b.get(k).is_some_and(|w| exact_eq(v, w)))
}

/// Exact equality of two observations (used by the crash parts: the state after an interrupted save
/// must be the previous or the new snapshot entirely).
pub fn same_state(a: &RouterObs, b: &RouterObs) -> bool {
    a.kv.len() == b.kv.len()
        && a.kv.iter().all(|(k, f)| b.kv.get(k).is_some_and(|g| maps_eq(f, g)))
        && a.unreadable == b.unreadable
        && a.slab.len() == b.slab.len()
        && a.slab.iter().all(|(k, v)| b.slab.get(k).is_some_and(|w| v.len() == w.len() && v.iter().zip(w).all(|(x, y)| x.to_bits() == y.to_bits())))
        && maps_eq(&a.meta_emb, &b.meta_emb)
        && a.index_keys == b.index_keys
        && a.rel.len() == b.rel.len()
        && a.rel.iter().all(|(t, r)| b.rel.get(t).is_some_and(|s| r.schema == s.schema && r.rows == s.rows && r.count == s.count))
        && a.gt_edges == b.gt_edges
        && a.gt_out == b.gt_out
        && a.gt_in == b.gt_in
        && a.gt_data.len() == b.gt_data.len()
        && a.gt_data.iter().all(|(e, f)| b.gt_data.get(e).is_some_and(|g| maps_eq(f, g)))
        && a.blobs == b.blobs
        && a.blob_chunks == b.blob_chunks
        && a.len == b.len
}

/// Which part of the observation differs first (for signatures).
pub fn diff_component(a: &RouterObs, b: &RouterObs) -> &'static str {
    if a.kv.len() != b.kv.len() || !a.kv.iter().all(|(k, f)| b.kv.get(k).is_some_and(|g| maps_eq(f, g))) || a.unreadable != b.unreadable {
        "keys-or-fields"
    } else if a.slab.len() != b.slab.len() || !a.slab.iter().all(|(k, v)| b.slab.get(k).is_some_and(|w| v.len() == w.len() && v.iter().zip(w).all(|(x, y)| x.to_bits() == y.to_bits()))) || !maps_eq(&a.meta_emb, &b.meta_emb) {
        "embedding-slab"
    } else if a.index_keys != b.index_keys {
        "entity-index"
    } else if a.rel.len() != b.rel.len() || !a.rel.iter().all(|(t, r)| b.rel.get(t).is_some_and(|s| r.schema == s.schema && r.rows == s.rows && r.count == s.count)) {
        "relational-slab"
    } else if a.gt_edges != b.gt_edges || a.gt_out != b.gt_out {
        "graph-tensor"
    } else if a.gt_in != b.gt_in {
        "graph-tensor-incoming"
    } else if a.gt_data.len() != b.gt_data.len() || !a.gt_data.iter().all(|(e, f)| b.gt_data.get(e).is_some_and(|g| maps_eq(f, g))) {
        "graph-tensor-edge-data"
    } else if a.blobs != b.blobs || a.blob_chunks != b.blob_chunks {
        "blob-log"
    } else if a.len != b.len {
        "len"
    } else {
        "nothing"
    }
}

/// Short description of how two states differ (for messages).
pub fn state_diff(a: &RouterObs, b: &RouterObs) -> String {
    let mut out = Vec::new();
    for k in a.kv.keys().chain(b.kv.keys()) {
        let (x, y) = (a.kv.get(k), b.kv.get(k));
        let same = match (x, y) {
            (Some(x), Some(y)) => maps_eq(x, y),
            _ => false,
        };
        if !same && !out.iter().any(|s: &String| s.starts_with(&format!("{k:?}"))) {
            out.push(format!("{k:?}: {} vs {}", x.map_or("absent".to_string(), |f| format!("{:?}", f.keys().collect::<Vec<_>>())), y.map_or("absent".to_string(), |f| format!("{:?}", f.keys().collect::<Vec<_>>()))));
        }
        if out.len() >= 4 {
            break;
        }
    }
    let ta: Vec<_> = a.rel.iter().map(|(t, r)| (t.clone(), r.rows.len())).collect();
    let tb: Vec<_> = b.rel.iter().map(|(t, r)| (t.clone(), r.rows.len())).collect();
    if ta != tb {
        out.push(format!("tables {ta:?} vs {tb:?}"));
    }
    if a.slab.keys().ne(b.slab.keys()) {
        out.push(format!("slab keys {:?} vs {:?}", a.slab.keys().collect::<Vec<_>>(), b.slab.keys().collect::<Vec<_>>()));
    }
    if a.gt_edges != b.gt_edges || a.gt_out != b.gt_out || a.gt_in != b.gt_in {
        out.push(format!("graph tensor {} edges out {:?} in {:?} vs {} edges out {:?} in {:?}", a.gt_edges, a.gt_out, a.gt_in, b.gt_edges, b.gt_out, b.gt_in));
    }
    if a.blobs != b.blobs {
        out.push("blob log chunks differ".to_string());
    }
    if out.is_empty() {
        out.push(format!("first differing part: {}", diff_component(a, b)));
    }
    out.join("; ")
}
