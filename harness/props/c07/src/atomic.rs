//! Atomicity of snapshot replacement under an interrupted save.
//!
//! A previous snapshot P is saved at `path`; new content N is then saved to the same path inside a
//! child process whose RLIMIT_FSIZE is L: the kernel kills the child with SIGXFSZ at the instant a
//! file it writes would grow past L bytes. Afterwards the parent loads `path`: it must load, and
//! the loaded state must be P entirely or N entirely.

use crate::model::{build, small_content_strategy, tiny_content_strategy, Built, Content, Probes};
use crate::obs::{observe_router, same_state, state_diff, RouterObs};
use nv_engine::crashkit::{cut_points, run_child, set_file_size_limit};
use nv_engine::{scratch, CaseCtx, Fail, Tier};
use proptest::prelude::*;
use serde::{Deserialize, Serialize};
use std::path::{Path, PathBuf};
use tensor_store::TensorStore;

const SIGXFSZ: i32 = 25;
pub const WRITERS: [&str; 4] = ["save_snapshot", "save_v3_uncompressed", "save_snapshot_compressed", "checkpoint"];
const PATHS: [&str; 4] = ["snap.bin", "snapshot", "db.v2.snap", "snap.tmp"];

#[derive(Clone, Debug, Serialize, Deserialize)]
pub enum Lim {
    /// absolute byte limit
    Abs(u64),
    /// S plus this, where S is the exact size of the snapshot the child is about to write (the child
    /// measures it with an unlimited trial save: the compressed size varies by a few bytes from
    /// process to process with the hash-map field order)
    FromEnd(i8),
    /// strictly inside the payload: header + 1 + scaled into the rest
    Interior(u16),
}

#[derive(Clone, Debug, Serialize, Deserialize)]
pub struct KillCase {
    pub prev: Content,
    pub next: Content,
    pub writer: u8,
    pub path: u8,
    pub lim: Lim,
}

#[derive(Clone, Debug, Serialize, Deserialize)]
pub struct KillAllCase {
    pub prev: Content,
    pub next: Content,
    pub writer: u8,
    pub path: u8,
    /// every byte limit is enumerated for snapshots up to this size; stratified above. For the two
    /// zstd writers the decision is taken on the uncompressed size (the same in every process, about
    /// 4x the compressed one), i.e. against 4 * all_up_to
    pub all_up_to: u16,
}

fn writer_path() -> impl Strategy<Value = (u8, u8)> {
    (prop_oneof![5 => Just(0u8), 3 => Just(1u8), 3 => Just(2u8), 2 => Just(3u8)], prop_oneof![6 => Just(0u8), 3 => Just(1u8), 3 => Just(2u8), 1 => Just(3u8)])
}

pub fn kill_strategy(_t: Tier) -> impl Strategy<Value = KillCase> {
    let lim = prop_oneof![
        3 => (0u64..48).prop_map(Lim::Abs),
        9 => any::<u16>().prop_map(Lim::Interior),
        2 => Just(Lim::FromEnd(-1)),
        2 => Just(Lim::FromEnd(0)),
        3 => (-12i8..=3).prop_map(Lim::FromEnd),
    ];
    (small_content_strategy(), small_content_strategy(), writer_path(), lim).prop_map(|(prev, next, (writer, path), lim)| KillCase { prev, next, writer, path, lim })
}

pub fn kill_all_strategy(t: Tier) -> impl Strategy<Value = KillAllCase> {
    let all_up_to = t.pick(350u16, 3_000u16);
    (tiny_content_strategy(), tiny_content_strategy(), writer_path()).prop_map(move |(prev, next, (writer, path))| KillAllCase { prev, next, writer, path, all_up_to })
}

fn quant_config() -> tensor_compress::CompressionConfig {
    tensor_compress::CompressionConfig { tensor_mode: None, delta_encoding: true, rle_encoding: true }
}

fn save(store: &TensorStore, writer: u8, path: &Path) -> Result<(), String> {
    match writer % 4 {
        0 => store.save_snapshot(path).map_err(|e| e.to_string()),
        1 => tensor_store::snapshot::save_v3_uncompressed(store.router(), path).map_err(|e| e.to_string()),
        2 => store.save_snapshot_compressed(path, quant_config()).map_err(|e| e.to_string()),
        _ => store.checkpoint(path).map(|_| ()).map_err(|e| e.to_string()),
    }
}

fn load(writer: u8, path: &Path) -> Result<TensorStore, String> {
    match writer % 4 {
        2 => TensorStore::load_snapshot_compressed(path).map_err(|e| e.to_string()),
        _ => TensorStore::load_snapshot(path).map_err(|e| e.to_string()),
    }
}

fn header_len(writer: u8) -> u64 {
    if writer % 4 == 2 {
        0
    } else {
        20
    }
}

#[derive(Serialize, Deserialize)]
struct Job {
    content: Content,
    writer: u8,
    path: String,
}

/// Child entry point: `child save <jobfile> <limit as JSON>`; exit 0 = the save returned Ok, 3 = it
/// returned Err. Prints "<S> <L>" (exact snapshot size, limit used) before the limited save.
pub fn child_save(args: &[String]) -> i32 {
    let Some(text) = args.first().and_then(|p| std::fs::read_to_string(p).ok()) else { return 2 };
    let Ok(job) = serde_json::from_str::<Job>(&text) else { return 2 };
    let Some(lim) = args.get(1).and_then(|s| serde_json::from_str::<Lim>(s).ok()) else { return 2 };
    let built = build(&job.content);
    let path = Path::new(&job.path);
    // trial save next to the target (own directory, so its temporary file is not the target's);
    // not needed for absolute limits
    let s = if matches!(lim, Lim::Abs(_)) {
        0
    } else {
        let probe_dir = path.parent().unwrap_or(Path::new(".")).join("probe");
        let _ = std::fs::create_dir_all(&probe_dir);
        let probe = probe_dir.join(path.file_name().unwrap_or_default());
        if let Err(e) = save(&built.store, job.writer, &probe) {
            eprintln!("trial save failed: {e}");
            return 2;
        }
        std::fs::metadata(&probe).map(|m| m.len()).unwrap_or(0)
    };
    let hdr = header_len(job.writer);
    let limit = match lim {
        Lim::Abs(a) => a,
        Lim::FromEnd(d) => (s as i64 + i64::from(d)).max(0) as u64,
        Lim::Interior(f) => {
            if s > hdr + 1 {
                hdr + 1 + nv_engine::pick(f, (s - hdr - 1) as usize) as u64
            } else {
                s.saturating_sub(1)
            }
        },
    };
    println!("{s} {limit}");
    use std::io::Write;
    let _ = std::io::stdout().flush();
    if limit != u64::MAX {
        set_file_size_limit(limit);
    }
    match save(&built.store, job.writer, path) {
        Ok(()) => 0,
        Err(e) => {
            eprintln!("save failed: {e}");
            3
        },
    }
}

struct Env {
    _dir: scratch::Dir,
    path: PathBuf,
    job: PathBuf,
    writer: u8,
    tmp_path_is_target: bool,
    p_bytes: Vec<u8>,
    p_obs: RouterObs,
    n_obs: RouterObs,
    n_len: u64,
    /// size of the uncompressed v3 form of the new content (identical in every process)
    n_raw_len: u64,
    next: Built,
    probes: Probes,
}

#[derive(PartialEq, Clone, Copy)]
enum Outcome {
    Prev,
    New,
}

struct Run {
    outcome: Outcome,
    killed: bool,
    /// exact size of the snapshot the child wrote / would have written
    size: u64,
    limit: u64,
}

impl Env {
    fn prepare(prev: &Content, next: &Content, writer: u8, pathk: u8) -> Result<Env, Fail> {
        let h = |e: String| Fail::new("harness", e);
        let dir = scratch::Dir::new("c07kill");
        let name = PATHS[pathk as usize % PATHS.len()];
        let path = dir.join(name);
        let refdir = dir.join("ref");
        std::fs::create_dir_all(&refdir).map_err(|e| h(e.to_string()))?;
        let p = build(prev);
        let n = build(next);
        let mut probes = p.probes.clone();
        probes.blob_hashes.extend(n.probes.blob_hashes.iter().copied());
        // the previous snapshot, written by the real writer
        save(&p.store, writer, &path).map_err(|e| Fail::new("save-failed", format!("saving the previous snapshot failed: {e}")))?;
        let p_bytes = std::fs::read(&path).map_err(|e| h(e.to_string()))?;
        let p_obs = observe_router(load(writer, &path).map_err(|e| Fail::new("load-failed", format!("the previous snapshot does not load: {e}")))?.router(), &probes, true);
        // reference of the new snapshot
        let nref = refdir.join(name);
        save(&n.store, writer, &nref).map_err(|e| Fail::new("save-failed", format!("saving the new snapshot failed: {e}")))?;
        let n_len = std::fs::metadata(&nref).map(|m| m.len()).map_err(|e| h(e.to_string()))?;
        let n_obs = observe_router(load(writer, &nref).map_err(|e| Fail::new("load-failed", format!("the new snapshot does not load: {e}")))?.router(), &probes, true);
        let nraw = refdir.join("raw-size-probe");
        tensor_store::snapshot::save_v3_uncompressed(n.store.router(), &nraw).map_err(|e| Fail::new("save-failed", format!("saving the new snapshot uncompressed failed: {e}")))?;
        let n_raw_len = std::fs::metadata(&nraw).map(|m| m.len()).map_err(|e| h(e.to_string()))?;
        let job = dir.join("job.json");
        let text = serde_json::to_string(&Job { content: next.clone(), writer, path: path.display().to_string() }).map_err(|e| h(e.to_string()))?;
        std::fs::write(&job, text).map_err(|e| h(e.to_string()))?;
        let tmp_path_is_target = path.with_extension("tmp") == path;
        Ok(Env { _dir: dir, path, job, writer, tmp_path_is_target, p_bytes, p_obs, n_obs, n_len, n_raw_len, next: n, probes })
    }

    fn sig(&self, what: &str) -> String {
        if self.tmp_path_is_target && what.starts_with("torn:") {
            // one root cause whatever the writer: the temporary name equals the target
            return "torn:path-has-tmp-extension".to_string();
        }
        format!("{what}:{}", WRITERS[self.writer as usize % 4])
    }

    /// One interrupted save. Returns (outcome, killed, exact size of the child's snapshot, limit used).
    fn run(&self, lim: &Lim, ctx: &mut CaseCtx) -> Result<Option<Run>, Fail> {
        std::fs::write(&self.path, &self.p_bytes).map_err(|e| Fail::new("harness", e.to_string()))?;
        let lim_json = serde_json::to_string(lim).map_err(|e| Fail::new("harness", e.to_string()))?;
        let r = run_child("save", &[self.job.display().to_string(), lim_json], &[]).map_err(|e| Fail::new("harness", format!("cannot run the child: {e}")))?;
        let killed = r.signal == Some(SIGXFSZ);
        let completed = r.code == Some(0);
        let mut nums = r.stdout.split_whitespace().filter_map(|x| x.parse::<u64>().ok());
        let (Some(size), Some(l)) = (nums.next(), nums.next()) else {
            return Err(Fail::new("harness:child", format!("child gave no size/limit line: code {:?} signal {:?} stdout {:?} stderr {:?}", r.code, r.signal, r.stdout, r.stderr.lines().last())));
        };
        if !killed && !completed && r.code != Some(3) {
            return Err(Fail::new("child-died-unexpectedly", format!("limit {l}: child ended with code {:?} signal {:?}: {}", r.code, r.signal, r.stderr.lines().last().unwrap_or(""))));
        }
        let status = if killed { "killed by SIGXFSZ".to_string() } else { format!("exit code {:?}", r.code) };
        let flen = std::fs::metadata(&self.path).map(|m| m.len()).unwrap_or(0);
        let new_size = if size == 0 { format!("about {}", self.n_len) } else { size.to_string() };
        let describe = || format!("{} to {:?} with RLIMIT_FSIZE={l} ({status}); previous snapshot {} bytes, new snapshot {new_size} bytes, file now {flen} bytes", WRITERS[self.writer as usize % 4], self.path.file_name().unwrap_or_default(), self.p_bytes.len());
        let loaded = match load(self.writer, &self.path) {
            Ok(s) => s,
            Err(e) => {
                ctx.fail(self.sig("torn:unreadable"), format!("{}: the path no longer loads: {e}", describe()))?;
                return Ok(None);
            },
        };
        let obs = observe_router(loaded.router(), &self.probes, true);
        let is_new = same_state(&obs, &self.n_obs);
        let is_prev = same_state(&obs, &self.p_obs);
        if !is_new && !is_prev {
            ctx.fail(self.sig("torn:mixture"), format!("{}: the loaded state is neither the previous nor the new snapshot; vs previous: {}; vs new: {}", describe(), state_diff(&obs, &self.p_obs), state_diff(&obs, &self.n_obs)))?;
            return Ok(None);
        }
        if completed && !is_new {
            ctx.fail(self.sig("completed-save-not-visible"), format!("{}: the save returned Ok but the path still holds the previous snapshot", describe()))?;
            return Ok(None);
        }
        Ok(Some(Run { outcome: if is_new { Outcome::New } else { Outcome::Prev }, killed, size, limit: l }))
    }

    /// After the interrupted saves (stale temporary files may be lying around) an ordinary save of
    /// the new content must go through and be what loads.
    fn resave(&self, ctx: &mut CaseCtx) -> Result<(), Fail> {
        if let Err(e) = save(&self.next.store, self.writer, &self.path) {
            return ctx.fail(self.sig("save-after-interrupted-save-failed"), format!("saving again after interrupted saves failed: {e}"));
        }
        match load(self.writer, &self.path) {
            Err(e) => ctx.fail(self.sig("save-after-interrupted-save-unreadable"), format!("the snapshot saved after interrupted saves does not load: {e}")),
            Ok(s) => {
                let obs = observe_router(s.router(), &self.probes, true);
                if same_state(&obs, &self.n_obs) {
                    Ok(())
                } else {
                    ctx.fail(self.sig("save-after-interrupted-save-differs"), format!("the snapshot saved after interrupted saves differs from the new content: {}", state_diff(&obs, &self.n_obs)))
                }
            },
        }
    }

    fn labels(&self, ctx: &mut CaseCtx) {
        ctx.label(format!("writer:{}", WRITERS[self.writer as usize % 4]));
        ctx.label(format!("path:{}", self.path.file_name().and_then(|s| s.to_str()).unwrap_or("")));
        if same_state(&self.p_obs, &self.n_obs) {
            ctx.label("previous and new snapshot hold the same state");
        }
        let classes = crate::model::counted_classes(&self.next.probes);
        ctx.label(format!("new content data classes:{}", classes.min(4)));
    }
}

pub fn kill_check(c: &KillCase, ctx: &mut CaseCtx) -> Result<(), Fail> {
    let env = Env::prepare(&c.prev, &c.next, c.writer, c.path)?;
    env.labels(ctx);
    ctx.label(match c.lim {
        Lim::Abs(_) => "limit: 0..48 (around the header)",
        Lim::Interior(_) => "limit: strictly inside the payload",
        Lim::FromEnd(_) => "limit: within -12..+3 of the new snapshot's exact size",
    });
    if let Some(r) = env.run(&c.lim, ctx)? {
        ctx.label(if r.outcome == Outcome::New { "outcome: new snapshot" } else { "outcome: previous snapshot" });
        ctx.label(if r.killed { "child killed by SIGXFSZ" } else { "child completed" });
        if r.size > 0 && r.killed != (r.limit < r.size) {
            // the writers produce one file: the child dies iff the limit is below the snapshot's size
            ctx.label("kill/size relation unexpected");
        }
        if r.killed && r.limit > header_len(c.writer) {
            ctx.label("save killed strictly inside the payload");
            ctx.set_nontrivial();
        } else if r.killed {
            ctx.label("save killed inside the header");
        }
        if let Lim::FromEnd(d) = c.lim {
            ctx.label(match d {
                -1 => "limit = size - 1",
                0 => "limit = size",
                _ => "limit near size",
            });
        }
    }
    env.resave(ctx)
}

pub fn kill_all_check(c: &KillAllCase, ctx: &mut CaseCtx) -> Result<(), Fail> {
    let env = Env::prepare(&c.prev, &c.next, c.writer, c.path)?;
    env.labels(ctx);
    // the parent knows the size only up to the process-to-process variation of the compressed form;
    // the class decisions below use the uncompressed size, which is the same in every process
    let end = env.n_len + 16;
    let zstd_writer = matches!(c.writer % 4, 0 | 3);
    let every = if zstd_writer { env.n_raw_len <= 4 * u64::from(c.all_up_to) } else { env.n_len <= u64::from(c.all_up_to) };
    let limits: Vec<u64> = if every {
        ctx.label("every byte limit enumerated");
        (0..=end).collect()
    } else {
        ctx.label("stratified byte limits");
        let mut v: Vec<usize> = cut_points(0, end as usize, false, 60, &[20, env.n_len as usize]);
        v.extend((0..40).map(|k| (end as usize).saturating_sub(k)));
        v.sort_unstable();
        v.dedup();
        v.into_iter().map(|x| x as u64).collect()
    };
    let mut kills_in_payload = 0u64;
    let mut completed = false;
    for l in &limits {
        if let Some(r) = env.run(&Lim::Abs(*l), ctx)? {
            if r.killed {
                if *l > header_len(c.writer) {
                    kills_in_payload += 1;
                }
            } else {
                completed = true;
            }
        }
        if ctx.known_hit() {
            break;
        }
    }
    if completed {
        ctx.label("the largest limits let the save complete");
    }
    if kills_in_payload > 0 {
        ctx.set_nontrivial();
    }
    // one more unlimited run in a child: must end with the new snapshot
    if let Some(r) = env.run(&Lim::Abs(u64::MAX), ctx)? {
        if r.outcome != Outcome::New {
            ctx.fail(env.sig("completed-save-not-visible"), "unlimited child save did not install the new snapshot".to_string())?;
        }
    }
    env.resave(ctx)
}
