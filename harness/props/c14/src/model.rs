//! Independent access model, written from the documentation of tensor_vault
//! (docs/book/src/architecture/tensor-vault.md: "Access Control Model", "Permission Levels",
//! "Allowed Traversal Edges", "Distance-Based Attenuation", "Delegation", "TTL Grant Tracking").
//!
//! perm(r, s) = Admin for the root identity; otherwise the maximum, over every principal g
//! reachable from r over MEMBER edges (breadth-first distance d, r itself at d = 0) and every
//! live grant g -> s of level L, of attenuate(L, d + 1); nothing beyond the horizon.
//!
//! Two grant tables are kept. `up` gives every grant its own life (a grant ends when it is
//! revoked, when its own TTL passes, when its delegation is revoked, or when the secret is
//! deleted). `lo` is the weakest reading of the documentation: reaping an expired TTL grant, or
//! revoking a delegation, may take every grant of that (principal, secret) pair with it (the
//! documented cleanup code deletes all VAULT_ACCESS edges of the pair). The product must always
//! lie between the two; where they agree the decision is definite.

use std::collections::{BTreeMap, BTreeSet, VecDeque};
use std::time::{Duration, Instant};

pub const READ: u8 = 1;
pub const WRITE: u8 = 2;
pub const ADMIN: u8 = 3;

#[derive(Clone, Debug)]
pub struct Policy {
    pub admin_limit: usize,
    pub write_limit: usize,
    pub horizon: usize,
}

impl Policy {
    /// The documented rule: beyond the horizon nothing; Admin survives up to admin_limit hops and
    /// then degrades to Write; Write survives up to write_limit hops and then degrades to Read.
    pub fn attenuate(&self, level: u8, hops: usize) -> u8 {
        if hops > self.horizon {
            return 0;
        }
        match level {
            ADMIN if hops > self.admin_limit => self.attenuate(WRITE, hops),
            WRITE if hops > self.write_limit => READ,
            other => other,
        }
    }
}

#[derive(Clone, Debug)]
pub struct G {
    pub level: u8,
    /// delegating parent (principal index) for a delegated grant
    pub deleg: Option<usize>,
    /// id of the short-TTL entry this grant lives by
    pub entry: Option<u32>,
}

#[derive(Clone, Copy, Debug, PartialEq, Eq)]
pub enum EState {
    /// certainly not expired when last looked at
    Live,
    /// may or may not have expired (the case was stalled for about the TTL)
    Maybe,
    /// certainly expired; not yet seen a reaping point (get/list)
    Expired,
}

#[derive(Clone, Debug)]
pub struct Entry {
    pub id: u32,
    pub p: usize,
    pub s: usize,
    pub state: EState,
    pub before: Instant,
    pub after: Instant,
}

pub type Table = BTreeMap<(usize, usize), Vec<G>>;

#[derive(Clone, Debug)]
pub struct Sec {
    pub name: String,
    pub exists: bool,
    pub value: String,
    /// entity key of the secret's graph node, discovered through the public graph API
    pub node_key: Option<String>,
}

pub struct Model {
    pub policy: Policy,
    /// principal names; index 0 is the root identity
    pub names: Vec<String>,
    pub secrets: Vec<Sec>,
    pub up: Table,
    pub lo: Table,
    /// MEMBER edges between principals: (from, to) -> multiplicity
    pub members: BTreeMap<(usize, usize), u32>,
    /// other harness-made edges between principals: (from, to, type index) -> multiplicity
    pub other_pp: BTreeMap<(usize, usize, u8), u32>,
    /// harness-made non-access edges from a principal straight to a secret node
    pub other_ps: BTreeMap<(usize, usize, u8), u32>,
    /// delegation records: (parent, child) -> every secret delegated while the record lives
    pub deleg: BTreeMap<(usize, usize), Vec<usize>>,
    /// secrets named by the LAST delegate() call of the pair (classification of a failure only:
    /// the record used to be overwritten by a repeated call)
    pub deleg_last: BTreeMap<(usize, usize), Vec<usize>>,
    pub entries: Vec<Entry>,
    next_entry: u32,
    /// expired grants that have not seen a reaping point yet: (principal, secret, level)
    pub stale: Vec<(usize, usize, u8)>,
    /// delegated grants ended by revoke_delegation although the (overwritten) record no longer
    /// listed their secret: (child, secret, level) — used to classify a failure only
    pub orphans: Vec<(usize, usize, u8)>,
    pub ttl_short: Duration,
}

#[derive(Clone, Copy, Debug, PartialEq, Eq)]
pub struct Decision {
    /// best level and the membership distance it was reached at
    pub level: u8,
    pub dist: usize,
}

/// Hypotheses that can be switched on (singly or combined) when computing a permission. The
/// plain model uses none of them; they exist only to classify a failure.
#[derive(Clone, Copy, PartialEq, Eq, Debug)]
pub struct Extra(pub u8);

#[allow(non_upper_case_globals)]
impl Extra {
    pub const None: Extra = Extra(0);
    /// count stale (expired, not yet reaped) grants as live
    pub const Stale: Extra = Extra(1);
    /// count grants of a delegation that was revoked but whose record no longer listed the secret
    pub const Orphans: Extra = Extra(2);
    /// treat every harness-made edge between principals whose type starts with "MEMBER" as membership
    pub const MemberPrefixed: Extra = Extra(4);
    /// treat a non-access edge pointing at the secret as a grant
    pub const EdgeToSecret: Extra = Extra(8);
    /// treat every harness-made edge between principals as membership
    pub const AnyEdge: Extra = Extra(16);

    pub fn has(self, o: Extra) -> bool {
        self.0 & o.0 != 0
    }
    pub fn with(self, o: Extra) -> Extra {
        Extra(self.0 | o.0)
    }
}

impl Model {
    pub fn new(policy: Policy, names: Vec<String>, secrets: Vec<Sec>, ttl_short: Duration) -> Self {
        Self {
            policy,
            names,
            secrets,
            up: Table::new(),
            lo: Table::new(),
            members: BTreeMap::new(),
            other_pp: BTreeMap::new(),
            other_ps: BTreeMap::new(),
            deleg: BTreeMap::new(),
            deleg_last: BTreeMap::new(),
            entries: Vec::new(),
            next_entry: 0,
            stale: Vec::new(),
            orphans: Vec::new(),
            ttl_short,
        }
    }

    fn pair_in_doubt(&self, p: usize, s: usize) -> bool {
        self.entries.iter().any(|e| e.p == p && e.s == s && e.state != EState::Live)
    }

    /// Breadth-first distances over membership edges from `r`.
    fn distances(&self, r: usize, extra: Extra, other_types: &[&str]) -> BTreeMap<usize, usize> {
        let mut dist = BTreeMap::new();
        dist.insert(r, 0usize);
        let mut q = VecDeque::new();
        q.push_back(r);
        while let Some(cur) = q.pop_front() {
            let d = dist[&cur];
            let mut next: BTreeSet<usize> = BTreeSet::new();
            for (&(f, t), &n) in &self.members {
                if f == cur && n > 0 {
                    next.insert(t);
                }
            }
            if extra.has(Extra::MemberPrefixed) || extra.has(Extra::AnyEdge) {
                for (&(f, t, ty), &n) in &self.other_pp {
                    if f == cur && n > 0 {
                        let name = other_types[ty as usize];
                        if extra.has(Extra::AnyEdge) || name.starts_with("MEMBER") {
                            next.insert(t);
                        }
                    }
                }
            }
            for t in next {
                if let std::collections::btree_map::Entry::Vacant(v) = dist.entry(t) {
                    v.insert(d + 1);
                    q.push_back(t);
                }
            }
        }
        dist
    }

    fn perm_in(&self, table: &Table, lower: bool, r: usize, s: usize, extra: Extra, other_types: &[&str]) -> Decision {
        if r == 0 {
            return Decision { level: ADMIN, dist: 0 };
        }
        let mut best = Decision { level: 0, dist: 0 };
        if !self.secrets[s].exists {
            return best;
        }
        let dist = self.distances(r, extra, other_types);
        for (&g, &d) in &dist {
            let hops = d + 1;
            let mut consider = |level: u8| {
                let eff = self.policy.attenuate(level, hops);
                if eff > best.level || (eff == best.level && eff > 0 && d < best.dist) {
                    best = Decision { level: eff, dist: d };
                }
            };
            if !(lower && self.pair_in_doubt(g, s)) {
                if let Some(gs) = table.get(&(g, s)) {
                    for gr in gs {
                        consider(gr.level);
                    }
                }
            }
            if extra.has(Extra::Stale) {
                for &(p, ss, level) in &self.stale {
                    if p == g && ss == s {
                        consider(level);
                    }
                }
            }
            if extra.has(Extra::Orphans) {
                for &(p, ss, level) in &self.orphans {
                    if p == g && ss == s {
                        consider(level);
                    }
                }
            }
            if extra.has(Extra::EdgeToSecret) {
                for (&(f, ss, _), &n) in &self.other_ps {
                    if f == g && ss == s && n > 0 {
                        consider(ADMIN);
                    }
                }
            }
        }
        best
    }

    pub fn perm_up(&self, r: usize, s: usize) -> Decision {
        self.perm_in(&self.up, false, r, s, Extra::None, &[])
    }
    pub fn perm_lo(&self, r: usize, s: usize) -> Decision {
        self.perm_in(&self.lo, true, r, s, Extra::None, &[])
    }
    pub fn perm_extra(&self, r: usize, s: usize, extra: Extra, other_types: &[&str]) -> Decision {
        self.perm_in(&self.up, false, r, s, extra, other_types)
    }

    /// Does `r` have any outgoing membership edge (used for the "membership alone" class)?
    pub fn has_membership(&self, r: usize) -> bool {
        self.members.iter().any(|(&(f, _), &n)| f == r && n > 0)
    }

    // ----- state changes ---------------------------------------------------------------

    pub fn create_secret(&mut self, s: usize, value: String) {
        self.secrets[s].exists = true;
        self.secrets[s].value = value;
        // "Root always has Admin access to secrets it creates": an ordinary edge root -> secret
        let g = G { level: ADMIN, deleg: None, entry: None };
        self.up.entry((0, s)).or_default().push(g.clone());
        self.lo.entry((0, s)).or_default().push(g);
    }

    pub fn new_entry(&mut self, p: usize, s: usize, before: Instant, after: Instant) -> u32 {
        let id = self.next_entry;
        self.next_entry += 1;
        self.entries.push(Entry { id, p, s, state: EState::Live, before, after });
        id
    }

    pub fn add_grant(&mut self, p: usize, s: usize, g: G) {
        self.up.entry((p, s)).or_default().push(g.clone());
        self.lo.entry((p, s)).or_default().push(g);
    }

    fn forget_pair(&mut self, p: usize, s: usize) {
        self.up.remove(&(p, s));
        self.lo.remove(&(p, s));
        self.entries.retain(|e| !(e.p == p && e.s == s));
        self.stale.retain(|&(pp, ss, _)| !(pp == p && ss == s));
        self.orphans.retain(|&(pp, ss, _)| !(pp == p && ss == s));
    }

    pub fn revoke(&mut self, p: usize, s: usize) {
        self.forget_pair(p, s);
    }

    pub fn delete_secret(&mut self, s: usize) {
        self.secrets[s].exists = false;
        self.secrets[s].value.clear();
        let pairs: Vec<(usize, usize)> =
            self.up.keys().chain(self.lo.keys()).filter(|k| k.1 == s).cloned().collect();
        for (p, ss) in pairs {
            self.forget_pair(p, ss);
        }
        self.entries.retain(|e| e.s != s);
        self.stale.retain(|&(_, ss, _)| ss != s);
        self.orphans.retain(|&(_, ss, _)| ss != s);
        self.other_ps.retain(|k, _| k.1 != s);
    }

    /// The parent chain above `p` in the delegation forest reaches `anc`.
    pub fn is_deleg_ancestor(&self, anc: usize, p: usize) -> bool {
        let mut cur = p;
        let mut seen = BTreeSet::new();
        seen.insert(cur);
        loop {
            let parent = self.deleg.keys().find(|k| k.1 == cur).map(|k| k.0);
            match parent {
                Some(pp) if pp == anc => return true,
                Some(pp) => {
                    if !seen.insert(pp) {
                        return false;
                    }
                    cur = pp;
                },
                None => return false,
            }
        }
    }

    pub fn deleg_parent_of(&self, child: usize) -> Option<usize> {
        self.deleg.keys().find(|k| k.1 == child).map(|k| k.0)
    }

    /// "Revoke a delegation from parent to child": every grant the child holds by delegation from
    /// this parent ends (upper table). The record of a repeated delegate() call only lists the
    /// secrets of the last call; grants of earlier calls are remembered as orphans for classification.
    ///
    /// `upper = false`: the record goes and the lower table loses the grants, but the upper table
    /// keeps them (used for the descendants swept by a cascading revocation whose head delegation
    /// does not exist: nothing the caller named was revoked, so keeping them is a legitimate reading).
    fn drop_delegation(&mut self, parent: usize, child: usize, upper: bool) {
        let Some(secs) = self.deleg.remove(&(parent, child)) else { return };
        let last = self.deleg_last.remove(&(parent, child)).unwrap_or_default();
        let mut dead_entries = Vec::new();
        let mut orphans = Vec::new();
        for (&(p, s), gs) in self.up.iter_mut() {
            if p != child || !upper {
                continue;
            }
            gs.retain(|g| {
                if g.deleg == Some(parent) {
                    if let Some(e) = g.entry {
                        dead_entries.push(e);
                    }
                    if !last.contains(&s) {
                        orphans.push((child, s, g.level));
                    }
                    false
                } else {
                    true
                }
            });
        }
        self.orphans.extend(orphans);
        self.entries.retain(|e| !dead_entries.contains(&e.id));
        for (&(p, s), gs) in self.lo.iter_mut() {
            if p == child {
                if secs.contains(&s) {
                    // the revocation may take every grant of the pair with it
                    gs.clear();
                } else {
                    gs.retain(|g| g.deleg != Some(parent));
                }
            }
        }
        for s in secs {
            // stale leftovers of the pair are gone as well (the edges are deleted)
            self.stale.retain(|&(pp, ss, _)| !(pp == child && ss == s));
        }
    }

    pub fn revoke_delegation(&mut self, parent: usize, child: usize, cascade: bool) {
        let head_exists = self.deleg.contains_key(&(parent, child));
        self.drop_delegation(parent, child, true);
        if cascade {
            let mut q = VecDeque::new();
            q.push_back(child);
            while let Some(cur) = q.pop_front() {
                let kids: Vec<usize> = self.deleg.keys().filter(|k| k.0 == cur).map(|k| k.1).collect();
                for k in kids {
                    self.drop_delegation(cur, k, head_exists);
                    q.push_back(k);
                }
            }
        }
    }

    // ----- time -------------------------------------------------------------------------

    /// Before an operation: entries whose TTL certainly passed become Expired (their grants leave
    /// `up` and are remembered as stale).
    pub fn refresh_before(&mut self, now: Instant) {
        let ttl = self.ttl_short;
        let mut newly = Vec::new();
        for e in &mut self.entries {
            if e.state != EState::Expired && now.duration_since(e.after) >= ttl {
                e.state = EState::Expired;
                newly.push(e.id);
            }
        }
        for id in newly {
            for ((p, s), gs) in self.up.iter_mut() {
                let mut moved = Vec::new();
                gs.retain(|g| {
                    if g.entry == Some(id) {
                        moved.push(g.level);
                        false
                    } else {
                        true
                    }
                });
                for l in moved {
                    self.stale.push((*p, *s, l));
                }
            }
        }
    }

    /// After an operation: entries that may have expired while it ran are no longer certain.
    pub fn refresh_after(&mut self, now: Instant) -> bool {
        let ttl = self.ttl_short;
        let margin = Duration::from_millis(15);
        let mut any = false;
        for e in &mut self.entries {
            if e.state == EState::Live && now.duration_since(e.before) + margin >= ttl {
                e.state = EState::Maybe;
                any = true;
            }
        }
        any
    }

    /// A documented reaping point (get / list) ran: every certainly-expired entry is consumed.
    pub fn reap(&mut self) {
        let dead: Vec<(u32, usize, usize)> =
            self.entries.iter().filter(|e| e.state == EState::Expired).map(|e| (e.id, e.p, e.s)).collect();
        for (id, p, s) in dead {
            self.lo.remove(&(p, s));
            self.stale.retain(|&(pp, ss, _)| !(pp == p && ss == s));
            self.entries.retain(|e| e.id != id);
        }
    }

    pub fn has_unexpired_short(&self) -> bool {
        self.entries.iter().any(|e| e.state != EState::Expired)
    }
}
