//! Case type (what is written to the replay file) and the proptest strategies.

use proptest::prelude::*;
use serde::{Deserialize, Serialize};

/// A principal: the root identity, one of the 3-5 identities, or one of the 1-3 groups.
/// Indices are mapped with `nv_engine::pick` onto the case's identity / group count.
#[derive(Clone, Debug, Serialize, Deserialize, PartialEq, Eq)]
pub enum P {
    Root,
    U(u16),
    G(u16),
}

#[derive(Clone, Copy, Debug, Serialize, Deserialize, PartialEq, Eq)]
pub enum Ttl {
    None,
    /// 1 hour: never expires within a case
    Long,
    /// `TTL_SHORT_MS`: expires within the case once the harness sleeps past it
    Short,
}

#[derive(Clone, Debug, Serialize, Deserialize, PartialEq, Eq)]
pub enum Size {
    /// marker + tail
    Plain,
    /// padded with ASCII to this many bytes (if longer than marker + tail)
    Fill(u16),
    /// padded to max_value_size + delta bytes
    Limit(i8),
}

#[derive(Clone, Debug, Serialize, Deserialize, PartialEq, Eq)]
pub struct Val {
    pub tail: String,
    pub size: Size,
}

#[derive(Clone, Debug, Serialize, Deserialize, PartialEq, Eq)]
pub enum Pat {
    All,
    Empty,
    /// "<namespace prefix of secret>*" (falls back to All for un-namespaced secrets)
    Prefix(u16),
    /// the exact name of a secret
    Exact(u16),
    /// a name that no secret has
    Missing,
}

#[derive(Clone, Debug, Serialize, Deserialize, PartialEq, Eq)]
pub enum Tgt {
    P(P),
    Sec(u16),
}

#[derive(Clone, Debug, Serialize, Deserialize, PartialEq, Eq)]
pub enum Op {
    Set { req: P, sec: u16, val: Val, view: bool },
    Get { req: P, sec: u16, view: bool },
    List { req: P, pat: Pat },
    Rotate { req: P, sec: u16, val: Val, view: bool },
    Delete { req: P, sec: u16, view: bool },
    Grant { req: P, to: P, sec: u16, lvl: u8, ttl: Ttl, view: bool },
    Revoke { req: P, to: P, sec: u16, view: bool },
    Delegate { parent: P, child: P, secs: Vec<u16>, lvl: u8, ttl: Ttl },
    /// `existing`: pick one of the recorded delegations by `which` (if any) instead of (parent, child)
    RevokeDeleg { parent: P, child: P, cascade: bool, existing: bool, which: u16 },
    AddMember { from: P, to: P },
    /// `existing`: remove the `which`-th harness-made MEMBER edge (if any) instead of one from -> to
    RemoveMember { from: P, to: P, existing: bool, which: u16 },
    /// an edge that must NOT confer anything: a non-allow-listed type between principals, or any
    /// non-VAULT_ACCESS type (MEMBER included) pointing straight at a secret node
    OtherEdge { from: P, to: Tgt, ty: u8 },
    /// get_permission
    Probe { req: P, sec: u16 },
    /// confidentiality scan of the store image in the middle of the history
    Scan,
    /// sleep past the short TTL (only if a short-TTL grant is outstanding; at most 2 per case);
    /// `poke`: root reads afterwards (the documented point at which expired grants are reaped)
    Sleep { poke: bool },
    /// the same sleep spent SEALED: seal, sleep past the short TTL, one get_permission while
    /// sealed (it is not seal-guarded and runs the expiry sweep), unseal with the master password.
    /// Expired grants must be as dead after the cycle as after a plain sleep.
    SealedSleep,
    /// sleep past the short TTL, then open a new Vault over the same store and graph
    ClosedSleep,
    /// root issues the same short-lived grant 20 times in a row (each one is a tracker entry of its
    /// own): a backlog of expiries larger than any batch an expiry sweep might work in
    GrantBurst { to: P, sec: u16, lvl: u8 },
}

#[derive(Clone, Debug, Serialize, Deserialize, PartialEq, Eq)]
pub struct Pol {
    /// 0 default (1,2,10), 1 none, 2 custom
    pub kind: u8,
    pub admin: u8,
    pub write: u8,
    pub horizon: u8,
}

#[derive(Clone, Debug, Serialize, Deserialize, PartialEq, Eq)]
pub struct SecSpec {
    /// 0 none, 1 "nsa/", 2 "nsb/", 3 "tna:", 4 "tnb:" (3,4 are also reachable through vault.namespace())
    pub ns: u8,
    pub tail: String,
    /// pad the name with ASCII to this many bytes
    pub long: u16,
}

#[derive(Clone, Debug, Serialize, Deserialize, PartialEq, Eq)]
pub struct Case {
    pub pol: Pol,
    /// 0 -> 65531 (default), 1 -> 4096, 2 -> 256, 3 -> 64
    pub max_value: u8,
    /// graph engine and vault on one TensorStore (the way query_router wires them) or separate
    pub shared_store: bool,
    pub max_versions: u8,
    pub n_ident: u8,
    pub n_group: u8,
    pub secrets: Vec<SecSpec>,
    pub prelude: Vec<Op>,
    pub ops: Vec<Op>,
}

pub const OTHER_EDGE_TYPES: &[&str] = &["MEMBER", "FRIEND", "OWNS", "ADMIN_OF", "MEMBERSHIP", "member", "VAULT"];

fn chars_to_string(cs: Vec<char>) -> String {
    cs.into_iter().collect()
}

fn tail(max: usize) -> impl Strategy<Value = String> {
    prop_oneof![
        3 => proptest::collection::vec(any::<char>(), 0..max).prop_map(chars_to_string),
        2 => "[a-zA-Z0-9_./:* -]{0,12}",
        1 => Just(String::new()),
    ]
}

fn val() -> impl Strategy<Value = Val> {
    let size = prop_oneof![
        12 => Just(Size::Plain),
        2 => (9u16..3000).prop_map(Size::Fill),
        1 => (60_000u16..65_535).prop_map(Size::Fill),
        3 => prop_oneof![Just(-1i8), Just(0), Just(0), Just(1), Just(40)].prop_map(Size::Limit),
    ];
    (tail(16), size).prop_map(|(tail, size)| Val { tail, size })
}

/// Index with a bias towards element 0, so that the same (principal, secret) pair recurs in a history.
fn idx() -> impl Strategy<Value = u16> {
    prop_oneof![2 => Just(0u16), 3 => any::<u16>()]
}

fn p_req() -> impl Strategy<Value = P> {
    prop_oneof![2 => Just(P::Root), 10 => idx().prop_map(P::U), 2 => idx().prop_map(P::G)]
}
fn p_admin() -> impl Strategy<Value = P> {
    prop_oneof![5 => Just(P::Root), 5 => idx().prop_map(P::U), 1 => idx().prop_map(P::G)]
}
fn p_to() -> impl Strategy<Value = P> {
    prop_oneof![1 => Just(P::Root), 12 => idx().prop_map(P::U), 12 => idx().prop_map(P::G)]
}
fn p_member_from() -> impl Strategy<Value = P> {
    prop_oneof![6 => idx().prop_map(P::U), 4 => idx().prop_map(P::G)]
}
fn p_member_to() -> impl Strategy<Value = P> {
    prop_oneof![1 => Just(P::Root), 4 => idx().prop_map(P::U), 16 => idx().prop_map(P::G)]
}
fn p_child() -> impl Strategy<Value = P> {
    prop_oneof![8 => idx().prop_map(P::U), 3 => idx().prop_map(P::G)]
}

fn ttl(short: bool) -> BoxedStrategy<Ttl> {
    if short {
        prop_oneof![3 => Just(Ttl::None), 1 => Just(Ttl::Long), 5 => Just(Ttl::Short)].boxed()
    } else {
        prop_oneof![6 => Just(Ttl::None), 2 => Just(Ttl::Long)].boxed()
    }
}

fn pat() -> impl Strategy<Value = Pat> {
    prop_oneof![
        3 => Just(Pat::All),
        1 => Just(Pat::Empty),
        2 => any::<u16>().prop_map(Pat::Prefix),
        3 => any::<u16>().prop_map(Pat::Exact),
        1 => Just(Pat::Missing),
    ]
}

fn op(short: bool) -> BoxedStrategy<Op> {
    let sec = idx;
    let base = prop_oneof![
        8 => (p_req(), sec(), val(), any::<bool>()).prop_map(|(req, sec, val, view)| Op::Set { req, sec, val, view }),
        16 => (p_req(), sec(), any::<bool>()).prop_map(|(req, sec, view)| Op::Get { req, sec, view }),
        6 => (p_req(), pat()).prop_map(|(req, pat)| Op::List { req, pat }),
        7 => (p_req(), sec(), val(), any::<bool>()).prop_map(|(req, sec, val, view)| Op::Rotate { req, sec, val, view }),
        3 => (p_req(), sec(), any::<bool>()).prop_map(|(req, sec, view)| Op::Delete { req, sec, view }),
        14 => (p_admin(), p_to(), sec(), 0u8..3, ttl(short), any::<bool>())
            .prop_map(|(req, to, sec, lvl, ttl, view)| Op::Grant { req, to, sec, lvl, ttl, view }),
        6 => (p_admin(), p_to(), sec(), any::<bool>()).prop_map(|(req, to, sec, view)| Op::Revoke { req, to, sec, view }),
        6 => (p_admin(), p_child(), proptest::collection::vec(sec(), 1..3), 0u8..3, ttl(short))
            .prop_map(|(parent, child, secs, lvl, ttl)| Op::Delegate { parent, child, secs, lvl, ttl }),
        3 => (p_admin(), p_child(), any::<bool>(), proptest::bool::weighted(0.7), any::<u16>())
            .prop_map(|(parent, child, cascade, existing, which)| Op::RevokeDeleg { parent, child, cascade, existing, which }),
        12 => (p_member_from(), p_member_to()).prop_map(|(from, to)| Op::AddMember { from, to }),
        3 => (p_member_from(), p_member_to(), proptest::bool::weighted(0.8), any::<u16>())
            .prop_map(|(from, to, existing, which)| Op::RemoveMember { from, to, existing, which }),
        4 => (p_member_from(), prop_oneof![p_member_to().prop_map(Tgt::P), sec().prop_map(Tgt::Sec)], 0u8..(OTHER_EDGE_TYPES.len() as u8))
            .prop_map(|(from, to, ty)| Op::OtherEdge { from, to, ty }),
        8 => (p_req(), sec()).prop_map(|(req, sec)| Op::Probe { req, sec }),
        2 => Just(Op::Scan),
    ];
    if short {
        prop_oneof![100 => base, 7 => any::<bool>().prop_map(|poke| Op::Sleep { poke }), 3 => Just(Op::SealedSleep), 3 => Just(Op::ClosedSleep), 3 => (p_to(), idx(), 0u8..3).prop_map(|(to, sec, lvl)| Op::GrantBurst { to, sec, lvl })].boxed()
    } else {
        base.boxed()
    }
}

/// u16 that `pick` maps onto index k of a collection of `len` elements.
fn index_for(k: usize, len: usize) -> u16 {
    (((k as u32) * 65536 + 32768) / (len as u32)) as u16
}

fn setup_op(short: bool) -> impl Strategy<Value = Op> {
    prop_oneof![
        5 => (p_member_from(), p_member_to()).prop_map(|(from, to)| Op::AddMember { from, to }),
        5 => (p_to(), idx(), 0u8..3, ttl(short))
            .prop_map(|(to, sec, lvl, ttl)| Op::Grant { req: P::Root, to, sec, lvl, ttl, view: false }),
    ]
}

fn pol() -> impl Strategy<Value = Pol> {
    prop_oneof![
        4 => Just(Pol { kind: 0, admin: 1, write: 2, horizon: 10 }),
        1 => Just(Pol { kind: 1, admin: 0, write: 0, horizon: 0 }),
        5 => (0u8..4, 0u8..5, prop_oneof![1 => Just(0u8), 12 => 1u8..6]).prop_map(|(admin, write, horizon)| Pol { kind: 2, admin, write, horizon }),
    ]
}

fn sec_spec() -> impl Strategy<Value = SecSpec> {
    (
        prop_oneof![3 => Just(0u8), 1 => Just(1u8), 1 => Just(2u8), 1 => Just(3u8), 1 => Just(4u8)],
        tail(20),
        prop_oneof![12 => Just(0u16), 1 => 9u16..2500],
    )
        .prop_map(|(ns, tail, long)| SecSpec { ns, tail, long })
}

/// `short` = the TTL part: short-lived grants and Sleep ops are generated.
pub fn case_strategy(short: bool, max_ops: usize) -> impl Strategy<Value = Case> {
    (
        pol(),
        prop_oneof![3 => Just(0u8), 2 => Just(1u8), 2 => Just(2u8), 2 => Just(3u8)],
        any::<bool>(),
        1u8..6,
        3u8..6,
        1u8..5,
        proptest::collection::vec(sec_spec(), 3..5),
    )
        .prop_flat_map(move |(pol, max_value, shared_store, max_versions, n_ident, n_group, secrets)| {
            let n = secrets.len();
            let creates: Vec<BoxedStrategy<Op>> = (0..n)
                .map(|k| {
                    val()
                        .prop_map(move |val| Op::Set { req: P::Root, sec: index_for(k, n), val, view: false })
                        .boxed()
                })
                .collect();
            (
                creates,
                proptest::collection::vec(setup_op(short), 0..8),
                proptest::collection::vec(op(short), 0..=max_ops),
            )
                .prop_map(move |(mut prelude, setup, ops)| {
                    prelude.extend(setup);
                    Case {
                        pol: pol.clone(),
                        max_value,
                        shared_store,
                        max_versions,
                        n_ident,
                        n_group,
                        secrets: secrets.clone(),
                        prelude,
                        ops,
                    }
                })
        })
}
