//! C14 — Vault: no access without a live grant, no plaintext at rest.
//!
//! Parts (same interpreter, different generators):
//!  * `hist`  histories of 0..40 operations by root, 3-5 identities and 1-3 groups over 3-4 secrets
//!            (un-namespaced, "ns/…" and "ns:…" names): set, get, list, rotate, delete,
//!            grant / grant_with_permission / grant_with_ttl (1 h), revoke, delegate,
//!            revoke_delegation(_cascading), MEMBER edges added/removed on `vault.graph()`,
//!            edges of other types (also straight to a secret node), get_permission probes;
//!            attenuation policy, max_value_size, max_versions and store wiring drawn.
//!  * `ttl`   the same plus grants/delegations with a 150 ms TTL and `Sleep` operations (190 ms,
//!            at most 2 per case): after the sleep the right must be gone (sound direction only).
//!
//! Oracles: (1) every allow/deny decision against the independent model in `model.rs`
//! (lower/upper bound tables, see there); a denied operation changes nothing; a read returns the
//! modelled value; (2) the store image (snapshot bytes, saved snapshot file, every stored tensor
//! field) never shows a value marker or a name marker in raw / hex / base64 / decimal-list form,
//! audit entries never show a value or name marker, error strings never show a value marker.

mod case;
mod model;
mod scan;

use case::{Case, Op, Pat, Size, Tgt, Ttl, Val, OTHER_EDGE_TYPES, P};
use graph_engine::{Direction, GraphEngine, PropertyValue};
use model::{EState, Extra, Model, Policy, Sec, ADMIN, G, READ, WRITE};
use nv_engine::{main_for, pick, CaseCtx, Fail, PropDef, PropPart, Tier};
use scan::{Kind, Scanner};
use std::collections::{BTreeMap, BTreeSet, HashMap};
use std::sync::Arc;
use std::time::{Duration, Instant};
use tensor_store::{ScalarValue, TensorStore, TensorValue};
use tensor_vault::{AttenuationPolicy, Permission, Vault, VaultConfig, VaultError};

const TTL_SHORT_MS: u64 = 150;
const MASTER: &[u8] = b"nv-c14-master-key";
const SLEEP_MS: u64 = 190;
const MAX_SLEEPS: u32 = 2;
const ROOT: &str = "node:root";

fn b26(mut n: usize) -> String {
    let mut s = [b'a'; 4];
    for i in (0..4).rev() {
        s[i] = b'a' + (n % 26) as u8;
        n /= 26;
    }
    String::from_utf8(s.to_vec()).unwrap()
}
fn name_marker(k: usize) -> String {
    format!("NmZq{}", b26(k))
}
fn value_marker(k: usize) -> String {
    format!("VwXk{}", b26(k))
}

fn perm_of(l: u8) -> Permission {
    match l {
        READ => Permission::Read,
        WRITE => Permission::Write,
        _ => Permission::Admin,
    }
}
fn level_of(p: Option<Permission>) -> u8 {
    match p {
        None => 0,
        Some(Permission::Read) => READ,
        Some(Permission::Write) => WRITE,
        Some(Permission::Admin) => ADMIN,
    }
}
fn lname(l: u8) -> &'static str {
    match l {
        0 => "none",
        READ => "read",
        WRITE => "write",
        _ => "admin",
    }
}

fn max_value_of(idx: u8) -> usize {
    match idx {
        0 => 65_531,
        1 => 4096,
        2 => 256,
        _ => 64,
    }
}

fn ns_prefix(ns: u8) -> &'static str {
    match ns {
        1 => "nsa/",
        2 => "nsb/",
        3 => "tna:",
        4 => "tnb:",
        _ => "",
    }
}

fn pad_to(mut s: String, bytes: usize, fill: char) -> String {
    while s.len() < bytes {
        s.push(fill);
    }
    s
}

fn build_value(marker: &str, v: &Val, max_value: usize) -> String {
    let base = format!("{marker}{}", v.tail);
    match v.size {
        Size::Plain => base,
        Size::Fill(n) => pad_to(base, n as usize, 'v'),
        Size::Limit(d) => {
            let target = (max_value as i64 + i64::from(d)).max(8) as usize;
            if base.len() > target {
                pad_to(marker.to_string(), target, 'v')
            } else {
                pad_to(base, target, 'v')
            }
        },
    }
}

struct HEdge {
    from: usize,
    to_p: Option<usize>,
    to_s: Option<usize>,
    ty: String,
    id: u64,
}

struct Pair {
    allow: bool,
    deny: bool,
}

struct Run<'a> {
    case: &'a Case,
    vault: Vault,
    cfg: VaultConfig,
    store: TensorStore,
    graph: Arc<GraphEngine>,
    m: Model,
    scanner: Scanner,
    markers: Vec<(String, Kind)>,
    values: Vec<String>,
    next_value: usize,
    max_value: usize,
    edges: Vec<HEdge>,
    sleeps: u32,
    pairs: BTreeMap<(usize, usize), Pair>,
    /// every grant that ever expired: (principal, secret, level); dropped with the pair
    ever_expired: Vec<(usize, usize, u8)>,
    hops2: bool,
    step: String,
}

fn err_text(e: &VaultError) -> String {
    format!("{e} || {e:?}")
}

impl<'a> Run<'a> {
    fn p(&self, p: &P) -> usize {
        match p {
            P::Root => 0,
            P::U(i) => 1 + pick(*i, self.case.n_ident as usize),
            P::G(j) => 1 + self.case.n_ident as usize + pick(*j, self.case.n_group as usize),
        }
    }
    fn s(&self, i: u16) -> usize {
        pick(i, self.case.secrets.len())
    }
    fn pname(&self, p: usize) -> &str {
        &self.m.names[p]
    }
    fn sname(&self, s: usize) -> String {
        self.m.secrets[s].name.clone()
    }

    // ----- graph helpers (the way tensor_vault's own tests create MEMBER edges) ---------------

    fn node_for(&self, key: &str) -> Result<u64, String> {
        if let Ok(nodes) = self.graph.find_nodes_by_property("entity_key", &PropertyValue::String(key.to_string())) {
            if let Some(n) = nodes.first() {
                return Ok(n.id);
            }
        }
        let mut props = HashMap::new();
        props.insert("entity_key".to_string(), PropertyValue::String(key.to_string()));
        self.graph.create_node("VaultEntity", props).map_err(|e| e.to_string())
    }

    fn root_targets(&self) -> BTreeSet<String> {
        let mut out = BTreeSet::new();
        if let Ok(nodes) = self.graph.find_nodes_by_property("entity_key", &PropertyValue::String(ROOT.to_string())) {
            for n in nodes {
                if let Ok(es) = self.graph.edges_of(n.id, Direction::Outgoing) {
                    for e in es {
                        if let Ok(t) = self.graph.get_node(e.to) {
                            if let Some(PropertyValue::String(k)) = t.properties.get("entity_key") {
                                out.insert(k.clone());
                            }
                        }
                    }
                }
            }
        }
        out
    }

    // ----- values -------------------------------------------------------------------------------

    fn next_val(&mut self) -> String {
        let v = self.values[self.next_value].clone();
        self.next_value += 1;
        v
    }

    fn check_err(&self, ctx: &mut CaseCtx, op: &str, e: &VaultError) -> Result<(), Fail> {
        let t = err_text(e);
        if let Some(h) = self.scanner.scan(t.as_bytes(), Some(Kind::Value)) {
            ctx.fail(
                format!("value-in-error:{op}:{}", h.form),
                format!("{}: error text shows the value marker {} ({}): {}", self.step, self.markers[h.marker].0, h.form, clip(&t)),
            )?;
        }
        Ok(())
    }

    // ----- the decision oracle ------------------------------------------------------------------

    /// Compare one allow/deny decision of the product with the model bounds. Returns whether the
    /// operation took effect (the product's answer is adopted after a tolerated or known mismatch).
    #[allow(clippy::too_many_arguments)]
    fn judge(
        &mut self,
        ctx: &mut CaseCtx,
        op: &'static str,
        r: usize,
        s: Option<usize>,
        need: u8,
        up_ok: bool,
        lo_ok: bool,
        sut_ok: bool,
        err: Option<&VaultError>,
    ) -> Result<bool, Fail> {
        if let Some(e) = err {
            self.check_err(ctx, op, e)?;
        }
        let definite = up_ok == lo_ok;
        if sut_ok && !up_ok {
            let sig = self.classify_allow(op, r, s, need);
            let msg = format!(
                "{}: the product ALLOWED {op} by {} on {:?} but the model finds no live grant of level {} (upper bound {})",
                self.step,
                self.pname(r),
                s.map(|s| self.sname(s)),
                lname(need),
                s.map(|s| lname(self.m.perm_up(r, s).level)).unwrap_or("-"),
            );
            self.fail_all(ctx, sig, msg)?;
            ctx.label(format!("{op}:known-allow"));
            return Ok(true);
        }
        if !sut_ok && lo_ok {
            ctx.fail(
                format!("deny-despite-grant:{op}"),
                format!(
                    "{}: the product DENIED {op} by {} on {:?} ({}) although even the weakest reading of the documentation gives level {}",
                    self.step,
                    self.pname(r),
                    s.map(|s| self.sname(s)),
                    err.map(err_text).unwrap_or_default(),
                    s.map(|s| lname(self.m.perm_lo(r, s).level)).unwrap_or("-"),
                ),
            )?;
            ctx.label(format!("{op}:known-deny"));
            return Ok(false);
        }
        if !definite {
            ctx.label(format!("{op}:indefinite"));
            return Ok(sut_ok);
        }
        ctx.label(format!("{op}:{}", if sut_ok { "allow" } else { "deny" }));
        if let Some(s) = s {
            if r != 0 && self.m.secrets[s].exists {
                self.note_decision(ctx, op, r, s, need, sut_ok);
            }
        }
        Ok(sut_ok)
    }

    fn note_decision(&mut self, ctx: &mut CaseCtx, _op: &str, r: usize, s: usize, need: u8, allowed: bool) {
        let e = self.pairs.entry((r, s)).or_insert(Pair { allow: false, deny: false });
        if allowed {
            e.allow = true;
            if let Some(d) = self.allow_dist(r, s, need) {
                ctx.label(match d {
                    0 => "hops:0-direct",
                    1 => "hops:1-member",
                    2 => "hops:2-member",
                    _ => "hops:3+-member",
                });
                if d >= 2 {
                    self.hops2 = true;
                }
            }
        } else {
            if e.allow {
                ctx.label("deny-after-allow");
            }
            e.deny = true;
            let up = self.m.perm_up(r, s).level;
            if up == 0 {
                ctx.label("deny:no-grant");
                if self.m.has_membership(r) {
                    ctx.label("deny:membership-without-grant");
                }
            } else {
                ctx.label("deny:insufficient-level");
            }
            // would an expired grant have allowed it? (the sound TTL direction)
            if self.with_expired_allows(r, s, need) {
                ctx.label("ttl:denied-after-expiry");
            }
        }
    }

    fn with_expired_allows(&self, r: usize, s: usize, need: u8) -> bool {
        if self.ever_expired.is_empty() {
            return false;
        }
        // distances are recomputed through perm_extra with the stale list temporarily widened
        let mut m2_stale = self.m.stale.clone();
        for &(p, ss, l) in &self.ever_expired {
            if ss == s {
                m2_stale.push((p, ss, l));
            }
        }
        // cheap re-evaluation: attenuate each expired grant at the distance of its holder
        let dist = self.member_dist(r);
        m2_stale.iter().any(|&(p, ss, l)| ss == s && dist.get(&p).is_some_and(|&d| self.m.policy.attenuate(l, d + 1) >= need))
    }

    fn member_dist(&self, r: usize) -> BTreeMap<usize, usize> {
        let mut dist = BTreeMap::new();
        dist.insert(r, 0usize);
        let mut q = std::collections::VecDeque::new();
        q.push_back(r);
        while let Some(c) = q.pop_front() {
            let d = dist[&c];
            for (&(f, t), &n) in &self.m.members {
                if f == c && n > 0 && !dist.contains_key(&t) {
                    dist.insert(t, d + 1);
                    q.push_back(t);
                }
            }
        }
        dist
    }

    /// Smallest membership distance at which a live grant satisfies `need`.
    fn allow_dist(&self, r: usize, s: usize, need: u8) -> Option<usize> {
        let dist = self.member_dist(r);
        let mut best: Option<usize> = None;
        for (&g, &d) in &dist {
            if let Some(gs) = self.m.up.get(&(g, s)) {
                if gs.iter().any(|gr| self.m.policy.attenuate(gr.level, d + 1) >= need) {
                    best = Some(best.map_or(d, |b| b.min(d)));
                }
            }
        }
        best
    }

    /// Signature(s) for "the product allowed what the model denies". One signature when a single
    /// hypothesis explains the decision; when only a combination of separately recorded defects
    /// explains it (e.g. an expired grant reached over a MEMBER-prefixed edge) every constituent is
    /// returned and each must be a known finding for the case to continue.
    fn classify_allow(&self, op: &str, r: usize, s: Option<usize>, need: u8) -> Vec<String> {
        let Some(s) = s else { return vec![format!("allow-without-grant:{op}")] };
        if !self.m.secrets[s].exists {
            return vec![format!("allow-on-missing-secret:{op}")];
        }
        let name_of = |x: Extra| -> String {
            if x == Extra::Stale {
                // get/list are the documented reaping points and must never honour an expired grant;
                // every other operation is one class
                if op == "get" || op == "list" {
                    format!("expired-grant-honoured:{op}")
                } else {
                    "expired-grant-honoured:until-next-read".to_string()
                }
            } else if x == Extra::Orphans {
                "delegated-grant-survives-revoke_delegation".to_string()
            } else if x == Extra::MemberPrefixed {
                "allow-via-nonlisted-edge:member-prefixed-type".to_string()
            } else if x == Extra::EdgeToSecret {
                format!("non-access-edge-to-secret-confers:{op}")
            } else {
                format!("allow-via-nonlisted-edge:{op}")
            }
        };
        let singles = [Extra::Stale, Extra::Orphans, Extra::MemberPrefixed, Extra::EdgeToSecret, Extra::AnyEdge];
        for x in singles {
            if self.m.perm_extra(r, s, x, OTHER_EDGE_TYPES).level >= need {
                return vec![name_of(x)];
            }
        }
        // combinations, smallest first
        let n = singles.len();
        for size in 2..=n {
            for mask in 1u32..(1 << n) {
                if mask.count_ones() as usize != size {
                    continue;
                }
                let mut x = Extra::None;
                for (i, e) in singles.iter().enumerate() {
                    if mask & (1 << i) != 0 {
                        x = x.with(*e);
                    }
                }
                if self.m.perm_extra(r, s, x, OTHER_EDGE_TYPES).level >= need {
                    return singles.iter().enumerate().filter(|(i, _)| mask & (1 << i) != 0).map(|(_, e)| name_of(*e)).collect();
                }
            }
        }
        if self.with_expired_allows(r, s, need) {
            // the grant that would explain it expired and was (per the model) already reaped
            return vec![format!("expired-grant-honoured:{op}")];
        }
        let up = self.m.perm_up(r, s).level;
        vec![if up == 0 {
            if self.m.has_membership(r) {
                format!("allow-without-grant:membership-only:{op}")
            } else {
                format!("allow-without-grant:{op}")
            }
        } else {
            format!("allow-above-level:{}-needs-{}:{op}", lname(up), lname(need))
        }]
    }

    fn fail_all(&self, ctx: &mut CaseCtx, sigs: Vec<String>, msg: String) -> Result<(), Fail> {
        let combined = sigs.len() > 1;
        for sig in sigs {
            let m = if combined { format!("{msg} [needs a combination of defects; this constituent: {sig}]") } else { msg.clone() };
            ctx.fail(sig, m)?;
        }
        Ok(())
    }

    /// Root reads the current version back without touching the TTL reaper (get_version).
    fn verify_value(&mut self, ctx: &mut CaseCtx, op: &str, s: usize) -> Result<(), Fail> {
        let name = self.sname(s);
        let cur = self.vault.current_version(ROOT, &name);
        if !self.m.secrets[s].exists {
            if cur.is_ok() {
                ctx.fail(
                    format!("state-changed:{op}:secret-appeared"),
                    format!("{}: secret {name:?} exists in the vault but not in the model", self.step),
                )?;
            }
            return Ok(());
        }
        let got = cur.and_then(|v| self.vault.get_version(ROOT, &name, v));
        match got {
            Ok(v) if v == self.m.secrets[s].value => Ok(()),
            Ok(v) => ctx.fail(
                format!("state-changed:{op}:value-differs"),
                format!("{}: secret {name:?} reads back {:?}, model has {:?}", self.step, clip(&v), clip(&self.m.secrets[s].value)),
            ),
            Err(e) => ctx.fail(
                format!("state-changed:{op}:unreadable"),
                format!("{}: root cannot read {name:?} back: {}", self.step, err_text(&e)),
            ),
        }
    }

    fn before_op(&mut self, reaps: bool) {
        self.expire_now();
        if reaps {
            self.m.reap();
        }
    }

    fn expire_now(&mut self) {
        let before: Vec<(usize, usize, u8)> = self.m.stale.clone();
        self.m.refresh_before(Instant::now());
        for x in &self.m.stale {
            if !before.contains(x) && !self.ever_expired.contains(x) {
                self.ever_expired.push(*x);
            }
        }
    }

    fn after_op(&mut self, ctx: &mut CaseCtx) {
        if self.m.refresh_after(Instant::now()) {
            ctx.label("ttl:stalled-entry-uncertain");
        }
    }

    fn forget_pair_history(&mut self, p: usize, s: usize) {
        self.ever_expired.retain(|&(pp, ss, _)| !(pp == p && ss == s));
    }

    // ----- operations -----------------------------------------------------------------------------

    fn view_parts(&self, s: usize, view: bool) -> Option<(&'static str, String)> {
        let ns = self.case.secrets[s].ns;
        if view && (ns == 3 || ns == 4) {
            let prefix = ns_prefix(ns);
            let name = &self.m.secrets[s].name;
            Some((&prefix[..3], name[4..].to_string()))
        } else {
            None
        }
    }

    fn apply(&mut self, ctx: &mut CaseCtx, op: &Op) -> Result<(), Fail> {
        match op {
            Op::Set { req, sec, val: _, view } => {
                let (r, s) = (self.p(req), self.s(*sec));
                let value = self.next_val();
                let name = self.sname(s);
                self.before_op(false);
                let targets_before = if self.m.secrets[s].node_key.is_none() && r == 0 { Some(self.root_targets()) } else { None };
                let res = match self.view_parts(s, *view) {
                    Some((ns, key)) => self.vault.namespace(ns, &self.pname(r).to_string()).set(&key, &value),
                    None => self.vault.set(self.pname(r), &name, &value),
                };
                self.after_op(ctx);
                let too_large = value.len() > self.max_value;
                if too_large {
                    ctx.label("value:over-limit");
                } else if value.len() == self.max_value {
                    ctx.label("value:at-limit");
                } else if value.len() > 4096 {
                    ctx.label("value:large");
                }
                let exists = self.m.secrets[s].exists;
                let (up_ok, lo_ok) = if too_large {
                    (false, false)
                } else if exists {
                    (self.m.perm_up(r, s).level >= WRITE, self.m.perm_lo(r, s).level >= WRITE)
                } else {
                    (r == 0, r == 0)
                };
                let opn = if exists { "set" } else { "create" };
                let took = self.judge(ctx, opn, r, Some(s), WRITE, up_ok, lo_ok, res.is_ok(), res.as_ref().err())?;
                if took {
                    if exists {
                        self.m.secrets[s].value = value;
                    } else {
                        self.m.create_secret(s, value);
                        if let Some(before) = targets_before {
                            let after = self.root_targets();
                            let new: Vec<&String> = after.difference(&before).collect();
                            if new.len() == 1 {
                                self.m.secrets[s].node_key = Some(new[0].clone());
                            }
                        }
                    }
                }
                self.verify_value(ctx, opn, s)
            },
            Op::Get { req, sec, view } => {
                let (r, s) = (self.p(req), self.s(*sec));
                let name = self.sname(s);
                self.before_op(true);
                let res = match self.view_parts(s, *view) {
                    Some((ns, key)) => self.vault.namespace(ns, &self.pname(r).to_string()).get(&key),
                    None => self.vault.get(self.pname(r), &name),
                };
                self.after_op(ctx);
                let exists = self.m.secrets[s].exists;
                let up_ok = exists && self.m.perm_up(r, s).level >= READ;
                let lo_ok = exists && self.m.perm_lo(r, s).level >= READ;
                self.judge(ctx, "get", r, Some(s), READ, up_ok, lo_ok, res.is_ok(), res.as_ref().err())?;
                if let Ok(v) = &res {
                    if exists && *v != self.m.secrets[s].value {
                        ctx.fail(
                            "get:wrong-value",
                            format!("{}: get({}, {name:?}) returned {:?}, model has {:?}", self.step, self.pname(r), clip(v), clip(&self.m.secrets[s].value)),
                        )?;
                    }
                }
                Ok(())
            },
            Op::List { req, pat } => self.op_list(ctx, self.p(req), pat),
            Op::Rotate { req, sec, val: _, view } => {
                let (r, s) = (self.p(req), self.s(*sec));
                let value = self.next_val();
                let name = self.sname(s);
                self.before_op(false);
                let res = match self.view_parts(s, *view) {
                    Some((ns, key)) => self.vault.namespace(ns, &self.pname(r).to_string()).rotate(&key, &value),
                    None => self.vault.rotate(self.pname(r), &name, &value),
                };
                self.after_op(ctx);
                let exists = self.m.secrets[s].exists;
                let mut up_ok = exists && self.m.perm_up(r, s).level >= WRITE;
                let mut lo_ok = exists && self.m.perm_lo(r, s).level >= WRITE;
                if value.len() > self.max_value {
                    // rotate() is not documented to enforce max_value_size below the padding limit:
                    // either outcome is accepted for an authorised requester
                    ctx.label("rotate:over-limit-value");
                    lo_ok = false;
                    if value.len() > 65_531 {
                        up_ok = false;
                    }
                }
                let took = self.judge(ctx, "rotate", r, Some(s), WRITE, up_ok, lo_ok, res.is_ok(), res.as_ref().err())?;
                if took {
                    self.m.secrets[s].value = value;
                }
                self.verify_value(ctx, "rotate", s)
            },
            Op::Delete { req, sec, view } => {
                let (r, s) = (self.p(req), self.s(*sec));
                let name = self.sname(s);
                self.before_op(false);
                let res = match self.view_parts(s, *view) {
                    Some((ns, key)) => self.vault.namespace(ns, &self.pname(r).to_string()).delete(&key),
                    None => self.vault.delete(self.pname(r), &name),
                };
                self.after_op(ctx);
                let exists = self.m.secrets[s].exists;
                let up_ok = exists && self.m.perm_up(r, s).level >= ADMIN;
                let lo_ok = exists && self.m.perm_lo(r, s).level >= ADMIN;
                let took = self.judge(ctx, "delete", r, Some(s), ADMIN, up_ok, lo_ok, res.is_ok(), res.as_ref().err())?;
                if took && exists {
                    self.m.delete_secret(s);
                    self.ever_expired.retain(|x| x.1 != s);
                    self.edges.retain(|e| e.to_s != Some(s));
                    self.pairs.retain(|k, _| k.1 != s);
                }
                self.verify_value(ctx, "delete", s)
            },
            Op::Grant { req, to, sec, lvl, ttl, view } => {
                let (r, t, s) = (self.p(req), self.p(to), self.s(*sec));
                let level = lvl + 1;
                let name = self.sname(s);
                self.before_op(false);
                let rq = self.pname(r).to_string();
                let tn = self.pname(t).to_string();
                let sut_before = level_of(self.vault.get_permission(&tn, &name));
                let t0 = Instant::now();
                let (opn, res): (&'static str, _) = match ttl {
                    Ttl::None => match self.view_parts(s, *view) {
                        Some((ns, key)) => ("grant", self.vault.namespace(ns, &rq).grant(&tn, &key, perm_of(level))),
                        None if level == ADMIN && *view => ("grant", self.vault.grant(&rq, &tn, &name)),
                        None => ("grant", self.vault.grant_with_permission(&rq, &tn, &name, perm_of(level))),
                    },
                    Ttl::Long => ("grant_ttl", self.vault.grant_with_ttl(&rq, &tn, &name, perm_of(level), Duration::from_secs(3600))),
                    Ttl::Short => {
                        ("grant_ttl", self.vault.grant_with_ttl(&rq, &tn, &name, perm_of(level), Duration::from_millis(TTL_SHORT_MS)))
                    },
                };
                let t1 = Instant::now();
                self.after_op(ctx);
                let exists = self.m.secrets[s].exists;
                let up_ok = exists && self.m.perm_up(r, s).level >= ADMIN;
                let lo_ok = exists && self.m.perm_lo(r, s).level >= ADMIN;
                let took = self.judge(ctx, opn, r, Some(s), ADMIN, up_ok, lo_ok, res.is_ok(), res.as_ref().err())?;
                if took && exists {
                    let entry = if *ttl == Ttl::Short {
                        ctx.label("ttl:short-grant");
                        Some(self.m.new_entry(t, s, t0, t1))
                    } else {
                        if *ttl == Ttl::Long {
                            ctx.label("ttl:long-grant");
                        }
                        None
                    };
                    self.m.add_grant(t, s, G { level, deleg: None, entry });
                } else if !took {
                    // a denied grant changes nothing
                    let now_t = level_of(self.vault.get_permission(&tn, &name));
                    if now_t != sut_before {
                        ctx.fail(
                            format!("state-changed:{opn}:denied-grant-took-effect"),
                            format!("{}: denied grant by {rq} changed {tn} from {} to {} on {name:?}", self.step, lname(sut_before), lname(now_t)),
                        )?;
                    }
                }
                Ok(())
            },
            Op::Revoke { req, to, sec, view } => {
                let (r, t, s) = (self.p(req), self.p(to), self.s(*sec));
                let name = self.sname(s);
                self.before_op(false);
                let rq = self.pname(r).to_string();
                let tn = self.pname(t).to_string();
                let res = match self.view_parts(s, *view) {
                    Some((ns, key)) => self.vault.namespace(ns, &rq).revoke(&tn, &key),
                    None => self.vault.revoke(&rq, &tn, &name),
                };
                self.after_op(ctx);
                let exists = self.m.secrets[s].exists;
                // revoking on a missing secret is a documented silent no-op for whoever passes the check (root)
                let up_ok = r == 0 || (exists && self.m.perm_up(r, s).level >= ADMIN);
                let lo_ok = r == 0 || (exists && self.m.perm_lo(r, s).level >= ADMIN);
                let had = self.m.perm_up(t, s).level;
                let took = self.judge(ctx, "revoke", r, Some(s), ADMIN, up_ok, lo_ok, res.is_ok(), res.as_ref().err())?;
                if took {
                    self.m.revoke(t, s);
                    self.forget_pair_history(t, s);
                    if exists && t != 0 {
                        // revoking removes the ability at once (direct grants of t are gone)
                        let now_t = level_of(self.vault.get_permission(&tn, &name));
                        let up_t = self.m.perm_up(t, s).level;
                        if now_t > up_t {
                            let sig = self.classify_allow("probe-after-revoke", t, Some(s), now_t);
                            let msg = format!("{}: after revoke({rq}, {tn}, {name:?}) the product still reports {} (model upper bound {})", self.step, lname(now_t), lname(up_t));
                            self.fail_all(ctx, sig, msg)?;
                        } else if had > up_t {
                            ctx.label("revoke:took-level-away");
                        }
                    }
                }
                Ok(())
            },
            Op::Delegate { parent, child, secs, lvl, ttl } => self.op_delegate(ctx, self.p(parent), self.p(child), secs, lvl + 1, *ttl),
            Op::RevokeDeleg { parent, child, cascade, existing, which } => {
                let (mut pa, mut ch) = (self.p(parent), self.p(child));
                if *existing && !self.m.deleg.is_empty() {
                    let keys: Vec<(usize, usize)> = self.m.deleg.keys().cloned().collect();
                    (pa, ch) = keys[pick(*which, keys.len())];
                }
                self.before_op(false);
                let pn = self.pname(pa).to_string();
                let cn = self.pname(ch).to_string();
                let exists = self.m.deleg.contains_key(&(pa, ch));
                let (ok, err) = if *cascade {
                    match self.vault.revoke_delegation_cascading(&pn, &cn) {
                        Ok(_) => (true, None),
                        Err(e) => (false, Some(e)),
                    }
                } else {
                    match self.vault.revoke_delegation(&pn, &cn) {
                        Ok(_) => (true, None),
                        Err(e) => (false, Some(e)),
                    }
                };
                self.after_op(ctx);
                if let Some(e) = &err {
                    self.check_err(ctx, "revoke_delegation", e)?;
                }
                let expect = *cascade || exists;
                if ok != expect {
                    ctx.fail(
                        "revoke_delegation:unexpected-result",
                        format!("{}: revoke_delegation({pn}, {cn}, cascade={cascade}) -> ok={ok}, record exists={exists}", self.step),
                    )?;
                }
                if ok {
                    ctx.label(if exists { "revoke_delegation:hit" } else { "revoke_delegation:noop" });
                    let affected: Vec<usize> = self.m.deleg.get(&(pa, ch)).cloned().unwrap_or_default();
                    self.m.revoke_delegation(pa, ch, *cascade);
                    // the delegated right is gone at once
                    for s in affected {
                        if self.m.secrets[s].exists {
                            let name = self.sname(s);
                            let now_c = level_of(self.vault.get_permission(&cn, &name));
                            let up_c = self.m.perm_up(ch, s).level;
                            if now_c > up_c {
                                let sig = self.classify_allow("probe-after-revoke_delegation", ch, Some(s), now_c);
                                let msg = format!("{}: after revoke_delegation({pn}, {cn}) the child still has {} on {name:?} (model upper bound {})", self.step, lname(now_c), lname(up_c));
                                self.fail_all(ctx, sig, msg)?;
                            }
                        }
                    }
                } else {
                    ctx.label("revoke_delegation:no-record");
                }
                Ok(())
            },
            Op::AddMember { from, to } => {
                let (f, t) = (self.p(from), self.p(to));
                if f == t || f == 0 {
                    ctx.label("skip:member-self");
                    return Ok(());
                }
                self.add_edge(ctx, f, Some(t), None, "MEMBER")?;
                *self.m.members.entry((f, t)).or_insert(0) += 1;
                ctx.label("member:add");
                Ok(())
            },
            Op::RemoveMember { from, to, existing, which } => {
                let (mut f, mut t) = (self.p(from), self.p(to));
                if *existing {
                    let cands: Vec<(usize, usize)> =
                        self.edges.iter().filter(|e| e.ty == "MEMBER" && e.to_p.is_some()).map(|e| (e.from, e.to_p.unwrap_or(0))).collect();
                    if !cands.is_empty() {
                        (f, t) = cands[pick(*which, cands.len())];
                    }
                }
                let Some(pos) = self.edges.iter().position(|e| e.from == f && e.to_p == Some(t) && e.ty == "MEMBER") else {
                    ctx.label("skip:member-remove-none");
                    return Ok(());
                };
                let e = self.edges.remove(pos);
                if let Err(err) = self.graph.delete_edge(e.id) {
                    return ctx.fail("harness:delete-edge-failed", format!("{}: {err}", self.step));
                }
                if let Some(n) = self.m.members.get_mut(&(f, t)) {
                    *n = n.saturating_sub(1);
                }
                ctx.label("member:remove");
                Ok(())
            },
            Op::OtherEdge { from, to, ty } => {
                let f = self.p(from);
                let mut tyi = *ty as usize % OTHER_EDGE_TYPES.len();
                match to {
                    Tgt::P(tp) => {
                        let t = self.p(tp);
                        if f == t || f == 0 {
                            ctx.label("skip:edge-self");
                            return Ok(());
                        }
                        if tyi == 0 {
                            tyi = 1; // a MEMBER edge between principals is a real membership, not an "other" edge
                        }
                        self.add_edge(ctx, f, Some(t), None, OTHER_EDGE_TYPES[tyi])?;
                        *self.m.other_pp.entry((f, t, tyi as u8)).or_insert(0) += 1;
                        ctx.label(if OTHER_EDGE_TYPES[tyi].starts_with("MEMBER") { "edge:principal:MEMBER-prefixed-type" } else { "edge:principal:non-listed-type" });
                    },
                    Tgt::Sec(si) => {
                        let s = self.s(*si);
                        if !self.m.secrets[s].exists || self.m.secrets[s].node_key.is_none() || f == 0 {
                            ctx.label("skip:edge-to-missing-secret");
                            return Ok(());
                        }
                        self.add_edge(ctx, f, None, Some(s), OTHER_EDGE_TYPES[tyi])?;
                        *self.m.other_ps.entry((f, s, tyi as u8)).or_insert(0) += 1;
                        ctx.label(if tyi == 0 { "edge:to-secret:MEMBER" } else { "edge:to-secret:other-type" });
                    },
                }
                Ok(())
            },
            Op::Probe { req, sec } => {
                let (r, s) = (self.p(req), self.s(*sec));
                self.before_op(false);
                self.probe(ctx, "probe", r, s)
            },
            Op::Scan => self.conf_scan(ctx, false),
            Op::Sleep { poke } => {
                if self.sleeps >= MAX_SLEEPS || !self.m.has_unexpired_short() {
                    ctx.label("skip:sleep");
                    return Ok(());
                }
                self.sleeps += 1;
                std::thread::sleep(Duration::from_millis(SLEEP_MS));
                self.expire_now();
                if self.m.entries.iter().any(|e| e.state != EState::Expired) {
                    // cannot happen (the sleep is longer than the TTL); be safe anyway
                    ctx.label("ttl:sleep-did-not-expire");
                }
                ctx.label("ttl:sleep");
                if *poke {
                    ctx.label("ttl:sleep+reap");
                    self.before_op(true);
                    let _ = self.vault.list(ROOT, "*");
                }
                Ok(())
            },
            Op::GrantBurst { to, sec, lvl } => {
                ctx.label("ttl:burst of 20 short grants");
                for _ in 0..20 {
                    self.apply(ctx, &Op::Grant { req: P::Root, to: to.clone(), sec: *sec, lvl: *lvl, ttl: Ttl::Short, view: false })?;
                }
                Ok(())
            },
            Op::ClosedSleep => {
                // the vault is not running while the grants expire: a new Vault is opened over the same
                // store and graph after the deadline (restart spanning the expiry)
                if self.sleeps >= MAX_SLEEPS || !self.m.has_unexpired_short() {
                    ctx.label("skip:sleep");
                    return Ok(());
                }
                self.sleeps += 1;
                std::thread::sleep(Duration::from_millis(SLEEP_MS));
                self.expire_now();
                match Vault::new(MASTER, Arc::clone(&self.graph), self.store.clone(), self.cfg.clone()) {
                    Ok(v) => self.vault = v,
                    Err(e) => return ctx.fail("harness:vault-reopen-failed", err_text(&e)),
                }
                ctx.label("ttl:vault reopened after the grants expired");
                Ok(())
            },
            Op::SealedSleep => {
                if self.sleeps >= MAX_SLEEPS || !self.m.has_unexpired_short() {
                    ctx.label("skip:sleep");
                    return Ok(());
                }
                self.sleeps += 1;
                if let Err(e) = self.vault.seal() {
                    return ctx.fail("harness:seal-failed", err_text(&e));
                }
                std::thread::sleep(Duration::from_millis(SLEEP_MS));
                self.expire_now();
                // a call that is not guarded by the seal and runs the expiry sweep
                let who = self.pname(1).to_string();
                let _ = self.vault.get_permission(&who, "no-such-secret");
                if let Err(e) = self.vault.unseal(MASTER) {
                    return ctx.fail("harness:unseal-failed", err_text(&e));
                }
                ctx.label("ttl:sleep while sealed");
                Ok(())
            },
        }
    }

    fn add_edge(&mut self, ctx: &mut CaseCtx, f: usize, to_p: Option<usize>, to_s: Option<usize>, ty: &str) -> Result<(), Fail> {
        let from_key = self.pname(f).to_string();
        let to_key = match (to_p, to_s) {
            (Some(t), _) => self.pname(t).to_string(),
            (_, Some(s)) => self.m.secrets[s].node_key.clone().unwrap_or_default(),
            _ => String::new(),
        };
        let made = self
            .node_for(&from_key)
            .and_then(|a| self.node_for(&to_key).map(|b| (a, b)))
            .and_then(|(a, b)| self.graph.create_edge(a, b, ty, HashMap::new(), true).map_err(|e| e.to_string()));
        match made {
            Ok(id) => {
                self.edges.push(HEdge { from: f, to_p, to_s, ty: ty.to_string(), id });
                Ok(())
            },
            Err(e) => {
                ctx.fail("harness:create-edge-failed", format!("{}: {e}", self.step))?;
                Ok(())
            },
        }
    }

    fn probe(&mut self, ctx: &mut CaseCtx, op: &'static str, r: usize, s: usize) -> Result<(), Fail> {
        let name = self.sname(s);
        let got = level_of(self.vault.get_permission(self.pname(r), &name));
        self.after_op(ctx);
        let up = self.m.perm_up(r, s);
        let lo = self.m.perm_lo(r, s);
        if got > up.level {
            let sig = self.classify_allow(op, r, Some(s), got);
            let msg = format!("{}: get_permission({}, {name:?}) = {} but the model's upper bound is {}", self.step, self.pname(r), lname(got), lname(up.level));
            self.fail_all(ctx, sig, msg)?;
            ctx.label(format!("{op}:known-allow"));
        } else if got < lo.level {
            ctx.fail(
                format!("deny-despite-grant:{op}"),
                format!("{}: get_permission({}, {name:?}) = {} but the model's lower bound is {}", self.step, self.pname(r), lname(got), lname(lo.level)),
            )?;
        } else if up.level == lo.level {
            ctx.label(format!("{op}:{}", lname(got)));
            if r != 0 && self.m.secrets[s].exists {
                if got > 0 {
                    self.note_decision(ctx, op, r, s, got, true);
                } else {
                    self.note_decision(ctx, op, r, s, READ, false);
                }
            }
        } else {
            ctx.label(format!("{op}:indefinite"));
        }
        Ok(())
    }

    fn op_list(&mut self, ctx: &mut CaseCtx, r: usize, pat: &Pat) -> Result<(), Fail> {
        let (pattern, matcher): (String, Box<dyn Fn(&str) -> bool>) = match pat {
            Pat::All => ("*".to_string(), Box::new(|_| true)),
            Pat::Empty => (String::new(), Box::new(|_| true)),
            Pat::Prefix(si) => {
                let s = self.s(*si);
                let pre = ns_prefix(self.case.secrets[s].ns).to_string();
                if pre.is_empty() {
                    ("*".to_string(), Box::new(|_| true))
                } else {
                    let p2 = pre.clone();
                    (format!("{pre}*"), Box::new(move |n: &str| n.starts_with(&p2)))
                }
            },
            Pat::Exact(si) => {
                let s = self.s(*si);
                let n = self.sname(s);
                if n.contains('*') {
                    ("*".to_string(), Box::new(|_| true))
                } else {
                    let n2 = n.clone();
                    (n, Box::new(move |x: &str| x == n2))
                }
            },
            Pat::Missing => ("NoSuchSecretAnywhere".to_string(), Box::new(|_| false)),
        };
        self.before_op(true);
        let res = self.vault.list(self.pname(r), &pattern);
        self.after_op(ctx);
        let got = match res {
            Ok(v) => v,
            Err(e) => {
                self.check_err(ctx, "list", &e)?;
                return ctx.fail("list:error", format!("{}: list({}, {pattern:?}) failed: {}", self.step, self.pname(r), err_text(&e)));
            },
        };
        let got_set: BTreeSet<String> = got.iter().cloned().collect();
        if got_set.len() != got.len() {
            ctx.fail("list:duplicate-names", format!("{}: list returned duplicates", self.step))?;
        }
        let mut definite = true;
        let mut shown = 0;
        let mut hidden = 0;
        for s in 0..self.m.secrets.len() {
            let name = self.sname(s);
            let m = self.m.secrets[s].exists && matcher(&name);
            let up_ok = m && self.m.perm_up(r, s).level >= READ;
            let lo_ok = m && self.m.perm_lo(r, s).level >= READ;
            let has = got_set.contains(&name);
            if has && !up_ok {
                let sig = if m { self.classify_allow("list", r, Some(s), READ) } else { vec!["list:returned-non-matching-or-missing".to_string()] };
                let msg = format!("{}: list({}, {pattern:?}) shows {name:?} without a live grant", self.step, self.pname(r));
                self.fail_all(ctx, sig, msg)?;
            } else if !has && lo_ok {
                ctx.fail("deny-despite-grant:list", format!("{}: list({}, {pattern:?}) hides {name:?} despite a live grant", self.step, self.pname(r)))?;
            } else if up_ok != lo_ok {
                definite = false;
            } else if m {
                if has {
                    shown += 1;
                } else {
                    hidden += 1;
                }
                if r != 0 {
                    self.note_decision(ctx, "list", r, s, READ, has);
                }
            }
        }
        for n in &got_set {
            if !self.m.secrets.iter().any(|s| &s.name == n) {
                ctx.fail("list:unknown-name", format!("{}: list returned a name nobody stored: {:?}", self.step, clip(n)))?;
            }
        }
        if !definite {
            ctx.label("list:indefinite");
        } else if r != 0 {
            ctx.label(match (shown > 0, hidden > 0) {
                (true, true) => "list:partial-view",
                (true, false) => "list:all-visible",
                (false, true) => "list:nothing-visible",
                (false, false) => "list:no-match",
            });
        } else {
            ctx.label("list:root");
        }
        Ok(())
    }

    fn op_delegate(&mut self, ctx: &mut CaseCtx, pa: usize, ch: usize, secs: &[u16], level: u8, ttl: Ttl) -> Result<(), Fail> {
        let mut ss: Vec<usize> = Vec::new();
        for i in secs {
            let s = self.s(*i);
            if !ss.contains(&s) {
                ss.push(s);
            }
        }
        if ss.iter().any(|&s| !self.m.secrets[s].exists) {
            ctx.label("skip:delegate-missing-secret");
            return Ok(());
        }
        if ch == 0 {
            ctx.label("skip:delegate-to-root");
            return Ok(());
        }
        if let Some(other) = self.m.deleg_parent_of(ch) {
            if other != pa {
                // a child with two delegating parents makes the product's depth/cycle walk depend on
                // hash-map iteration order; stay inside the deterministic domain
                ctx.label("skip:delegate-second-parent");
                return Ok(());
            }
        }
        self.before_op(false);
        let names: Vec<String> = ss.iter().map(|&s| self.sname(s)).collect();
        let refs: Vec<&str> = names.iter().map(String::as_str).collect();
        let pn = self.pname(pa).to_string();
        let cn = self.pname(ch).to_string();
        let dur = match ttl {
            Ttl::None => None,
            Ttl::Long => Some(Duration::from_secs(3600)),
            Ttl::Short => Some(Duration::from_millis(TTL_SHORT_MS)),
        };
        let t0 = Instant::now();
        let res = self.vault.delegate(&pn, &cn, &refs, perm_of(level), dur);
        let t1 = Instant::now();
        self.after_op(ctx);
        let structural = pa != ch && !self.m.is_deleg_ancestor(ch, pa);
        let up_ok = structural && ss.iter().all(|&s| self.m.perm_up(pa, s).level >= level);
        let lo_ok = structural && ss.iter().all(|&s| self.m.perm_lo(pa, s).level >= level);
        if !structural {
            ctx.label(if pa == ch { "delegate:self" } else { "delegate:cycle" });
        }
        // the secret that decides (first one the parent lacks the level on), for classification
        let deciding = ss.iter().copied().find(|&s| self.m.perm_up(pa, s).level < level).or(ss.first().copied());
        let took = self.judge(ctx, "delegate", pa, deciding, level, up_ok, lo_ok, res.is_ok(), res.as_ref().err())?;
        if took {
            if !structural {
                ctx.fail("delegate:self-or-cycle-accepted", format!("{}: delegate({pn} -> {cn}) accepted although it is a self/cyclic delegation", self.step))?;
            }
            for &s in &ss {
                let entry = if ttl == Ttl::Short {
                    ctx.label("ttl:short-delegation");
                    Some(self.m.new_entry(ch, s, t0, t1))
                } else {
                    None
                };
                self.m.add_grant(ch, s, G { level, deleg: Some(pa), entry });
            }
            // a repeated delegation extends the record of the pair
            let rec = self.m.deleg.entry((pa, ch)).or_default();
            for &s in &ss {
                if !rec.contains(&s) {
                    rec.push(s);
                }
            }
            self.m.deleg_last.insert((pa, ch), ss.clone());
            // ceiling: the child never exceeds what was delegated / what the model allows
            for &s in &ss {
                let name = self.sname(s);
                let now_c = level_of(self.vault.get_permission(&cn, &name));
                let up_c = self.m.perm_up(ch, s).level;
                if now_c > up_c && self.m.perm_extra(ch, s, Extra::Stale, OTHER_EDGE_TYPES).level < now_c {
                    let sig = self.classify_allow("probe-after-delegate", ch, Some(s), now_c);
                    let msg = format!("{}: after delegate({pn} -> {cn}, {}) the child has {} on {name:?}; ceiling per model {}", self.step, lname(level), lname(now_c), lname(up_c));
                    self.fail_all(ctx, sig, msg)?;
                }
            }
        }
        Ok(())
    }

    // ----- confidentiality --------------------------------------------------------------------------

    fn flatten(v: &TensorValue, out: &mut Vec<Vec<u8>>) {
        match v {
            TensorValue::Scalar(ScalarValue::String(s)) => out.push(s.as_bytes().to_vec()),
            TensorValue::Scalar(ScalarValue::Bytes(b)) => out.push(b.clone()),
            TensorValue::Pointer(p) => out.push(p.as_bytes().to_vec()),
            TensorValue::Pointers(ps) => {
                for p in ps {
                    out.push(p.as_bytes().to_vec());
                }
            },
            _ => {},
        }
    }

    fn conf_scan(&mut self, ctx: &mut CaseCtx, with_file: bool) -> Result<(), Fail> {
        ctx.label("conf:scan");
        // structural pass: which stored tensor (key class, field) shows which kind of marker
        let mut found: BTreeSet<(String, String)> = BTreeSet::new(); // (signature, example)
        let mut located: BTreeSet<(usize, bool)> = BTreeSet::new();
        let mut keys = self.store.scan("");
        keys.sort();
        for key in &keys {
            // key class = the (static) key prefix; never let generated text into a signature
            let mut class: String = key.split(':').next().unwrap_or("").chars().filter(|c| c.is_ascii_alphanumeric() || *c == '_').take(24).collect();
            if self.scanner.scan(class.as_bytes(), None).is_some() || class.is_empty() {
                class = "other-key".to_string();
            }
            for h in self.scanner.scan_all(key.as_bytes()) {
                located.insert((h.marker, h.kind == Kind::Value));
                found.insert((
                    format!("{}-in-store:{class}:<key>:{}", kind_name(h.kind), h.form),
                    format!("store key {:?} shows marker {}", clip(key), self.markers[h.marker].0),
                ));
            }
            let Ok(t) = self.store.get(key) else { continue };
            let mut fields: Vec<(&String, &TensorValue)> = t.fields_iter().collect();
            fields.sort_by(|a, b| a.0.cmp(b.0));
            for (fname, v) in fields {
                let mut chunks = Vec::new();
                Self::flatten(v, &mut chunks);
                for c in chunks {
                    for h in self.scanner.scan_all(&c) {
                        located.insert((h.marker, h.kind == Kind::Value));
                        found.insert((
                            format!("{}-in-store:{class}:{fname}:{}", kind_name(h.kind), h.form),
                            format!("tensor {:?} field {fname:?} shows marker {} ({})", clip(key), self.markers[h.marker].0, h.form),
                        ));
                    }
                }
            }
        }
        // byte images
        let mut images: Vec<(&'static str, Vec<u8>)> = Vec::new();
        match self.store.snapshot_bytes() {
            Ok(b) => images.push(("snapshot_bytes", b)),
            Err(e) => return ctx.fail("harness:snapshot-bytes-failed", format!("{}: {e}", self.step)),
        }
        if with_file {
            let dir = nv_engine::scratch::Dir::new("c14");
            let path = dir.join("vault.snap");
            if let Err(e) = self.store.save_snapshot(&path) {
                return ctx.fail("harness:save-snapshot-failed", format!("{}: {e}", self.step));
            }
            match std::fs::read(&path) {
                Ok(b) => images.push(("snapshot-file", b)),
                Err(e) => return ctx.fail("harness:read-snapshot-failed", format!("{}: {e}", self.step)),
            }
            ctx.label("conf:snapshot-file");
        }
        for (what, img) in &images {
            for h in self.scanner.scan_all(img) {
                // report an image hit only for markers the structural pass did not locate in a live tensor
                if located.contains(&(h.marker, h.kind == Kind::Value)) {
                    continue;
                }
                let ctxt = find_sub(img, self.markers[h.marker].0.as_bytes())
                    .map(|at| String::from_utf8_lossy(&img[at.saturating_sub(70)..(at + 90).min(img.len())]).into_owned())
                    .unwrap_or_default();
                found.insert((
                    format!("{}-in-{what}:unlocated:{}", kind_name(h.kind), h.form),
                    format!("{what} shows marker {} ({}) outside every live tensor field; context: {ctxt:?}", self.markers[h.marker].0, h.form),
                ));
            }
        }
        for (sig, example) in found {
            ctx.fail(sig, format!("{}: {example}", self.step))?;
        }
        Ok(())
    }

    fn audit_scan(&mut self, ctx: &mut CaseCtx) -> Result<(), Fail> {
        let mut texts: Vec<String> = Vec::new();
        match self.vault.audit_recent(100_000) {
            Ok(es) => {
                if !es.is_empty() {
                    ctx.label("conf:audit-entries");
                }
                for e in es {
                    texts.push(format!("{e:?}"));
                }
            },
            Err(e) => self.check_err(ctx, "audit_recent", &e)?,
        }
        for s in 0..self.m.secrets.len() {
            let name = self.sname(s);
            if let Ok(es) = self.vault.audit_log(&name) {
                for e in es {
                    texts.push(format!("{e:?}"));
                }
            }
        }
        let mut found: BTreeSet<(String, String)> = BTreeSet::new();
        for t in &texts {
            for kind in [Kind::Value, Kind::Name] {
                if let Some(h) = self.scanner.scan(t.as_bytes(), Some(kind)) {
                    found.insert((
                        format!("{}-in-audit:{}", kind_name(kind), h.form),
                        format!("audit entry shows marker {}: {}", self.markers[h.marker].0, clip(t)),
                    ));
                }
            }
        }
        for (sig, ex) in found {
            ctx.fail(sig, format!("end: {ex}"))?;
        }
        Ok(())
    }

    fn finish(&mut self, ctx: &mut CaseCtx) -> Result<(), Fail> {
        self.step = "end".to_string();
        // root sees exactly the stored secrets (this is also a reaping point)
        self.op_list(ctx, 0, &Pat::All)?;
        for s in 0..self.m.secrets.len() {
            if self.m.secrets[s].exists {
                let name = self.sname(s);
                self.before_op(true);
                match self.vault.get(ROOT, &name) {
                    Ok(v) if v == self.m.secrets[s].value => {},
                    Ok(v) => ctx.fail("get:wrong-value", format!("end: root reads {:?} for {name:?}, model has {:?}", clip(&v), clip(&self.m.secrets[s].value)))?,
                    Err(e) => {
                        self.check_err(ctx, "get", &e)?;
                        ctx.fail("deny-despite-grant:get", format!("end: root cannot read {name:?}: {}", err_text(&e)))?;
                    },
                }
            }
        }
        // every (principal, secret) permission lies between the bounds
        for r in 1..self.m.names.len() {
            for s in 0..self.m.secrets.len() {
                self.before_op(false);
                self.probe(ctx, "sweep", r, s)?;
            }
        }
        self.conf_scan(ctx, true)?;
        self.audit_scan(ctx)
    }
}

fn kind_name(k: Kind) -> &'static str {
    match k {
        Kind::Value => "value",
        Kind::Name => "name",
    }
}

fn find_sub(h: &[u8], n: &[u8]) -> Option<usize> {
    if n.is_empty() || h.len() < n.len() {
        return None;
    }
    h.windows(n.len()).position(|w| w == n)
}

fn clip(s: &str) -> String {
    if s.len() <= 160 {
        s.to_string()
    } else {
        let mut end = 160;
        while !s.is_char_boundary(end) {
            end -= 1;
        }
        format!("{}…[{} bytes]", &s[..end], s.len())
    }
}

fn secret_name(k: usize, spec: &case::SecSpec) -> String {
    let mut tail = spec.tail.clone();
    if !(spec.ns == 1 || spec.ns == 2) {
        // without an "ns/" prefix everything before the first '/' is the documented quota namespace,
        // which is not a secret; keep the marker out of it
        tail = tail.replace('/', "_");
    }
    let base = format!("{}{}{}", ns_prefix(spec.ns), name_marker(k), tail);
    pad_to(base, spec.long as usize, 'n')
}

fn run_case(case: &Case, ctx: &mut CaseCtx) -> Result<(), Fail> {
    let max_value = max_value_of(case.max_value);
    // names, values, markers
    let mut names = vec![ROOT.to_string()];
    for i in 0..case.n_ident {
        names.push(format!("user:u{i}"));
    }
    for j in 0..case.n_group {
        names.push(format!("team:g{j}"));
    }
    let mut markers: Vec<(String, Kind)> = Vec::new();
    let mut secrets = Vec::new();
    for (k, spec) in case.secrets.iter().enumerate() {
        markers.push((name_marker(k), Kind::Name));
        secrets.push(Sec { name: secret_name(k, spec), exists: false, value: String::new(), node_key: None });
    }
    let mut values = Vec::new();
    for op in case.prelude.iter().chain(case.ops.iter()) {
        if let Op::Set { val, .. } | Op::Rotate { val, .. } = op {
            let mk = value_marker(values.len());
            values.push(build_value(&mk, val, max_value));
            markers.push((mk, Kind::Value));
        }
    }
    let scanner = Scanner::new(&markers);

    let (policy, attenuation) = match case.pol.kind {
        0 => (Policy { admin_limit: 1, write_limit: 2, horizon: 10 }, AttenuationPolicy::default()),
        1 => (Policy { admin_limit: usize::MAX, write_limit: usize::MAX, horizon: usize::MAX }, AttenuationPolicy::none()),
        _ => (
            Policy { admin_limit: case.pol.admin as usize, write_limit: case.pol.write as usize, horizon: case.pol.horizon as usize },
            AttenuationPolicy { admin_limit: case.pol.admin as usize, write_limit: case.pol.write as usize, horizon: case.pol.horizon as usize },
        ),
    };
    ctx.label(match case.pol.kind {
        0 => "policy:default",
        1 => "policy:none",
        _ => "policy:custom",
    });
    ctx.label(if case.shared_store { "store:shared-with-graph" } else { "store:separate" });

    let store = TensorStore::new();
    let graph = if case.shared_store { Arc::new(GraphEngine::with_store(store.clone())) } else { Arc::new(GraphEngine::new()) };
    let mut cfg = VaultConfig::default();
    cfg.argon2_memory_cost = 8;
    cfg.argon2_time_cost = 1;
    cfg.argon2_parallelism = 1;
    cfg.max_versions = case.max_versions as usize;
    cfg.attenuation = attenuation;
    cfg.max_delegation_depth = Some(64);
    cfg.max_value_size = max_value;
    let vault = match Vault::new(MASTER, Arc::clone(&graph), store.clone(), cfg.clone()) {
        Ok(v) => v,
        Err(e) => return ctx.fail("harness:vault-new-failed", err_text(&e)),
    };

    let m = Model::new(policy, names, secrets, Duration::from_millis(TTL_SHORT_MS));
    let mut run = Run {
        case,
        vault,
        cfg,
        store,
        graph,
        m,
        scanner,
        markers,
        values,
        next_value: 0,
        max_value,
        edges: Vec::new(),
        sleeps: 0,
        pairs: BTreeMap::new(),
        ever_expired: Vec::new(),
        hops2: false,
        step: String::new(),
    };
    let mut sticky_allow_deny = false;
    for (i, op) in case.prelude.iter().enumerate() {
        run.step = format!("prelude[{i}] {}", op_brief(op));
        run.apply(ctx, op)?;
        sticky_allow_deny |= run.pairs.values().any(|p| p.allow && p.deny);
    }
    for (i, op) in case.ops.iter().enumerate() {
        run.step = format!("op[{i}] {}", op_brief(op));
        run.apply(ctx, op)?;
        sticky_allow_deny |= run.pairs.values().any(|p| p.allow && p.deny);
    }
    run.finish(ctx)?;
    sticky_allow_deny |= run.pairs.values().any(|p| p.allow && p.deny);
    if sticky_allow_deny {
        ctx.label("nontrivial:allow+deny-same-pair");
    }
    if run.hops2 {
        ctx.label("nontrivial:decided-through>=2-hops");
    }
    if sticky_allow_deny || run.hops2 {
        ctx.set_nontrivial();
    }
    Ok(())
}

fn op_brief(op: &Op) -> String {
    let s = format!("{op:?}");
    clip(&s)
}

fn main() {
    main_for(PropDef {
        id: "C14",
        level: "exploration",
        rule: "a history of set/get/list/rotate/delete/grant/grant_with_ttl/revoke/delegate/revoke_delegation/membership operations by root, 3-5 identities and 1-3 groups over 3-4 secrets; non-trivial = the history contains, for one (non-root requester, existing secret) pair, at least one definite allow and at least one definite deny at different times, or an allowed access whose nearest sufficient grant is >= 2 MEMBER hops away. distinct = distinct generated case (hash of its JSON).",
        assumptions: vec![
            "access model written from docs/book/src/architecture/tensor-vault.md (permission table, allowed traversal edges, attenuation table, delegation ceiling) — see model.rs",
            "two bound tables: where the documentation leaves the fate of sibling grants open (reaping an expired TTL grant / revoke_delegation delete every VAULT_ACCESS edge of the pair) both outcomes are accepted and the decision is not counted as definite",
            "TTL is asserted only in the sound direction: a 150 ms grant must be dead after the harness slept 190 ms; 1 h grants count as permanent; Instant::now() is used only to demote a decision to 'indefinite' when a case was stalled for about the TTL",
            "a child has at most one delegating parent at a time (the product's delegation depth / cycle walk takes the first matching record of a hash map); max_delegation_depth = 64 so the depth limit never binds; delegation only over existing secrets",
            "names without an 'ns/' prefix contain no '/': the part before the first '/' is the documented (non-secret) quota namespace",
            "list patterns: \"*\", \"\", \"<namespace>*\", an exact name without '*', a missing name",
            "marker forms scanned: raw, hex (both cases), base64 (std/url-safe, 3 alignments), decimal byte list",
        ],
        parts: vec![
            PropPart::new("hist", 20_000, 600_000, |t: Tier| case::case_strategy(false, t.pick(40, 40)), run_case).shrink_iters(400).boxed(),
            PropPart::new("ttl", 2000, 40_000, |t: Tier| case::case_strategy(true, t.pick(30, 30)), run_case).shrink_iters(300).boxed(),
        ],
        children: vec![],
    });
}
