//! Marker scanner for the confidentiality oracle.
//!
//! Every secret value and every secret name written by a case carries a unique 8-byte ASCII
//! marker. A byte image (snapshot bytes, snapshot file, a field of a stored tensor, an error
//! string, an audit entry) "shows the secret in readable form" when it contains the marker raw,
//! hex-encoded, base64-encoded (any alignment, standard or url-safe alphabet) or as a decimal
//! byte list (what a JSON serialisation of `Vec<u8>` looks like). All encoders are local to this
//! file, so the oracle shares no code with the product.

use std::collections::HashMap;

#[derive(Clone, Copy, Debug, PartialEq, Eq)]
pub enum Kind {
    Value,
    Name,
}

#[derive(Clone, Debug)]
pub struct Hit {
    pub marker: usize,
    pub kind: Kind,
    pub form: &'static str,
}

struct Pat {
    bytes: Vec<u8>,
    marker: usize,
    kind: Kind,
    form: &'static str,
}

pub struct Scanner {
    pats: Vec<Pat>,
    /// first 8 bytes of a pattern (little-endian u64) -> pattern indices; lookup only, never iterated
    index: HashMap<u64, Vec<usize>>,
}

const B64_STD: &[u8; 64] = b"ABCDEFGHIJKLMNOPQRSTUVWXYZabcdefghijklmnopqrstuvwxyz0123456789+/";
const B64_URL: &[u8; 64] = b"ABCDEFGHIJKLMNOPQRSTUVWXYZabcdefghijklmnopqrstuvwxyz0123456789-_";

fn hex(bytes: &[u8], upper: bool) -> Vec<u8> {
    let digits: &[u8; 16] = if upper { b"0123456789ABCDEF" } else { b"0123456789abcdef" };
    let mut out = Vec::with_capacity(bytes.len() * 2);
    for b in bytes {
        out.push(digits[(b >> 4) as usize]);
        out.push(digits[(b & 15) as usize]);
    }
    out
}

/// The base64 characters that are fully determined by `m` when `m` starts `offset` bytes into a
/// 3-byte group (characters that also depend on the unknown neighbours are dropped).
fn b64_fragment(m: &[u8], offset: usize, alphabet: &[u8; 64]) -> Vec<u8> {
    let mut bits: Vec<u8> = Vec::new();
    for _ in 0..offset {
        bits.extend_from_slice(&[0; 8]);
    }
    for b in m {
        for k in (0..8).rev() {
            bits.push((b >> k) & 1);
        }
    }
    let full_chars = bits.len() / 6;
    let skip = (offset * 8).div_ceil(6);
    let mut out = Vec::new();
    for c in skip..full_chars {
        let mut v = 0usize;
        for k in 0..6 {
            v = (v << 1) | bits[c * 6 + k] as usize;
        }
        out.push(alphabet[v]);
    }
    out
}

fn decimal_list(m: &[u8], sep: &str) -> Vec<u8> {
    let parts: Vec<String> = m.iter().map(|b| b.to_string()).collect();
    parts.join(sep).into_bytes()
}

impl Scanner {
    pub fn new(markers: &[(String, Kind)]) -> Self {
        let mut pats = Vec::new();
        for (i, (m, kind)) in markers.iter().enumerate() {
            let mb = m.as_bytes();
            let mut add = |bytes: Vec<u8>, form: &'static str| {
                debug_assert!(bytes.len() >= 8);
                if !pats.iter().any(|p: &Pat| p.marker == i && p.bytes == bytes) {
                    pats.push(Pat { bytes, marker: i, kind: *kind, form });
                }
            };
            add(mb.to_vec(), "raw");
            add(hex(mb, false), "hex");
            add(hex(mb, true), "hex");
            for off in 0..3 {
                add(b64_fragment(mb, off, B64_STD), "base64");
                add(b64_fragment(mb, off, B64_URL), "base64");
            }
            add(decimal_list(mb, ","), "decimal-list");
            add(decimal_list(mb, ", "), "decimal-list");
        }
        let mut index: HashMap<u64, Vec<usize>> = HashMap::new();
        for (pi, p) in pats.iter().enumerate() {
            let mut k = [0u8; 8];
            k.copy_from_slice(&p.bytes[..8]);
            index.entry(u64::from_le_bytes(k)).or_default().push(pi);
        }
        Self { pats, index }
    }

    /// First marker found in `hay` (lowest offset), optionally restricted to one kind.
    pub fn scan(&self, hay: &[u8], only: Option<Kind>) -> Option<Hit> {
        if hay.len() < 8 {
            return None;
        }
        for i in 0..=hay.len() - 8 {
            let mut k = [0u8; 8];
            k.copy_from_slice(&hay[i..i + 8]);
            if let Some(cands) = self.index.get(&u64::from_le_bytes(k)) {
                for &pi in cands {
                    let p = &self.pats[pi];
                    if only.is_some_and(|o| o != p.kind) {
                        continue;
                    }
                    if hay.len() - i >= p.bytes.len() && hay[i..i + p.bytes.len()] == p.bytes[..] {
                        return Some(Hit { marker: p.marker, kind: p.kind, form: p.form });
                    }
                }
            }
        }
        None
    }
}

impl Scanner {
    /// Every distinct (marker, form) occurring in `hay`, ordered by marker index then form.
    pub fn scan_all(&self, hay: &[u8]) -> Vec<Hit> {
        let mut out: Vec<Hit> = Vec::new();
        if hay.len() < 8 {
            return out;
        }
        for i in 0..=hay.len() - 8 {
            let mut k = [0u8; 8];
            k.copy_from_slice(&hay[i..i + 8]);
            if let Some(cands) = self.index.get(&u64::from_le_bytes(k)) {
                for &pi in cands {
                    let p = &self.pats[pi];
                    if hay.len() - i >= p.bytes.len()
                        && hay[i..i + p.bytes.len()] == p.bytes[..]
                        && !out.iter().any(|h| h.marker == p.marker && h.form == p.form)
                    {
                        out.push(Hit { marker: p.marker, kind: p.kind, form: p.form });
                    }
                }
            }
        }
        out.sort_by(|a, b| (a.marker, a.form).cmp(&(b.marker, b.form)));
        out
    }
}

#[cfg(test)]
mod tests {
    use super::*;

    #[test]
    fn forms() {
        let s = Scanner::new(&[("VwXkaaab".to_string(), Kind::Value)]);
        assert!(s.scan(b"xxVwXkaaabyy", None).is_some());
        assert!(s.scan(b"xx5677586b61616162yy", None).is_some());
        // base64 of "zVwXkaaabq" = "elZ3WGthYWFicQ=="
        assert!(s.scan(b"elZ3WGthYWFicQ==", None).is_some());
        assert!(s.scan(b"[86,119,88,107,97,97,97,98]", None).is_some());
        assert!(s.scan(b"nothing to see here at all", None).is_none());
    }
}
