//! Interpreter and oracle: runs a program, records the battery at every CHECKPOINT, compares after
//! every ROLLBACK TO, follows retention, and probes that the database keeps working.

use crate::prog::{Case, Op, EKEYS, TABLES, W};
use crate::world::{apply, canon, err_class, eval_battery, list_checkpoints, render, Ans, Battery, Exist, Expect, Seen, Universe, World};
use nv_engine::{pick, CaseCtx, Fail};
use query_router::QueryResult;
use std::collections::BTreeSet;
use std::time::{Duration, SystemTime, UNIX_EPOCH};

struct Cp {
    name: String,
    /// the id the CHECKPOINT statement reported
    id: String,
    /// the checkpoints listed just before this one was created (what the store image taken for it contains)
    listed_before: Vec<usize>,
    battery: Battery,
    exist: Exist,
    /// the relational answers of the battery were recorded (false once the relational side is
    /// known to be broken by an earlier rollback in this program)
    rel_valid: bool,
}

struct Run<'a, 'b> {
    case: &'a Case,
    ctx: &'a mut CaseCtx<'b>,
    w: World,
    ex: Exist,
    seen: Seen,
    uni: Universe,
    cps: Vec<Cp>,
    /// indexes into `cps` of the checkpoints the product has to list, oldest first
    retained: Vec<usize>,
    rel_broken: bool,
    rollbacks: usize,
    rolled_to: BTreeSet<usize>,
    /// upper bound (wall-clock second) of the creation time of the newest checkpoint
    last_cp_second: Option<u64>,
    /// the harness clock went backwards between two CHECKPOINTs of a spaced program: creation order
    /// and creation seconds may disagree, the order of the list is not judged any more
    clock_anomaly: bool,
    /// a known finding left graph/vector state or the checkpoint list in a state the harness cannot follow
    stop: bool,
}

fn now_s() -> u64 {
    SystemTime::now().duration_since(UNIX_EPOCH).map(|d| d.as_secs()).unwrap_or(0)
}

fn engine_name(e: char) -> &'static str {
    match e {
        'R' => "relational",
        'G' => "graph",
        _ => "vector",
    }
}

/// Statement family of a battery statement, for signatures.
fn stmt_kind(text: &str) -> String {
    let mut it = text.split_whitespace();
    let a = it.next().unwrap_or("");
    let b = it.next().unwrap_or("");
    match a {
        "SELECT" => {
            if text.contains(" WHERE ") {
                "select-where".into()
            } else {
                "select".into()
            }
        },
        "SHOW" => "show-tables".into(),
        "NODE" | "EDGE" | "EMBED" | "COUNT" => format!("{}-{}", a.to_lowercase(), b.to_lowercase()),
        "NEIGHBORS" => "neighbors".into(),
        "SIMILAR" => "similar".into(),
        _ => a.to_lowercase(),
    }
}

/// Direction of a difference between the recorded answer and the answer after the rollback.
fn direction(want: &Ans, got: &Ans) -> &'static str {
    match (want, got) {
        (Ans::Err(_), Ans::Err(_)) => "other-error",
        (Ans::Err(_), _) => "present-but-was-absent",
        (_, Ans::Err(_)) => "absent-but-was-present",
        (Ans::Set(a), Ans::Set(b)) => {
            let missing = a.iter().any(|x| !b.contains(x));
            let extra = b.iter().any(|x| !a.contains(x));
            match (missing, extra) {
                (true, true) => "members-differ",
                (true, false) => "members-missing",
                (false, true) => "members-extra",
                (false, false) => "multiplicity",
            }
        },
        (Ans::Sim(a), Ans::Sim(b)) => {
            let ka: Vec<&String> = a.iter().map(|x| &x.0).collect();
            let kb: Vec<&String> = b.iter().map(|x| &x.0).collect();
            if ka == kb {
                "scores-differ"
            } else if kb.iter().any(|k| !ka.contains(k)) {
                "keys-extra"
            } else {
                "keys-missing"
            }
        },
        _ => "value-differs",
    }
}

impl Run<'_, '_> {
    fn phase(&self) -> &'static str {
        if self.rollbacks > 0 {
            "after-rollback"
        } else {
            "no-rollback-yet"
        }
    }

    fn with_rel(&self) -> bool {
        !self.rel_broken
    }

    fn battery(&mut self) -> Battery {
        let rel = self.with_rel();
        eval_battery(&mut self.w, &self.uni, rel)
    }

    // ------------------------------------------------------------------ writes

    fn write(&mut self, w: &W) -> Result<(), Fail> {
        if w.engine() == 'R' && self.case.gv_only {
            self.ctx.label("skipped:relational-write-in-gv-only-program");
            return Ok(());
        }
        if w.engine() == 'R' && self.rel_broken {
            self.ctx.label("skipped:relational-write-after-known-relational-rollback-defect");
            return Ok(());
        }
        let r = render(w, &self.ex, &self.seen);
        let res = self.w.exec(&r.text);
        let phase = self.phase();
        match (&res, r.expect) {
            (Err(e), Expect::Ok) => {
                self.ctx.fail(
                    format!("write-refused:{}:{phase}:{}", r.kind, err_class(e)),
                    format!("`{}` has to succeed ({phase}) but failed: {e}", r.text),
                )?;
                // known: the model cannot follow this engine any further
                if w.engine() == 'R' {
                    self.rel_broken = true;
                } else {
                    self.stop = true;
                }
                return Ok(());
            },
            (Ok(v), Expect::Err) => {
                self.ctx.fail(
                    format!("write-accepted:{}:{phase}", r.kind),
                    format!("`{}` names something that does not exist ({phase}) but succeeded: {v:?}", r.text),
                )?;
                if w.engine() == 'R' {
                    self.rel_broken = true;
                } else {
                    self.stop = true;
                }
                return Ok(());
            },
            _ => {},
        }
        if let Ok(v) = &res {
            apply(w, &r.text, v, &mut self.ex, &mut self.seen);
            if self.rollbacks > 0 {
                self.ctx.label(format!("write-after-rollback:{}", r.kind));
            }
            self.readback(w, &r.text, v)?;
        }
        Ok(())
    }

    /// A successful write is readable.
    fn readback(&mut self, w: &W, text: &str, v: &QueryResult) -> Result<(), Fail> {
        let phase = self.phase();
        let mut bad: Option<(String, String)> = None;
        match w {
            W::Insert { t, rows } => {
                let td = &TABLES[*t as usize % TABLES.len()];
                if let QueryResult::Ids(ids) = v {
                    let q = format!("SELECT * FROM {}", td.name);
                    match self.w.exec(&q) {
                        Ok(QueryResult::Rows(rs)) => {
                            let have: BTreeSet<u64> = rs.iter().map(|r| r.id).collect();
                            if ids.len() != rows.len() || ids.iter().any(|i| !have.contains(i)) {
                                bad = Some(("insert".into(), format!("`{text}` returned ids {ids:?}; `{q}` lists row ids {have:?}")));
                            }
                        },
                        other => bad = Some(("insert".into(), format!("`{text}` succeeded; `{q}` gives {other:?}"))),
                    }
                }
            },
            W::NodeCreate { .. } => {
                if let QueryResult::Ids(ids) = v {
                    for id in ids {
                        let q = format!("NODE GET {id}");
                        if let Err(e) = self.w.exec(&q) {
                            bad = Some(("node-create".into(), format!("`{text}` returned id {id}; `{q}` fails: {e}")));
                        }
                    }
                } else {
                    bad = Some(("node-create".into(), format!("`{text}` returned {v:?}, not an id")));
                }
            },
            W::EdgeCreate { .. } => {
                if let QueryResult::Ids(ids) = v {
                    for id in ids {
                        let q = format!("EDGE GET {id}");
                        if let Err(e) = self.w.exec(&q) {
                            bad = Some(("edge-create".into(), format!("`{text}` returned id {id}; `{q}` fails: {e}")));
                        }
                    }
                } else {
                    bad = Some(("edge-create".into(), format!("`{text}` returned {v:?}, not an id")));
                }
            },
            W::NodeDelete { .. } | W::EdgeDelete { .. } => {
                let id = text.rsplit(' ').next().unwrap_or("0");
                let q = format!("{} GET {id}", if matches!(w, W::NodeDelete { .. }) { "NODE" } else { "EDGE" });
                if let Ok(x) = self.w.exec(&q) {
                    bad = Some((if matches!(w, W::NodeDelete { .. }) { "node-delete" } else { "edge-delete" }.into(), format!("`{text}` succeeded; `{q}` still answers {x:?}")));
                }
            },
            W::EmbedStore { key, v: vec } => {
                let k = EKEYS[*key as usize % EKEYS.len()];
                let q = format!("EMBED GET '{k}'");
                match self.w.exec(&q) {
                    Ok(QueryResult::Value(s)) => {
                        let nums: Vec<f32> = s
                            .split(|c: char| !(c.is_ascii_digit() || c == '.' || c == '-' || c == 'e'))
                            .filter(|p| !p.is_empty())
                            .filter_map(|p| p.parse::<f32>().ok())
                            .collect();
                        let want: Vec<f32> = vec.iter().map(|c| f32::from(*c) / 4.0).collect();
                        if nums != want {
                            bad = Some(("embed-store".into(), format!("`{text}` succeeded; `{q}` answers {s}")));
                        }
                    },
                    other => bad = Some(("embed-store".into(), format!("`{text}` succeeded; `{q}` gives {other:?}"))),
                }
            },
            W::EmbedDelete { key } => {
                let k = EKEYS[*key as usize % EKEYS.len()];
                let q = format!("EMBED GET '{k}'");
                if let Ok(x) = self.w.exec(&q) {
                    bad = Some(("embed-delete".into(), format!("`{text}` succeeded; `{q}` still answers {x:?}")));
                }
            },
            _ => {},
        }
        if let Some((kind, msg)) = bad {
            self.ctx.fail(format!("write-not-readable:{kind}:{phase}"), msg)?;
            if w.engine() == 'R' {
                self.rel_broken = true;
            } else {
                self.stop = true;
            }
        }
        Ok(())
    }

    // ------------------------------------------------------------------ checkpoints

    fn checkpoint(&mut self) -> Result<(), Fail> {
        let max = self.case.max_cp as usize;
        if !self.case.spaced && self.retained.len() >= max {
            // creation times have one-second resolution: which checkpoint is "oldest" among
            // checkpoints of one second is not decided by the creation order, so programs that do
            // not wait never go over the limit (part `retention` does)
            self.ctx.label("skipped:checkpoint-at-limit-in-unspaced-program");
            return Ok(());
        }
        if self.cps.len() >= 7 {
            self.ctx.label("skipped:checkpoint-above-7-per-program");
            return Ok(());
        }
        if self.case.spaced {
            if let Some(t) = self.last_cp_second {
                while now_s() <= t {
                    std::thread::sleep(Duration::from_millis(15));
                }
            }
        }
        let before = self.battery();
        // half of the programs name their checkpoints in pairs that differ only in letter case
        // (rel1, REL1, rel2, REL2 ...): a name is matched exactly, never up to case
        let k = self.cps.len() + 1;
        let name = if self.case.last & 1 == 1 {
            if k % 2 == 1 { format!("rel{}", (k + 1) / 2) } else { format!("REL{}", k / 2) }
        } else {
            format!("cp{k}")
        };
        if self.case.last & 1 == 1 && k == 2 {
            self.ctx.label("checkpoint names that differ only in case");
        }
        let text = format!("CHECKPOINT '{name}'");
        let started = now_s();
        if self.case.spaced && self.last_cp_second.is_some_and(|t| started <= t) {
            self.clock_anomaly = true;
            self.ctx.label("clock-went-backwards:retention-order-not-judged");
        }
        let id = match self.w.exec(&text) {
            Ok(QueryResult::Value(v)) if v.starts_with("Checkpoint created: ") => v["Checkpoint created: ".len()..].trim().to_string(),
            other => {
                self.ctx.fail(format!("checkpoint-refused:{}", self.phase()), format!("`{text}` ({}) gives {other:?}", self.phase()))?;
                self.stop = true;
                return Ok(());
            },
        };
        self.last_cp_second = Some(now_s());
        let after = self.battery();
        if let Some((text, eng, want, got)) = first_diff(&before, &after, true) {
            self.ctx.fail(
                format!("checkpoint-changed-data:{}:{}", engine_name(eng), stmt_kind(&text)),
                format!("`{text}` answered {} before CHECKPOINT '{name}' and {} right after it", want.short(), got.short()),
            )?;
            self.stop = true;
            return Ok(());
        }
        let listed_before = self.retained.clone();
        self.cps.push(Cp { name, id, listed_before, battery: before, exist: self.ex.clone(), rel_valid: !self.rel_broken });
        self.retained.push(self.cps.len() - 1);
        while self.retained.len() > max {
            self.retained.remove(0);
            self.ctx.label("retention:eviction-expected");
        }
        self.check_list("after-checkpoint", None)
    }

    /// `CHECKPOINTS` lists exactly the retained checkpoints (most recent first when creation times differ).
    fn check_list(&mut self, when: &'static str, rolled_to: Option<usize>) -> Result<(), Fail> {
        let listed = match list_checkpoints(&mut self.w) {
            Ok(l) => l,
            Err(e) => {
                self.ctx.fail(format!("checkpoints-listing-failed:{when}"), format!("CHECKPOINTS {when}: {e}"))?;
                self.stop = true;
                return Ok(());
            },
        };
        let names: Vec<String> = listed.iter().map(|c| c.0.clone()).collect();
        let want: Vec<String> = self.retained.iter().rev().map(|i| self.cps[*i].name.clone()).collect();
        let mut unknown = false;
        let mut actual_idx: Vec<usize> = Vec::new();
        for n in &names {
            match self.cps.iter().position(|c| &c.name == n) {
                Some(i) if !actual_idx.contains(&i) => actual_idx.push(i),
                _ => unknown = true,
            }
        }
        if unknown {
            self.ctx.fail(
                format!("checkpoint-list:unknown-or-duplicate-name:{when}"),
                format!("CHECKPOINTS {when} lists {names:?}; created so far: {:?}", self.cps.iter().map(|c| &c.name).collect::<Vec<_>>()),
            )?;
            self.stop = true;
            return Ok(());
        }
        let same = if self.case.spaced && !self.clock_anomaly {
            names == want
        } else {
            let (mut a, mut b) = (names.clone(), want.clone());
            a.sort();
            b.sort();
            a == b
        };
        if same {
            return Ok(());
        }
        if self.clock_anomaly {
            // creation seconds no longer follow creation order: which checkpoints are the newest is
            // not decided for the product; follow its list
            actual_idx.sort_unstable();
            self.retained = actual_idx;
            return Ok(());
        }
        let missing: Vec<&String> = want.iter().filter(|n| !names.contains(n)).collect();
        let extra: Vec<&String> = names.iter().filter(|n| !want.contains(n)).collect();
        let max = self.case.max_cp as usize;
        let newest = want.first();
        let sig = if let Some(target) = rolled_to {
            // one recorded root cause explains exactly one list: the list of the moment the target's
            // store image was taken (the checkpoint records live in the store that is rolled back)
            let image: Vec<String> = self.cps[target].listed_before.iter().rev().map(|i| self.cps[*i].name.clone()).collect();
            let explained = if self.case.spaced && !self.clock_anomaly {
                names == image
            } else {
                let (mut a, mut b) = (names.clone(), image.clone());
                a.sort();
                b.sort();
                a == b
            };
            if explained {
                "checkpoint-record-lost-after-rollback".to_string()
            } else if !missing.is_empty() {
                "checkpoint-list-after-rollback:retained-checkpoint-missing".to_string()
            } else if !extra.is_empty() {
                "checkpoint-list-after-rollback:evicted-checkpoint-listed".to_string()
            } else {
                "checkpoint-list-after-rollback:not-most-recent-first".to_string()
            }
        } else if names.len() > max {
            format!("retention:more-than-limit-listed:{when}")
        } else if newest.is_some_and(|n| missing.contains(&n)) {
            format!("retention:newest-checkpoint-not-listed:{when}")
        } else if !missing.is_empty() {
            format!("retention:retained-checkpoint-not-listed:{when}")
        } else if !extra.is_empty() {
            format!("retention:evicted-checkpoint-still-listed:{when}")
        } else {
            format!("retention:list-not-most-recent-first:{when}")
        };
        self.ctx.fail(
            sig,
            format!(
                "CHECKPOINTS {when} lists {names:?}; expected {want:?} (limit {max}, created so far {}, creation seconds reported {:?})",
                self.cps.len(),
                listed.iter().map(|c| c.1).collect::<Vec<_>>()
            ),
        )?;
        // known finding: follow the product's list from here on
        actual_idx.sort_unstable();
        self.retained = actual_idx;
        self.ctx.label("resynced-checkpoint-list-after-known-finding");
        Ok(())
    }

    fn rollback(&mut self, idx: usize, by_id: bool) -> Result<(), Fail> {
        let name = self.cps[idx].name.clone();
        // the statement takes a name or an id
        let target = if by_id { self.cps[idx].id.clone() } else { name.clone() };
        if by_id {
            self.ctx.label("rollback:by-id");
        }
        let newest = self.retained.last() == Some(&idx);
        self.ctx.label(if newest { "rollback:to-newest-retained" } else { "rollback:to-older-retained" });
        if self.rolled_to.contains(&idx) {
            self.ctx.label("rollback:again-to-the-same-checkpoint");
        }
        let pre = self.battery();
        // The read forms of NODE / EDGE / EMBED in the battery empty the router's query cache, so
        // on their own the battery's SELECT / SIMILAR / NEIGHBORS / PATH statements are never
        // answered from it. These are read once more, back to back, right before the rollback
        // and first thing after it: an answer cached before the rollback must not survive it.
        let cacheable: Vec<String> = pre
            .answers
            .keys()
            .filter(|t| {
                let k = stmt_kind(t);
                k.starts_with("select") || k.starts_with("similar") || k.starts_with("neighbors") || k.starts_with("path")
            })
            .cloned()
            .collect();
        for t in &cacheable {
            let _ = self.w.exec(t);
        }
        let text = format!("ROLLBACK TO '{target}'");
        if let Err(e) = self.w.exec(&text) {
            self.ctx.fail(
                format!("rollback-refused:listed-checkpoint:{}", err_class(&e)),
                format!("`{text}` fails although CHECKPOINTS lists '{name}': {e}"),
            )?;
            self.stop = true;
            return Ok(());
        }
        let early: Vec<(String, Ans)> = cacheable.iter().map(|t| (t.clone(), crate::world::canon(&self.w.exec(t)))).collect();
        let mut post = self.battery();
        for (t, a) in early {
            // the answer given first after the rollback is the one judged
            if let Some(slot) = post.answers.get_mut(&t) {
                slot.1 = a;
            }
        }
        // how much the rollback had to undo: engines whose answers differed from the checkpoint
        let mut engines_differ = BTreeSet::new();
        for (text, (eng, want)) in &self.cps[idx].battery.answers {
            if *eng == 'R' && !(self.cps[idx].rel_valid && self.with_rel()) {
                continue;
            }
            if let Some((_, had)) = pre.answers.get(text) {
                if !want.same(had) {
                    engines_differ.insert(*eng);
                }
            }
        }
        self.ctx.label(format!("rollback:engines-differing-from-checkpoint:{}", engines_differ.len()));
        self.rollbacks += 1;
        self.rolled_to.insert(idx);
        if engines_differ.len() >= 2 || self.rollbacks >= 2 {
            self.ctx.set_nontrivial();
        }
        if self.rollbacks >= 2 {
            self.ctx.label("program:second-rollback");
        }

        // the oracle: every battery statement answers what it answered at the checkpoint
        let mut diffs: Vec<(String, String)> = Vec::new();
        let mut rel_known = false;
        for (text, (eng, want)) in &self.cps[idx].battery.answers {
            if *eng == 'R' && !(self.cps[idx].rel_valid && self.with_rel()) {
                continue;
            }
            let Some((_, got)) = post.answers.get(text) else { continue };
            if want.same(got) {
                continue;
            }
            let kind = stmt_kind(text);
            let sig = if *eng == 'R' && kind.starts_with("select") && !want.is_err() && matches!(got, Ans::Err(e) if e.ends_with("not-found")) {
                "table-missing-after-rollback".to_string()
            } else {
                format!("rollback-mismatch:{}:{kind}:{}", engine_name(*eng), direction(want, got))
            };
            if !diffs.iter().any(|d| d.0 == sig) {
                diffs.push((
                    sig,
                    format!("after `ROLLBACK TO '{name}'`: `{text}` answers {} but answered {} when the checkpoint was taken", got.short(), want.short()),
                ));
            }
            if *eng == 'R' {
                rel_known = true;
            } else {
                self.stop = true;
            }
        }
        // unknown signatures first, so that a recorded finding never hides a new one
        diffs.sort_by_key(|d| self.ctx.is_known(&d.0));
        for (sig, msg) in diffs {
            self.ctx.fail(sig, msg)?;
        }
        if rel_known {
            self.rel_broken = true;
            self.ctx.label("relational-side-dropped-after-known-finding");
        }
        self.ex = self.cps[idx].exist.clone();
        if self.stop {
            return Ok(());
        }
        self.check_list("after-rollback", Some(idx))
    }

    fn rollback_gone(&mut self, k: u8) -> Result<(), Fail> {
        let evicted: Vec<usize> = (0..self.cps.len()).filter(|i| !self.retained.contains(i)).collect();
        let (name, class) = if !evicted.is_empty() && k % 4 != 3 {
            let c = &self.cps[evicted[pick(u16::from(k) << 8, evicted.len())]];
            (if k % 2 == 1 { c.id.clone() } else { c.name.clone() }, "evicted-or-lost")
        } else {
            (format!("never{k}"), "never-created")
        };
        self.ctx.label(format!("rollback-to-non-retained:{class}"));
        let pre = self.battery();
        let text = format!("ROLLBACK TO '{name}'");
        if let Ok(v) = self.w.exec(&text) {
            self.ctx.fail(
                format!("rollback-accepted:non-retained-name:{class}"),
                format!("`{text}` succeeds ({v:?}) although CHECKPOINTS does not list '{name}'"),
            )?;
            self.stop = true;
            return Ok(());
        }
        let post = self.battery();
        if let Some((text2, eng, want, got)) = first_diff(&pre, &post, true) {
            self.ctx.fail(
                format!("refused-rollback-changed-data:{}:{}", engine_name(eng), stmt_kind(&text2)),
                format!("`{text}` was refused but `{text2}` answered {} before and {} after it", want.short(), got.short()),
            )?;
            self.stop = true;
            return Ok(());
        }
        self.check_list("after-refused-rollback", None)
    }

    // ------------------------------------------------------------------ the database keeps working

    fn probes(&mut self) -> Result<(), Fail> {
        let mut fails: Vec<(String, String)> = Vec::new();
        let mut step = |w: &mut World, eng: &str, what: &str, text: &str, ok: &dyn Fn(&Ans, &Result<QueryResult, query_router::RouterError>) -> bool| {
            let r = w.exec(text);
            let a = canon(&r);
            if !ok(&a, &r) {
                fails.push((format!("unusable-after-rollback:{eng}:{what}"), format!("after the last rollback `{text}` gives {}", a.short())));
            }
            match r {
                Ok(QueryResult::Ids(v)) if v.len() == 1 => Some(v[0]),
                _ => None,
            }
        };
        let is_ok = |a: &Ans, _: &Result<QueryResult, query_router::RouterError>| !a.is_err();
        // a table that never existed before can be created and used, whatever happened to the others
        let _ = step(&mut self.w, "relational", "create-fresh-table", "CREATE TABLE probe (pa INT, pb TEXT)", &is_ok);
        let _ = step(&mut self.w, "relational", "insert-into-fresh-table", "INSERT INTO probe (pa, pb) VALUES (7, 'zed')", &is_ok);
        let _ = step(&mut self.w, "relational", "select-from-fresh-table", "SELECT * FROM probe WHERE pa = 7", &|a, _| matches!(a, Ans::Set(v) if v.len() == 1 && v[0].contains("zed")));
        if !self.rel_broken {
            // every table that exists now takes a row and shows it
            let tables: Vec<u8> = self.ex.tables.iter().copied().collect();
            for t in tables {
                let td = &TABLES[t as usize % TABLES.len()];
                let c0 = td.cols[0].0;
                let _ = step(&mut self.w, "relational", "insert-into-restored-table", &format!("INSERT INTO {} ({c0}) VALUES (77)", td.name), &is_ok);
                let _ = step(&mut self.w, "relational", "select-from-restored-table", &format!("SELECT * FROM {} WHERE {c0} = 77", td.name), &|a, _| matches!(a, Ans::Set(v) if v.len() == 1));
                let _ = step(&mut self.w, "relational", "update-restored-table", &format!("UPDATE {} SET {c0} = 78 WHERE {c0} = 77", td.name), &|a, _| matches!(a, Ans::Text(t) if t == "count 1"));
                let _ = step(&mut self.w, "relational", "delete-from-restored-table", &format!("DELETE FROM {} WHERE {c0} = 78", td.name), &|a, _| matches!(a, Ans::Text(t) if t == "count 1"));
            }
        }
        let ids = |r: &Result<QueryResult, query_router::RouterError>| matches!(r, Ok(QueryResult::Ids(v)) if v.len() == 1);
        let a = step(&mut self.w, "graph", "node-create", "NODE CREATE person {name: 'probe-a'}", &|_, r| ids(r));
        let b = step(&mut self.w, "graph", "node-create", "NODE CREATE city {name: 'probe-b'}", &|_, r| ids(r));
        if let (Some(a), Some(b)) = (a, b) {
            let _ = step(&mut self.w, "graph", "node-get", &format!("NODE GET {a}"), &|x, _| matches!(x, Ans::Set(v) if v.len() == 1 && v[0].contains("probe-a")));
            let _ = step(&mut self.w, "graph", "edge-create", &format!("EDGE CREATE {a} -> {b} : road"), &|_, r| ids(r));
            let bs = b.to_string();
            let _ = step(&mut self.w, "graph", "neighbors", &format!("NEIGHBORS {a} OUTGOING"), &|x, _| matches!(x, Ans::Set(v) if v == &vec![bs.clone()]));
            let _ = step(&mut self.w, "graph", "node-list", "NODE LIST city", &|x, _| matches!(x, Ans::Set(v) if v.iter().any(|n| n.contains("probe-b"))));
            // every node that exists now can take an edge
            if let Some(n) = self.ex.nodes.iter().next().copied() {
                let _ = step(&mut self.w, "graph", "edge-create-on-restored-node", &format!("EDGE CREATE {n} -> {b} : knows"), &|_, r| ids(r));
                let _ = step(&mut self.w, "graph", "neighbors-of-restored-node", &format!("NEIGHBORS {n} OUTGOING : knows"), &|x, _| matches!(x, Ans::Set(v) if v.contains(&bs)));
            }
        }
        let _ = step(&mut self.w, "vector", "embed-store", "EMBED STORE 'probe' [0.50, 0.25, 2.00]", &is_ok);
        let _ = step(&mut self.w, "vector", "embed-get", "EMBED GET 'probe'", &|x, _| matches!(x, Ans::Text(t) if t.contains("0.5") && t.contains("0.25") && t.contains("2")));
        let _ = step(&mut self.w, "vector", "similar", "SIMILAR [0.50, 0.25, 2.00] LIMIT 20", &|x, _| {
            matches!(x, Ans::Sim(v) if v.iter().any(|(k, s)| k == "probe" && (s - 1.0).abs() < 1e-4))
        });
        if let Some(k) = self.ex.keys.iter().next().copied() {
            let key = EKEYS[k as usize % EKEYS.len()];
            let _ = step(&mut self.w, "vector", "overwrite-restored-key", &format!("EMBED STORE '{key}' [2.00, 2.00, 0.25]"), &is_ok);
            let _ = step(&mut self.w, "vector", "get-overwritten-key", &format!("EMBED GET '{key}'"), &|x, _| matches!(x, Ans::Text(t) if t.contains("0.25") && t.contains("2")));
            let _ = step(&mut self.w, "vector", "delete-restored-key", &format!("EMBED DELETE '{key}'"), &is_ok);
            let _ = step(&mut self.w, "vector", "get-deleted-key", &format!("EMBED GET '{key}'"), &|x, _| x.is_err());
        }
        fails.sort_by_key(|d| self.ctx.is_known(&d.0));
        for (sig, msg) in fails {
            self.ctx.fail(sig, msg)?;
        }
        Ok(())
    }
}

/// First statement on which two batteries disagree (relational statements only when both have them).
fn first_diff(a: &Battery, b: &Battery, _all: bool) -> Option<(String, char, Ans, Ans)> {
    for (text, (eng, x)) in &a.answers {
        if let Some((_, y)) = b.answers.get(text) {
            if !x.same(y) {
                return Some((text.clone(), *eng, x.clone(), y.clone()));
            }
        }
    }
    None
}

pub fn run(case: &Case, ctx: &mut CaseCtx) -> Result<(), Fail> {
    let all_writes = case.before.iter().chain(case.ops.iter().filter_map(|o| if let Op::Write(w) = o { Some(w) } else { None }));
    let (mut n_nodes, mut n_edges) = (0u64, 0u64);
    for w in all_writes {
        match w {
            W::NodeCreate { .. } => n_nodes += 1,
            W::EdgeCreate { .. } => n_edges += 1,
            _ => {},
        }
    }
    // in a quarter of the programs the checkpoint statements go through the async entry point (its ROLLBACK TO is a separate function)
    let via_async = case.last & 6 == 6;
    let world = if via_async { World::new_async(case.max_cp as usize)? } else { World::new(case.max_cp as usize)? };
    if via_async {
        ctx.label(if case.max_cp % 2 == 1 { "entry:async, query cache on" } else { "entry:async" });
    }
    ctx.label(if case.gv_only { "program:gv-only" } else { "program:all-engines" });
    ctx.label(format!("limit:{}", case.max_cp));
    let mut run = Run {
        case,
        ctx,
        w: world,
        ex: Exist::default(),
        seen: Seen::default(),
        // + the probe nodes / edges and one spare id that never exists
        uni: Universe { nodes: n_nodes + 3, edges: n_edges + 3 },
        cps: Vec::new(),
        retained: Vec::new(),
        rel_broken: false,
        rollbacks: 0,
        rolled_to: BTreeSet::new(),
        last_cp_second: None,
        clock_anomaly: false,
        stop: false,
    };
    if case.tables_first && !case.gv_only {
        for t in 0..TABLES.len() as u8 {
            run.write(&W::CreateTable { t })?;
        }
    }
    for w in &case.before {
        run.write(w)?;
        if run.stop {
            return Ok(());
        }
    }
    run.checkpoint()?;
    for op in &case.ops {
        if run.stop {
            run.ctx.label("program:cut-short-after-known-finding");
            return Ok(());
        }
        match op {
            Op::Write(w) => run.write(w)?,
            Op::Checkpoint => run.checkpoint()?,
            Op::Rollback(i) => {
                if run.retained.is_empty() {
                    run.ctx.label("skipped:rollback-without-listed-checkpoint");
                } else {
                    let idx = run.retained[pick(*i, run.retained.len())];
                    run.rollback(idx, i % 2 == 1)?;
                }
            },
            Op::RollbackGone(k) => run.rollback_gone(*k)?,
        }
    }
    // a checkpoint that retention has evicted cannot be rolled back to
    if !run.stop && run.retained.len() < run.cps.len() {
        run.rollback_gone(0)?;
    }
    // every listed checkpoint can be rolled back to (newest first), or one chosen
    if !run.stop && !run.retained.is_empty() {
        if case.sweep {
            run.ctx.label("program:ends-with-rollback-to-every-listed-checkpoint");
            let mut todo: Vec<usize> = run.retained.clone();
            while let Some(idx) = todo.pop() {
                if run.stop {
                    break;
                }
                if run.retained.contains(&idx) {
                    run.rollback(idx, false)?;
                } else {
                    run.ctx.label("skipped:sweep-target-lost-by-known-finding");
                }
            }
        } else {
            let idx = run.retained[pick(case.last, run.retained.len())];
            run.rollback(idx, case.last % 2 == 1)?;
        }
    }
    if run.stop {
        run.ctx.label("program:cut-short-after-known-finding");
        return Ok(());
    }
    if run.rollbacks > 0 {
        run.probes()?;
    }
    if std::env::var("NV_C08_NOTE").is_ok() {
        run.ctx.note = Some(serde_json::json!({ "statements": run.w.trace }));
    }
    Ok(())
}

// ---------------------------------------------------------------------------------------------
// part `burst`

/// More checkpoints than the limit, created back to back. Only runs in which every CHECKPOINT of
/// the burst fell into one wall-clock second (by the harness clock read around the statements) are
/// judged: the newest `limit` checkpoints have to be the listed ones. A fresh database is tried up to
/// 20 times, because which checkpoint the product evicts among equal creation seconds varies from
/// run to run; the first wrong eviction is reported.
pub fn burst(case: &crate::prog::Burst, ctx: &mut CaseCtx) -> Result<(), Fail> {
    let max = case.max_cp as usize;
    let total = max + case.extra as usize;
    ctx.label(format!("limit:{max}"));
    let mut judged = 0;
    for _attempt in 0..60 {
        if judged >= 20 {
            break;
        }
        let mut w = World::new(max)?;
        let t0 = now_s();
        let mut ok = true;
        // every other burst rolls back to its oldest checkpoint once the limit is reached: a
        // rollback carries the checkpoint records across the restore and must keep their order
        let with_rollback = case.extra % 2 == 1 && max >= 2;
        for i in 1..=total {
            let _ = w.exec(&format!("EMBED STORE 'e{}' [1.00, {i}.00, 0.00]", i % 6));
            match w.exec(&format!("CHECKPOINT 'cp{i}'")) {
                Ok(QueryResult::Value(_)) => {},
                other => {
                    ctx.fail("checkpoint-refused:burst", format!("CHECKPOINT 'cp{i}' gives {other:?}"))?;
                    ok = false;
                    break;
                },
            }
            if with_rollback && i == max {
                if let Err(e) = w.exec("ROLLBACK TO 'cp1'") {
                    ctx.fail("rollback-refused:burst", format!("ROLLBACK TO 'cp1' with cp1..cp{max} retained (limit {max}): {e}"))?;
                    ok = false;
                    break;
                }
            }
        }
        if with_rollback {
            ctx.label("burst with a rollback in the middle");
        }
        if !ok {
            return Ok(());
        }
        let listed = list_checkpoints(&mut w).map_err(|e| Fail::new("checkpoints-listing-failed:burst", e))?;
        if now_s() != t0 {
            // the burst crossed a second boundary: creation order is (partly) visible to the product, not judged here
            continue;
        }
        judged += 1;
        let mut names: Vec<String> = listed.iter().map(|c| c.0.clone()).collect();
        names.sort();
        let mut want: Vec<String> = (total - max + 1..=total).map(|i| format!("cp{i}")).collect();
        want.sort();
        if names.len() != max {
            ctx.fail(
                "retention:count-differs-from-limit:burst",
                format!("{total} checkpoints created back to back with limit {max}: CHECKPOINTS lists {names:?}"),
            )?;
            return Ok(());
        }
        if names != want {
            ctx.set_nontrivial();
            ctx.label("burst:wrong-eviction-seen");
            ctx.fail(
                if with_rollback { "retention:same-second:newer-checkpoint-evicted:after-rollback" } else { "retention:same-second:newer-checkpoint-evicted" },
                format!(
                    "{total} checkpoints cp1..cp{total} created back to back within one second with limit {max}{}: CHECKPOINTS lists {names:?}, the newest {max} are {want:?} (creation seconds reported: {:?})",
                    if with_rollback { " (and a rollback to cp1 once the limit was reached)" } else { "" },
                    listed.iter().map(|c| c.1).collect::<Vec<_>>()
                ),
            )?;
            return Ok(());
        }
    }
    ctx.label(format!("burst:no-wrong-eviction-in-{judged}-judged-runs"));
    if judged > 0 {
        ctx.set_nontrivial();
    }
    Ok(())
}


/// Part `auto`: with auto-checkpoints on, every destructive statement takes a checkpoint first.
/// Whatever creates a checkpoint, the retention limit holds after every statement and the list is
/// newest first (validity predicates; which statements count as destructive is read off the list).
pub fn auto(case: &crate::prog::AutoCase, ctx: &mut CaseCtx) -> Result<(), Fail> {
    use crate::prog::AutoOp;
    let max = case.max_cp as usize;
    let mut w = World::new_auto(max)?;
    ctx.label(format!("limit:{max}"));
    let setup = [
        "CREATE TABLE t (id INT, v INT)".to_string(),
        "INSERT INTO t (id, v) VALUES (0, 0), (1, 1), (2, 2), (3, 3), (4, 4), (5, 5), (6, 6), (7, 7)".to_string(),
    ];
    for st in &setup {
        w.exec(st).map_err(|e| Fail::new("setup-failed", format!("{st}: {e}")))?;
    }
    let mut nodes: Vec<u64> = Vec::new();
    for i in 0..6 {
        if let Ok(QueryResult::Ids(ids)) = w.exec(&format!("NODE CREATE person {{n: {i}}}")) {
            nodes.extend(ids);
        }
        let _ = w.exec(&format!("EMBED STORE 'e{i}' [1.00, {i}.00, 0.00]"));
    }
    let mut created = 0usize; // checkpoints seen appearing (auto or manual)
    let mut autos = 0usize;
    let mut prev: Vec<(String, u64)> = list_checkpoints(&mut w).map_err(|e| Fail::new("checkpoints-listing-failed:auto", e))?;
    for (k, op) in case.ops.iter().enumerate() {
        let texts: Vec<String> = match op {
            AutoOp::DeleteRow(i) => vec![format!("DELETE FROM t WHERE id = {i}")],
            AutoOp::DeleteNode(i) => match nodes.get(*i as usize) {
                Some(id) => vec![format!("NODE DELETE {id}")],
                None => vec![],
            },
            AutoOp::DeleteEmb(i) => vec![format!("EMBED DELETE 'e{i}'")],
            AutoOp::DropTable(i) => vec![format!("CREATE TABLE d{i} (id INT)"), format!("DROP TABLE d{i}")],
            AutoOp::Manual => vec![format!("CHECKPOINT 'm{k}'")],
            AutoOp::Insert(i) => vec![format!("INSERT INTO t (id, v) VALUES ({}, {k})", 100 + u32::from(*i))],
        };
        for text in texts {
            let _ = w.exec(&text);
            let now = list_checkpoints(&mut w).map_err(|e| Fail::new("checkpoints-listing-failed:auto", e))?;
            if now.len() > max {
                return ctx.fail(
                    "retention:limit-exceeded:auto",
                    format!("after `{text}` CHECKPOINTS lists {} checkpoints {:?} with max_checkpoints = {max}", now.len(), now.iter().map(|c| c.0.as_str()).collect::<Vec<_>>()),
                );
            }
            if now.windows(2).any(|p| p[0].1 < p[1].1) {
                return ctx.fail("retention:list-not-most-recent-first:auto", format!("after `{text}` CHECKPOINTS lists creation seconds {:?}", now.iter().map(|c| c.1).collect::<Vec<_>>()));
            }
            if now != prev {
                created += 1;
                if now.first().is_some_and(|c| c.0.starts_with("auto")) {
                    autos += 1;
                }
            }
            prev = now;
        }
    }
    if autos > 0 {
        ctx.label("auto-checkpoint taken");
    }
    if created > max && autos > 0 {
        ctx.label("more checkpoints than the limit, some of them automatic");
        ctx.set_nontrivial();
    }
    Ok(())
}
