//! Case type (a program of router statements with checkpoints and rollbacks) and its strategies.

use nv_engine::Tier;
use proptest::prelude::*;
use serde::{Deserialize, Serialize};

/// Column kinds of the fixed table universe.
#[derive(Clone, Copy, PartialEq, Eq, Debug)]
pub enum Ty {
    Int,
    Str,
    Float,
}

pub struct TableDef {
    pub name: &'static str,
    pub cols: &'static [(&'static str, Ty)],
}

/// Column names avoid every keyword of the grammar (contextual keywords in column lists are a
/// recorded C15 limitation).
pub const TABLES: [TableDef; 2] = [
    TableDef { name: "acct", cols: &[("ka", Ty::Int), ("ks", Ty::Str), ("kf", Ty::Float)] },
    TableDef { name: "item", cols: &[("qa", Ty::Int), ("qb", Ty::Int), ("qs", Ty::Str)] },
];
pub const STRS: &[&str] = &["alice", "bob", "", "it's", "a b", "Ünï"];
pub const LABELS: &[&str] = &["person", "city"];
pub const ETYPES: &[&str] = &["knows", "road"];
pub const EKEYS: &[&str] = &["e0", "e1", "e2", "e3", "e4", "e5"];
/// values of an INT cell / an INT property
pub const INT_RANGE: u8 = 5;

/// One write statement. Small integer codes are decoded by the interpreter (`stmts.rs`).
#[derive(Clone, Debug, Serialize, Deserialize, PartialEq)]
pub enum W {
    CreateTable { t: u8 },
    DropTable { t: u8 },
    CreateIndex { t: u8, col: u8 },
    /// rows of three value codes (`None` = NULL)
    Insert { t: u8, rows: Vec<[Option<u8>; 3]> },
    Update { t: u8, set_col: u8, set_val: u8, where_col: u8, where_val: u8 },
    Delete { t: u8, where_col: u8, where_val: u8, all: bool },
    NodeCreate { label: u8, name: u8, age: Option<u8> },
    NodeDelete { i: u16 },
    EdgeCreate { from: u16, to: u16, ty: u8, w: Option<u8> },
    EdgeDelete { i: u16 },
    EmbedStore { key: u8, v: [u8; 3] },
    EmbedDelete { key: u8 },
}

impl W {
    pub fn engine(&self) -> char {
        match self {
            W::CreateTable { .. } | W::DropTable { .. } | W::CreateIndex { .. } | W::Insert { .. } | W::Update { .. } | W::Delete { .. } => 'R',
            W::NodeCreate { .. } | W::NodeDelete { .. } | W::EdgeCreate { .. } | W::EdgeDelete { .. } => 'G',
            W::EmbedStore { .. } | W::EmbedDelete { .. } => 'V',
        }
    }
}

#[derive(Clone, Debug, Serialize, Deserialize, PartialEq)]
pub enum Op {
    Write(W),
    /// `CHECKPOINT 'cpN'` (N = running number)
    Checkpoint,
    /// `ROLLBACK TO` a retained checkpoint chosen by the index (by name; by id when the index is odd)
    Rollback(u16),
    /// `ROLLBACK TO` a name that is not retained (an evicted checkpoint if there is one, else a
    /// name never created): must fail and change nothing
    RollbackGone(u8),
}

#[derive(Clone, Debug, Serialize, Deserialize)]
pub struct Case {
    /// retention limit of the checkpoint manager
    pub max_cp: u8,
    /// graph + vector statements only (the search behind the relational rollback defect)
    pub gv_only: bool,
    /// every CHECKPOINT waits for the next wall-clock second (creation times have one-second
    /// resolution), so that retention order is decided by creation order; without it the program
    /// never creates more checkpoints than the limit
    pub spaced: bool,
    /// create the two tables first
    pub tables_first: bool,
    pub before: Vec<W>,
    /// executed after `before; CHECKPOINT`
    pub ops: Vec<Op>,
    /// the program ends with ROLLBACK TO every retained checkpoint, newest first, when set;
    /// otherwise with one rollback to the retained checkpoint chosen by `last`
    pub sweep: bool,
    pub last: u16,
}

fn cell() -> impl Strategy<Value = Option<u8>> {
    prop::option::weighted(0.9, 0u8..INT_RANGE)
}

fn rel_write() -> impl Strategy<Value = W> {
    let t = 0u8..TABLES.len() as u8;
    prop_oneof![
        2 => t.clone().prop_map(|t| W::CreateTable { t }),
        1 => t.clone().prop_map(|t| W::DropTable { t }),
        2 => (t.clone(), 0u8..3).prop_map(|(t, col)| W::CreateIndex { t, col }),
        12 => (t.clone(), prop::collection::vec([cell(), cell(), cell()], 1..4)).prop_map(|(t, rows)| W::Insert { t, rows }),
        4 => (t.clone(), 0u8..3, 0u8..INT_RANGE, 0u8..3, 0u8..INT_RANGE)
            .prop_map(|(t, set_col, set_val, where_col, where_val)| W::Update { t, set_col, set_val, where_col, where_val }),
        3 => (t, 0u8..3, 0u8..INT_RANGE, prop::bool::weighted(0.15)).prop_map(|(t, where_col, where_val, all)| W::Delete { t, where_col, where_val, all }),
    ]
}

fn graph_write() -> impl Strategy<Value = W> {
    prop_oneof![
        8 => (0u8..LABELS.len() as u8, 0u8..STRS.len() as u8, prop::option::weighted(0.6, 0u8..INT_RANGE))
            .prop_map(|(label, name, age)| W::NodeCreate { label, name, age }),
        2 => any::<u16>().prop_map(|i| W::NodeDelete { i }),
        8 => (any::<u16>(), any::<u16>(), 0u8..ETYPES.len() as u8, prop::option::weighted(0.4, 0u8..INT_RANGE))
            .prop_map(|(from, to, ty, w)| W::EdgeCreate { from, to, ty, w }),
        2 => any::<u16>().prop_map(|i| W::EdgeDelete { i }),
    ]
}

fn vec_write() -> impl Strategy<Value = W> {
    prop_oneof![
        // first component > 0: never the zero vector
        8 => (0u8..EKEYS.len() as u8, [1u8..9, 0u8..9, 0u8..9]).prop_map(|(key, v)| W::EmbedStore { key, v }),
        3 => (0u8..EKEYS.len() as u8).prop_map(|key| W::EmbedDelete { key }),
    ]
}

fn write(gv_only: bool) -> BoxedStrategy<W> {
    if gv_only {
        prop_oneof![5 => graph_write(), 4 => vec_write()].boxed()
    } else {
        prop_oneof![5 => rel_write(), 4 => graph_write(), 3 => vec_write()].boxed()
    }
}

fn op(gv_only: bool, cp_weight: u32, rb_weight: u32, gone_weight: u32) -> impl Strategy<Value = Op> {
    prop_oneof![
        40 => write(gv_only).prop_map(Op::Write),
        cp_weight => Just(Op::Checkpoint),
        rb_weight => any::<u16>().prop_map(Op::Rollback),
        gone_weight => any::<u8>().prop_map(Op::RollbackGone),
    ]
}

/// Share of graph+vector-only programs (fixed; reported in the evidence as class `program:gv-only`).
const GV_ONLY_SHARE: f64 = 0.4;

/// Part `rollback`: many writes, at most `max_cp` live checkpoints, no waiting.
pub fn rollback_strategy(t: Tier) -> impl Strategy<Value = Case> {
    let (nb, no) = t.pick((10usize, 28usize), (14usize, 40usize));
    (2u8..=4, prop::bool::weighted(GV_ONLY_SHARE), prop::bool::weighted(0.85), prop::bool::weighted(0.5), any::<u16>()).prop_flat_map(
        move |(max_cp, gv_only, tables_first, sweep, last)| {
            (prop::collection::vec(write(gv_only), 0..nb), prop::collection::vec(op(gv_only, 5, 5, 1), 1..no)).prop_map(move |(before, ops)| Case {
                max_cp,
                gv_only,
                spaced: false,
                tables_first,
                before,
                ops,
                sweep,
                last,
            })
        },
    )
}

/// Part `retention`: few writes, more checkpoints than the limit, every CHECKPOINT in its own second.
pub fn retention_strategy(_t: Tier) -> impl Strategy<Value = Case> {
    (2u8..=3, prop::bool::weighted(GV_ONLY_SHARE), prop::bool::weighted(0.7), any::<u16>()).prop_flat_map(|(max_cp, gv_only, sweep, last)| {
        (prop::collection::vec(write(gv_only), 0..5), prop::collection::vec(op(gv_only, 18, 2, 3), 6..16)).prop_map(move |(before, ops)| Case {
            max_cp,
            gv_only,
            spaced: true,
            tables_first: true,
            before,
            ops,
            sweep,
            last,
        })
    })
}

/// Part `burst`: more checkpoints than the limit created back to back (within one wall-clock second).
#[derive(Clone, Debug, Serialize, Deserialize)]
pub struct Burst {
    pub max_cp: u8,
    /// checkpoints created beyond the limit
    pub extra: u8,
}

pub fn burst_strategy(_t: Tier) -> impl Strategy<Value = Burst> {
    (2u8..=4, 1u8..=2).prop_map(|(max_cp, extra)| Burst { max_cp, extra })
}


/// Part `auto`: destructive statements with auto-checkpoints on.
#[derive(Clone, Debug, Serialize, Deserialize)]
pub enum AutoOp {
    /// DELETE FROM t WHERE id = k
    DeleteRow(u8),
    /// NODE DELETE of the k-th created node
    DeleteNode(u8),
    /// EMBED DELETE 'ek'
    DeleteEmb(u8),
    /// CREATE TABLE d<k> ...; DROP TABLE d<k>
    DropTable(u8),
    /// CHECKPOINT 'm<i>'
    Manual,
    /// INSERT (not destructive)
    Insert(u8),
}

#[derive(Clone, Debug, Serialize, Deserialize)]
pub struct AutoCase {
    pub max_cp: u8,
    pub ops: Vec<AutoOp>,
}

pub fn auto_strategy(_t: Tier) -> impl Strategy<Value = AutoCase> {
    let op = prop_oneof![
        4 => (0u8..8).prop_map(AutoOp::DeleteRow),
        3 => (0u8..6).prop_map(AutoOp::DeleteNode),
        3 => (0u8..6).prop_map(AutoOp::DeleteEmb),
        2 => (0u8..3).prop_map(AutoOp::DropTable),
        2 => Just(AutoOp::Manual),
        2 => (0u8..8).prop_map(AutoOp::Insert),
    ];
    (2u8..=3, prop::collection::vec(op, 3..12)).prop_map(|(max_cp, ops)| AutoCase { max_cp, ops })
}
