//! The system under test (a `QueryRouter` with blob store and checkpoint manager, built the way the
//! router's own checkpoint tests build it), canonical answers, the read battery, and the small
//! existence model used to know whether a write statement has to succeed.

use crate::prog::{Ty, EKEYS, ETYPES, LABELS, STRS, TABLES, W};
use nv_engine::{pick, Fail};
use query_router::{QueryResult, QueryRouter, RouterError};
use std::collections::{BTreeMap, BTreeSet};
use tensor_checkpoint::CheckpointConfig;
use tensor_store::TensorStore;

pub struct World {
    pub router: QueryRouter,
    pub trace: Vec<String>,
    pub tracing: bool,
    /// CHECKPOINT / ROLLBACK TO / CHECKPOINTS go through `execute_parsed_async` on this runtime
    pub rt: Option<tokio::runtime::Runtime>,
}

impl World {
    pub fn new(max_cp: usize) -> Result<Self, Fail> {
        let mut router = QueryRouter::with_shared_store(TensorStore::new());
        router.init_blob().map_err(|e| Fail::new("setup-failed", format!("init_blob: {e}")))?;
        // the documented "Minimal"/"Automated" style configuration: no auto-checkpoints (they would
        // compete for the retention slots), no interactive confirmation
        let cfg = CheckpointConfig::default().with_max_checkpoints(max_cp).with_auto_checkpoint(false).with_interactive_confirm(false);
        router.init_checkpoint_with_config(cfg).map_err(|e| Fail::new("setup-failed", format!("init_checkpoint: {e}")))?;
        // with an odd limit the router also answers repeated reads from its query cache: what the
        // battery reads after a rollback must not be an answer cached before it
        if max_cp % 2 == 1 {
            router.init_cache();
        }
        Ok(Self { router, trace: Vec::new(), tracing: std::env::var("NV_C08_TRACE").is_ok(), rt: None })
    }

    /// `new`, with the checkpoint statements sent through the async entry point.
    pub fn new_async(max_cp: usize) -> Result<Self, Fail> {
        let mut w = Self::new(max_cp)?;
        w.rt = Some(tokio::runtime::Builder::new_current_thread().enable_all().build().map_err(|e| Fail::new("setup-failed", format!("tokio: {e}")))?);
        Ok(w)
    }

    /// Same router with auto-checkpoints on (taken before destructive statements), still without
    /// interactive confirmation.
    pub fn new_auto(max_cp: usize) -> Result<Self, Fail> {
        let mut router = QueryRouter::with_shared_store(TensorStore::new());
        router.init_blob().map_err(|e| Fail::new("setup-failed", format!("init_blob: {e}")))?;
        let cfg = CheckpointConfig::default().with_max_checkpoints(max_cp).with_auto_checkpoint(true).with_interactive_confirm(false);
        router.init_checkpoint_with_config(cfg).map_err(|e| Fail::new("setup-failed", format!("init_checkpoint: {e}")))?;
        Ok(Self { router, trace: Vec::new(), tracing: std::env::var("NV_C08_TRACE").is_ok(), rt: None })
    }

    /// The path the shell and the server use.
    pub fn exec(&mut self, text: &str) -> Result<QueryResult, RouterError> {
        // Only the checkpoint statements have async implementations of their own; every other
        // statement is handed by the async entry point to the synchronous executor, which for
        // some of them (ENTITY, FIND …) blocks on the router's own runtime and cannot be called
        // from inside one — those go through the synchronous entry point here as well.
        let head = text.trim_start().get(..8).map(str::to_ascii_uppercase).unwrap_or_default();
        let r = match &self.rt {
            Some(rt) if head.starts_with("CHECKPOI") || head.starts_with("ROLLBACK") => rt.block_on(self.router.execute_parsed_async(text)),
            _ => self.router.execute_parsed(text),
        };
        if self.tracing {
            let s = match &r {
                Ok(v) => format!("{v:?}"),
                Err(e) => format!("ERR {e}"),
            };
            eprintln!("  {text}\n      => {}", s.chars().take(300).collect::<String>());
        }
        if self.trace.len() < 400 {
            self.trace.push(text.to_string());
        }
        r
    }
}

// ------------------------------------------------------------------------------------------------
// canonical answers

#[derive(Clone, Debug, PartialEq)]
pub enum Ans {
    /// canonical text (unordered collections sorted)
    Text(String),
    /// rows / nodes / edges as a sorted multiset of canonical element strings
    Set(Vec<String>),
    /// similarity answer: (key, score) sorted by key; scores compared with a tolerance
    Sim(Vec<(String, f32)>),
    /// error class
    Err(String),
}

/// Scores are recomputed by the engine from the restored vectors; the same arithmetic on the same
/// inputs is expected, the tolerance only allows for a different summation order.
pub const SCORE_TOL: f32 = 1e-5;

impl Ans {
    pub fn same(&self, o: &Ans) -> bool {
        match (self, o) {
            (Ans::Sim(a), Ans::Sim(b)) => a.len() == b.len() && a.iter().zip(b).all(|(x, y)| x.0 == y.0 && (x.1 - y.1).abs() <= SCORE_TOL),
            _ => self == o,
        }
    }
    pub fn is_err(&self) -> bool {
        matches!(self, Ans::Err(_))
    }
    pub fn short(&self) -> String {
        let s = format!("{self:?}");
        if s.chars().count() > 500 {
            format!("{}…", s.chars().take(500).collect::<String>())
        } else {
            s
        }
    }
}

pub fn err_class(e: &RouterError) -> String {
    let s = e.to_string();
    let lower = s.to_lowercase();
    let kind = match e {
        RouterError::ParseError(_) => "ParseError",
        RouterError::RelationalError(_) => "RelationalError",
        RouterError::GraphError(_) => "GraphError",
        RouterError::VectorError(_) => "VectorError",
        RouterError::CheckpointError(_) => "CheckpointError",
        RouterError::InvalidArgument(_) => "InvalidArgument",
        _ => "OtherError",
    };
    let what = if lower.contains("not found") || lower.contains("does not exist") {
        "not-found"
    } else if lower.contains("already exists") {
        "already-exists"
    } else {
        "other"
    };
    format!("{kind}:{what}")
}

pub fn canon(r: &Result<QueryResult, RouterError>) -> Ans {
    match r {
        Err(e) => Ans::Err(err_class(e)),
        Ok(QueryResult::Rows(rows)) => {
            let mut v: Vec<String> = rows
                .iter()
                .map(|r| {
                    let mut cells: Vec<String> = r.values.iter().map(|(k, v)| format!("{k}={v:?}")).collect();
                    cells.sort();
                    format!("#{} {}", r.id, cells.join(","))
                })
                .collect();
            v.sort();
            Ans::Set(v)
        },
        Ok(QueryResult::Nodes(ns)) => {
            let mut v: Vec<String> = ns
                .iter()
                .map(|n| {
                    let p: BTreeMap<&String, &String> = n.properties.iter().collect();
                    format!("n{} :{} {p:?}", n.id, n.label)
                })
                .collect();
            v.sort();
            Ans::Set(v)
        },
        Ok(QueryResult::Edges(es)) => {
            let mut v: Vec<String> = es.iter().map(|e| format!("e{} {}->{} :{}", e.id, e.from, e.to, e.label)).collect();
            v.sort();
            Ans::Set(v)
        },
        Ok(QueryResult::Ids(ids)) => {
            let mut v: Vec<String> = ids.iter().map(|i| i.to_string()).collect();
            v.sort();
            Ans::Set(v)
        },
        Ok(QueryResult::TableList(t)) => {
            let mut v = t.clone();
            v.sort();
            Ans::Set(v)
        },
        Ok(QueryResult::Similar(s)) => {
            let mut v: Vec<(String, f32)> = s.iter().map(|r| (r.key.clone(), r.score)).collect();
            v.sort_by(|a, b| a.0.cmp(&b.0).then(a.1.total_cmp(&b.1)));
            Ans::Sim(v)
        },
        Ok(QueryResult::Count(n)) => Ans::Text(format!("count {n}")),
        Ok(QueryResult::Value(s)) => Ans::Text(s.clone()),
        Ok(QueryResult::Empty) => Ans::Text("empty".into()),
        Ok(other) => Ans::Text(format!("{other:?}")),
    }
}

// ------------------------------------------------------------------------------------------------
// existence model: which tables / indexes / nodes / edges / embedding keys exist. It decides only
// whether a write statement has to succeed; what the reads return is decided by the battery.

#[derive(Clone, Debug, Default, PartialEq)]
pub struct Exist {
    pub tables: BTreeSet<u8>,
    pub indexes: BTreeSet<(u8, u8)>,
    pub nodes: BTreeSet<u64>,
    /// edge id -> (from, to)
    pub edges: BTreeMap<u64, (u64, u64)>,
    pub keys: BTreeSet<u8>,
}

/// Ids ever handed out by the graph engine in this program (never rolled back: they only widen the battery).
#[derive(Clone, Debug, Default)]
pub struct Seen {
    pub max_node: u64,
    pub max_edge: u64,
}

pub fn val_lit(ty: Ty, code: Option<u8>) -> String {
    match (ty, code) {
        (_, None) => "NULL".into(),
        (Ty::Int, Some(c)) => c.to_string(),
        (Ty::Str, Some(c)) => quote(STRS[c as usize % STRS.len()]),
        (Ty::Float, Some(c)) => format!("{:.2}", f64::from(c) / 4.0),
    }
}

pub fn quote(s: &str) -> String {
    // the lexer's string escape: a doubled quote
    format!("'{}'", s.replace('\'', "''"))
}

pub fn vec_lit(v: &[u8; 3]) -> String {
    format!("[{:.2}, {:.2}, {:.2}]", f32::from(v[0]) / 4.0, f32::from(v[1]) / 4.0, f32::from(v[2]) / 4.0)
}

/// What the harness expects of a write.
#[derive(Clone, Copy, PartialEq, Eq, Debug)]
pub enum Expect {
    Ok,
    Err,
    /// outcome not determined by the existence model (nothing is asserted)
    Any,
}

pub struct Rendered {
    pub text: String,
    pub kind: &'static str,
    pub expect: Expect,
}

pub fn node_pick(ex: &Exist, seen: &Seen, i: u16) -> u64 {
    let alive: Vec<u64> = ex.nodes.iter().copied().collect();
    if alive.is_empty() || i % 16 == 15 {
        // an id that may be dead or not yet handed out (id 0 never exists)
        pick(i, seen.max_node as usize + 2) as u64 + 1
    } else {
        alive[pick(i, alive.len())]
    }
}

pub fn edge_pick(ex: &Exist, seen: &Seen, i: u16) -> u64 {
    let alive: Vec<u64> = ex.edges.keys().copied().collect();
    if alive.is_empty() || i % 16 == 15 {
        pick(i, seen.max_edge as usize + 2) as u64 + 1
    } else {
        alive[pick(i, alive.len())]
    }
}

/// Text and expected outcome class of a write, against the existence model.
pub fn render(w: &W, ex: &Exist, seen: &Seen) -> Rendered {
    let exp = |ok: bool| if ok { Expect::Ok } else { Expect::Err };
    match w {
        W::CreateTable { t } => {
            let td = &TABLES[*t as usize % TABLES.len()];
            let cols: Vec<String> = td
                .cols
                .iter()
                .map(|(n, ty)| {
                    format!(
                        "{n} {}",
                        match ty {
                            Ty::Int => "INT",
                            Ty::Str => "TEXT",
                            Ty::Float => "FLOAT",
                        }
                    )
                })
                .collect();
            Rendered { text: format!("CREATE TABLE {} ({})", td.name, cols.join(", ")), kind: "create-table", expect: exp(!ex.tables.contains(t)) }
        },
        W::DropTable { t } => {
            let td = &TABLES[*t as usize % TABLES.len()];
            Rendered { text: format!("DROP TABLE {}", td.name), kind: "drop-table", expect: exp(ex.tables.contains(t)) }
        },
        W::CreateIndex { t, col } => {
            let td = &TABLES[*t as usize % TABLES.len()];
            let c = td.cols[*col as usize % td.cols.len()].0;
            let e = if !ex.tables.contains(t) {
                Expect::Err
            } else if ex.indexes.contains(&(*t, *col % td.cols.len() as u8)) {
                // a second CREATE INDEX on the same column: the engine's choice (error or no-op)
                Expect::Any
            } else {
                Expect::Ok
            };
            Rendered { text: format!("CREATE INDEX idx_{}_{c} ON {} ({c})", td.name, td.name), kind: "create-index", expect: e }
        },
        W::Insert { t, rows } => {
            let td = &TABLES[*t as usize % TABLES.len()];
            let rows: Vec<String> = rows
                .iter()
                .map(|r| format!("({})", td.cols.iter().enumerate().map(|(i, (_, ty))| val_lit(*ty, r[i])).collect::<Vec<_>>().join(", ")))
                .collect();
            let cols: Vec<&str> = td.cols.iter().map(|c| c.0).collect();
            Rendered {
                text: format!("INSERT INTO {} ({}) VALUES {}", td.name, cols.join(", "), rows.join(", ")),
                kind: "insert",
                expect: exp(ex.tables.contains(t)),
            }
        },
        W::Update { t, set_col, set_val, where_col, where_val } => {
            let td = &TABLES[*t as usize % TABLES.len()];
            let (sc, sty) = td.cols[*set_col as usize % td.cols.len()];
            let (wc, wty) = td.cols[*where_col as usize % td.cols.len()];
            Rendered {
                text: format!("UPDATE {} SET {sc} = {} WHERE {wc} = {}", td.name, val_lit(sty, Some(*set_val)), val_lit(wty, Some(*where_val))),
                kind: "update",
                expect: exp(ex.tables.contains(t)),
            }
        },
        W::Delete { t, where_col, where_val, all } => {
            let td = &TABLES[*t as usize % TABLES.len()];
            let (wc, wty) = td.cols[*where_col as usize % td.cols.len()];
            let text = if *all { format!("DELETE FROM {}", td.name) } else { format!("DELETE FROM {} WHERE {wc} = {}", td.name, val_lit(wty, Some(*where_val))) };
            Rendered { text, kind: "delete", expect: exp(ex.tables.contains(t)) }
        },
        W::NodeCreate { label, name, age } => {
            let l = LABELS[*label as usize % LABELS.len()];
            let mut props = vec![format!("name: {}", quote(STRS[*name as usize % STRS.len()]))];
            if let Some(a) = age {
                props.push(format!("age: {a}"));
            }
            Rendered { text: format!("NODE CREATE {l} {{{}}}", props.join(", ")), kind: "node-create", expect: Expect::Ok }
        },
        W::NodeDelete { i } => {
            let id = node_pick(ex, seen, *i);
            Rendered { text: format!("NODE DELETE {id}"), kind: "node-delete", expect: exp(ex.nodes.contains(&id)) }
        },
        W::EdgeCreate { from, to, ty, w } => {
            let (f, t) = (node_pick(ex, seen, *from), node_pick(ex, seen, *to));
            let et = ETYPES[*ty as usize % ETYPES.len()];
            let props = w.map_or(String::new(), |w| format!(" {{w: {w}}}"));
            Rendered {
                text: format!("EDGE CREATE {f} -> {t} : {et}{props}"),
                kind: "edge-create",
                expect: exp(ex.nodes.contains(&f) && ex.nodes.contains(&t)),
            }
        },
        W::EdgeDelete { i } => {
            let id = edge_pick(ex, seen, *i);
            Rendered { text: format!("EDGE DELETE {id}"), kind: "edge-delete", expect: exp(ex.edges.contains_key(&id)) }
        },
        W::EmbedStore { key, v } => {
            let k = EKEYS[*key as usize % EKEYS.len()];
            Rendered { text: format!("EMBED STORE '{k}' {}", vec_lit(v)), kind: "embed-store", expect: Expect::Ok }
        },
        W::EmbedDelete { key } => {
            let k = EKEYS[*key as usize % EKEYS.len()];
            Rendered { text: format!("EMBED DELETE '{k}'"), kind: "embed-delete", expect: exp(ex.keys.contains(&(*key % EKEYS.len() as u8))) }
        },
    }
}

/// Effect of a successful write on the existence model (`result` = what the router returned).
pub fn apply(w: &W, text: &str, result: &QueryResult, ex: &mut Exist, seen: &mut Seen) {
    match w {
        W::CreateTable { t } => {
            ex.tables.insert(*t);
        },
        W::DropTable { t } => {
            ex.tables.remove(t);
            ex.indexes.retain(|(tt, _)| tt != t);
        },
        W::CreateIndex { t, col } => {
            let n = TABLES[*t as usize % TABLES.len()].cols.len() as u8;
            ex.indexes.insert((*t, *col % n));
        },
        W::Insert { .. } | W::Update { .. } | W::Delete { .. } => {},
        W::NodeCreate { .. } => {
            if let QueryResult::Ids(ids) = result {
                for id in ids {
                    ex.nodes.insert(*id);
                    seen.max_node = seen.max_node.max(*id);
                }
            }
        },
        W::NodeDelete { .. } => {
            if let Some(id) = text.rsplit(' ').next().and_then(|s| s.parse::<u64>().ok()) {
                ex.nodes.remove(&id);
                // deleting a node deletes its edges (documented: NODE DELETE counts 1 + edge_count)
                ex.edges.retain(|_, (f, t)| *f != id && *t != id);
            }
        },
        W::EdgeCreate { .. } => {
            if let QueryResult::Ids(ids) = result {
                // "EDGE CREATE f -> t : ty"
                let mut it = text.split_whitespace();
                let f = it.nth(2).and_then(|s| s.parse::<u64>().ok());
                let t = it.nth(1).and_then(|s| s.parse::<u64>().ok());
                if let (Some(f), Some(t)) = (f, t) {
                    for id in ids {
                        ex.edges.insert(*id, (f, t));
                        seen.max_edge = seen.max_edge.max(*id);
                    }
                }
            }
        },
        W::EdgeDelete { .. } => {
            if let Some(id) = text.rsplit(' ').next().and_then(|s| s.parse::<u64>().ok()) {
                ex.edges.remove(&id);
            }
        },
        W::EmbedStore { key, .. } => {
            ex.keys.insert(*key % EKEYS.len() as u8);
        },
        W::EmbedDelete { key } => {
            ex.keys.remove(&(*key % EKEYS.len() as u8));
        },
    }
}

// ------------------------------------------------------------------------------------------------
// the read battery

#[derive(Clone, Debug)]
pub struct Battery {
    /// statement text -> (engine, answer); engine is 'R', 'G' or 'V'
    pub answers: BTreeMap<String, (char, Ans)>,
}

/// Ids the battery asks about: fixed for the whole program (the graph engine hands out ids 1, 2, …
/// so the number of create statements in the program bounds every id that can ever exist).
#[derive(Clone, Copy, Debug)]
pub struct Universe {
    pub nodes: u64,
    pub edges: u64,
}

/// The fixed battery of read statements.
pub fn battery_statements(seen: &Universe, with_relational: bool) -> Vec<(char, String)> {
    let mut out: Vec<(char, String)> = Vec::new();
    if with_relational {
        out.push(('R', "SHOW TABLES".into()));
        for td in &TABLES {
            out.push(('R', format!("SELECT * FROM {}", td.name)));
            // through each column that may carry an index: equality for two values and one range
            for (c, ty) in td.cols {
                match ty {
                    Ty::Int => {
                        out.push(('R', format!("SELECT * FROM {} WHERE {c} = 1", td.name)));
                        out.push(('R', format!("SELECT * FROM {} WHERE {c} >= 2", td.name)));
                    },
                    Ty::Str => out.push(('R', format!("SELECT * FROM {} WHERE {c} = 'bob'", td.name))),
                    Ty::Float => out.push(('R', format!("SELECT * FROM {} WHERE {c} < 0.60", td.name))),
                }
            }
        }
    }
    out.push(('G', "NODE LIST".into()));
    for l in LABELS {
        out.push(('G', format!("NODE LIST {l}")));
    }
    out.push(('G', "EDGE LIST".into()));
    for t in ETYPES {
        out.push(('G', format!("EDGE LIST {t}")));
    }
    for id in 1..=seen.nodes {
        out.push(('G', format!("NODE GET {id}")));
        out.push(('G', format!("NEIGHBORS {id} OUTGOING")));
        out.push(('G', format!("NEIGHBORS {id} INCOMING")));
        out.push(('G', format!("NEIGHBORS {id} BOTH : knows")));
    }
    for id in 1..=seen.edges {
        out.push(('G', format!("EDGE GET {id}")));
    }
    for k in EKEYS {
        out.push(('V', format!("EMBED GET '{k}'")));
    }
    out.push(('V', "COUNT EMBEDDINGS".into()));
    // LIMIT above the number of keys: the whole scored set comes back, no top-k cut among ties
    out.push(('V', "SIMILAR [1.00, 0.00, 0.00] LIMIT 20".into()));
    out.push(('V', "SIMILAR [0.25, 1.00, 0.50] LIMIT 20 EUCLIDEAN".into()));
    out
}

pub fn eval_battery(w: &mut World, seen: &Universe, with_relational: bool) -> Battery {
    let mut answers = BTreeMap::new();
    for (eng, text) in battery_statements(seen, with_relational) {
        let r = w.exec(&text);
        answers.insert(text, (eng, canon(&r)));
    }
    Battery { answers }
}

/// Names listed by `CHECKPOINTS`, most recent first, with the creation second the product reports.
pub fn list_checkpoints(w: &mut World) -> Result<Vec<(String, u64)>, String> {
    match w.exec("CHECKPOINTS LIMIT 100") {
        Ok(QueryResult::CheckpointList(l)) => Ok(l.into_iter().map(|c| (c.name, c.created_at)).collect()),
        Ok(other) => Err(format!("unexpected result {other:?}")),
        Err(e) => Err(e.to_string()),
    }
}
