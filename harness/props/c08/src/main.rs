//! C08 — Rolling back to a checkpoint restores exactly that database.
//!
//! Parts:
//!  * `rollback`   programs of relational / graph / vector statements through `QueryRouter::execute_parsed`
//!                 with CHECKPOINT / ROLLBACK TO cycles (never more live checkpoints than the limit);
//!                 metamorphic oracle: a fixed battery of reads answered at CHECKPOINT time must be
//!                 answered identically after ROLLBACK TO; writes keep working and are readable.
//!  * `retention`  the same interpreter, few writes, more checkpoints than the limit; every CHECKPOINT
//!                 waits for a new wall-clock second so that "oldest" is decided by creation order.

mod check;
mod prog;
mod world;

use nv_engine::{main_for, PropDef, PropPart};

fn main() {
    // `init_blob` builds a tokio runtime per router (`Runtime::new()`, one worker thread per core by
    // default); a router is built for every case, so keep the runtimes small. Checkpoint statements
    // are driven synchronously through `block_on`, the worker count does not change what they do.
    if std::env::var_os("TOKIO_WORKER_THREADS").is_none() {
        std::env::set_var("TOKIO_WORKER_THREADS", "1");
    }
    main_for(PropDef {
        id: "C08",
        level: "exploration",
        rule: "a program is non-trivial when it contains a rollback for which the read battery just before the rollback differs from the battery recorded at the target checkpoint in >= 2 of the 3 engines (relational, graph, vector), or when it performs a second rollback; distinct = distinct generated program (hash of its JSON)",
        assumptions: vec![
            "router built as in the router's own checkpoint tests: with_shared_store + init_blob + init_checkpoint_with_config{max_checkpoints 2..4, auto_checkpoint off, interactive_confirm off}; statements go through execute_parsed; the query cache is initialised when the checkpoint limit is odd; part `auto` turns auto_checkpoint on and asserts only the retention limit and the list order after every statement",
            "creation times of checkpoints have one-second resolution in the product: part `rollback` never exceeds the retention limit, part `retention` puts every CHECKPOINT into its own wall-clock second (the harness sleeps), so the expected retention order never depends on timing",
            "generated statements avoid the parser limitations recorded under C15 (negative literals, contextual keywords as column names)",
            "similarity scores are compared with tolerance 1e-5, everything else exactly (rows, nodes, edges as multisets)",
        ],
        parts: vec![
            PropPart::new("rollback", 1_000, 30_000, prog::rollback_strategy, check::run).shrink_iters(800).boxed(),
            PropPart::new("retention", 64, 2_000, prog::retention_strategy, check::run).shrink_iters(24).boxed(),
            PropPart::new("burst", 16, 160, prog::burst_strategy, check::burst).shrink_iters(8).boxed(),
            // auto-checkpoints before destructive statements compete for the same retention slots
            PropPart::new("auto", 96, 2_000, prog::auto_strategy, check::auto).shrink_iters(40).boxed(),
        ],
        children: vec![],
    });
}
