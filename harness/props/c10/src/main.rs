//! C10 — Raft restart never forgets a vote, a term or an acknowledged entry.
//!
//! One real `RaftNode::with_wal` is driven by generated protocol steps (vote requests, appends of
//! every shape, own elections, leadership + proposals, snapshot installs). Obligations are
//! collected from what the node *said* (replies it returned, elections it started, proposals it
//! accepted). At generated crash points the WAL file is cut at a byte position inside the bytes
//! the crashing step wrote; the node is rebuilt from the cut copy and must honour the
//! obligations; the script continues on the restarted node (up to three crashes). At every crash
//! step *all* (thorough) or a stratified sample (quick) of the other cut positions are also
//! restarted and checked.

use nv_engine::crashkit::cut_points;
use nv_engine::{main_for, pick, walframe, CaseCtx, Fail, PropDef, PropPart, Tier};
use proptest::prelude::*;
use serde::{Deserialize, Serialize};
use sha2::{Digest, Sha256};
use std::collections::BTreeMap;
use std::path::{Path, PathBuf};
use std::sync::Arc;
use tensor_chain::block::{Block, BlockHeader};
use tensor_chain::network::{
    AppendEntries, AppendEntriesResponse, LogEntry, MemoryTransport, Message, RequestVote, RequestVoteResponse,
};
use tensor_chain::raft::{RaftConfig, RaftNode, RaftState, SnapshotMetadata};
use tensor_store::{SparseVector, TensorStore};

const ME: &str = "n0";

#[derive(Clone, Debug, Serialize, Deserialize)]
enum LogRel {
    Behind,
    Equal,
    Ahead,
}

#[derive(Clone, Debug, Serialize, Deserialize)]
enum AppendMode {
    /// prev = node's last entry, no entries
    Heartbeat,
    /// prev = node's last entry, k new entries of the leader's term
    Extend(u8),
    /// rewrite from a chosen index with k entries of the leader's (higher) term
    Conflict(u16, u8),
    /// resend the node's last k entries unchanged
    Resend(u8),
    /// prev beyond the node's log: must be refused
    BadPrev,
}

#[derive(Clone, Debug, Serialize, Deserialize)]
enum Step {
    RequestVote { dterm: u8, cand: u8, log: LogRel },
    Append { dterm: u8, leader: u8, mode: AppendMode, commit: u16 },
    StartElection,
    /// a peer's granted vote arrives (the node becomes leader if it was candidate)
    VoteArrives(u8),
    /// a peer's successful append answer arrives at the leader
    AckArrives(u8),
    Propose,
    /// the leader proposes a codebook replacement (a log entry like any other)
    ProposeCodebook,
    /// become leader if necessary (own election, a granted vote, one successful append answer), then propose
    LeadAndPropose,
    /// install a snapshot holding the node's log plus k new entries, then a heartbeat from that leader
    InstallSnapshot {
        dterm: u8,
        extra: i8,
        /// number of trailing UNCOMMITTED entries of the node's log that the snapshot holds in a
        /// newer term instead (the node kept a deposed leader's suffix; the snapshot overwrites it)
        #[serde(default)]
        rewrite: u8,
    },
    /// log compaction behind a snapshot of the committed prefix (truncate_log with one trailing
    /// entry kept): the in-memory log loses its head, the WAL keeps every entry
    Compact { back: u8 },
}

#[derive(Clone, Debug, Serialize, Deserialize)]
struct Scripted {
    step: Step,
    /// crash during this step at this fraction of the bytes it wrote (None = no crash)
    crash: Option<u16>,
}

#[derive(Clone, Debug, Serialize, Deserialize)]
struct Case {
    steps: Vec<Scripted>,
}

fn step_strategy() -> impl Strategy<Value = Step> {
    let rel = prop_oneof![Just(LogRel::Behind), Just(LogRel::Equal), Just(LogRel::Ahead)];
    let mode = prop_oneof![
        2 => Just(AppendMode::Heartbeat),
        5 => (1u8..4).prop_map(AppendMode::Extend),
        3 => (any::<u16>(), 1u8..3).prop_map(|(i, k)| AppendMode::Conflict(i, k)),
        1 => (1u8..3).prop_map(AppendMode::Resend),
        1 => Just(AppendMode::BadPrev),
    ];
    prop_oneof![
        5 => (0u8..4, 1u8..3, rel).prop_map(|(dterm, cand, log)| Step::RequestVote { dterm, cand, log }),
        8 => (0u8..3, 1u8..3, mode, any::<u16>()).prop_map(|(dterm, leader, mode, commit)| Step::Append { dterm, leader, mode, commit }),
        3 => Just(Step::StartElection),
        3 => (1u8..3).prop_map(Step::VoteArrives),
        2 => (1u8..3).prop_map(Step::AckArrives),
        3 => Just(Step::Propose),
        1 => Just(Step::ProposeCodebook),
        3 => Just(Step::LeadAndPropose),
        2 => (0u8..3, -2i8..3, prop_oneof![3 => Just(0u8), 2 => 1u8..4]).prop_map(|(dterm, extra, rewrite)| Step::InstallSnapshot { dterm, extra, rewrite }),
        2 => (0u8..3).prop_map(|back| Step::Compact { back }),
    ]
}

fn case_strategy(t: Tier) -> impl Strategy<Value = Case> {
    let max = t.pick(22usize, 30usize);
    prop::collection::vec((step_strategy(), prop::option::weighted(0.22, any::<u16>())), 1..max).prop_map(|v| Case {
        steps: v.into_iter().map(|(step, crash)| Scripted { step, crash }).collect(),
    })
}

// ------------------------------------------------------------------ driver

#[derive(Clone, Debug, PartialEq, Eq)]
struct Ent {
    term: u64,
    uid: u64,
}

#[derive(Default, Clone)]
struct Obligations {
    /// highest term in any reply emitted or election started in completed steps
    t_max: u64,
    /// term -> candidate of each vote the node said it granted (or cast for itself)
    votes: BTreeMap<u64, String>,
    /// index -> entry acknowledged to a leader (success reply covering it) or accepted as leader
    acked: BTreeMap<u64, Ent>,
    /// acks that cover entries brought in by a snapshot install
    acked_via_snapshot: bool,
}

struct Driver {
    dir: nv_engine::scratch::Dir,
    gen: u32,
    wal: PathBuf,
    node: RaftNode,
    scratch: TensorStore,
    next_uid: u64,
    ob: Obligations,
    /// a previous crash in this chain cut strictly inside a record and the log was appended to afterwards
    torn_tail_then_append: bool,
    torn_tail_pending: bool,
    /// the step being executed carries entries that conflict with the node's log from this index on
    step_truncates_from: Option<u64>,
    /// the live node's whole log as last seen (compaction drains the head of the in-memory log;
    /// the drained entries are committed and stay what they were)
    seen: Vec<(LogEntry, Ent)>,
}

fn peers() -> Vec<String> {
    vec!["n1".to_string(), "n2".to_string()]
}

fn config() -> RaftConfig {
    let mut c = RaftConfig::default();
    c.election_timeout = (8000, 9000);
    c.auto_heartbeat = false;
    c.enable_pre_vote = false;
    // fast path and geometric tie-break do not touch persistence
    c.enable_geometric_tiebreak = false;
    // compaction (Step::Compact) keeps one entry behind the snapshot point
    c.snapshot_trailing_logs = 1;
    c
}

fn open_node(path: &Path) -> std::io::Result<RaftNode> {
    let tr = Arc::new(MemoryTransport::new(ME.to_string()));
    RaftNode::with_wal(ME.to_string(), peers(), tr, config(), path)
}

fn block(uid: u64) -> Block {
    let header = BlockHeader {
        height: uid,
        prev_hash: [0u8; 32],
        tx_root: [0u8; 32],
        state_root: [0u8; 32],
        delta_embedding: SparseVector::new(0),
        quantized_codes: Vec::new(),
        timestamp: uid,
        proposer: "p".to_string(),
        signature: Vec::new(),
    };
    Block::new(header, Vec::new())
}

fn read_state(node: &RaftNode, scratch: &TensorStore) -> (u64, Option<String>, Vec<(LogEntry, Ent)>) {
    let _ = node.save_to_store(scratch);
    match RaftNode::load_from_store(ME, scratch) {
        Some((t, v, log)) => {
            let l = log.into_iter().map(|e| { let en = Ent { term: e.term, uid: e.block.header.timestamp }; (e, en) }).collect();
            (t, v, l)
        },
        None => (0, None, Vec::new()),
    }
}

enum Outcome {
    /// the step wrote nothing to the log and produced no obligation-relevant output
    Nothing,
    Vote(RequestVoteResponse, String),
    Append(AppendEntriesResponse, bool),
    Election,
    Proposed(u64),
    ElectionThenProposed(u64),
    Other,
}

impl Driver {
    fn new() -> Result<Self, Fail> {
        let dir = nv_engine::scratch::Dir::new("c10");
        let wal = dir.join("raft-0.wal");
        let node = open_node(&wal).map_err(|e| Fail::new("harness", format!("cannot create node: {e}")))?;
        Ok(Self {
            dir,
            gen: 0,
            wal,
            node,
            scratch: SCRATCH.with(|s| s.clone()),
            next_uid: 1,
            ob: Obligations::default(),
            torn_tail_then_append: false,
            torn_tail_pending: false,
            step_truncates_from: None,
            seen: Vec::new(),
        })
    }

    /// State of the LIVE node with its log completed by the head that compaction drained from
    /// memory (position i holds index i + 1 again).
    fn live_state(&mut self) -> (u64, Option<String>, Vec<(LogEntry, Ent)>) {
        let (t, v, l) = read_state(&self.node, &self.scratch);
        let base = match l.first() {
            Some(e) => (e.0.index as usize).saturating_sub(1),
            // an empty in-memory log: nothing drained unless compaction ran (it never empties the log)
            None => 0,
        };
        let mut full: Vec<(LogEntry, Ent)> = self.seen.iter().take(base).cloned().collect();
        full.extend(l);
        self.seen = full.clone();
        (t, v, full)
    }

    fn wal_len(&self) -> usize {
        std::fs::metadata(&self.wal).map(|m| m.len() as usize).unwrap_or(0)
    }

    fn entries(&mut self, from_index: u64, k: u8, term: u64) -> Vec<LogEntry> {
        (0..k as u64)
            .map(|j| {
                let uid = self.next_uid;
                self.next_uid += 1;
                LogEntry::new(term, from_index + j, block(uid))
            })
            .collect()
    }

    /// Execute one step on the live node; returns what the node said.
    fn exec(&mut self, step: &Step, ctx: &mut CaseCtx) -> Outcome {
        let (term, _vf, log) = self.live_state();
        let last_idx = log.len() as u64;
        let last_term = log.last().map(|e| e.1.term).unwrap_or(0);
        self.step_truncates_from = None;
        match step {
            Step::RequestVote { dterm, cand, log: rel } => {
                // dterm 0 = one below current (stale), 1 = current, 2.. = higher
                let t = (term + *dterm as u64).saturating_sub(1);
                let (li, lt) = match rel {
                    LogRel::Behind => (last_idx.saturating_sub(1), if last_idx > 1 { log[last_idx as usize - 2].1.term } else { 0 }),
                    LogRel::Equal => (last_idx, last_term),
                    LogRel::Ahead => (last_idx + 1, last_term.max(1)),
                };
                let cand_id = format!("n{cand}");
                let rv = RequestVote {
                    term: t,
                    candidate_id: cand_id.clone(),
                    last_log_index: li,
                    last_log_term: lt,
                    state_embedding: SparseVector::new(0),
                };
                match self.node.handle_message(&cand_id, &Message::RequestVote(rv)) {
                    Some(Message::RequestVoteResponse(r)) => {
                        ctx.label("step:request_vote");
                        Outcome::Vote(r, cand_id)
                    },
                    _ => Outcome::Other,
                }
            },
            Step::Append { dterm, leader, mode, commit } => {
                let t = (term + *dterm as u64).saturating_sub(1).max(last_term);
                let leader_id = format!("n{leader}");
                let (prev_i, prev_t, entries) = match mode {
                    AppendMode::Heartbeat => (last_idx, last_term, Vec::new()),
                    AppendMode::Extend(k) => (last_idx, last_term, self.entries(last_idx + 1, *k, t)),
                    AppendMode::Conflict(i, k) => {
                        if last_idx == 0 {
                            (0, 0, self.entries(1, *k, t))
                        } else {
                            let j = 1 + pick(*i, last_idx as usize) as u64; // 1..=last_idx
                            // a real conflict needs a leader term different from the stored one
                            if log[j as usize - 1].1.term >= t {
                                (last_idx, last_term, Vec::new())
                            } else {
                                let pt = if j > 1 { log[j as usize - 2].1.term } else { 0 };
                                ctx.label("step:append-conflict");
                                self.step_truncates_from = Some(j);
                                (j - 1, pt, self.entries(j, *k, t))
                            }
                        }
                    },
                    AppendMode::Resend(k) => {
                        let k = (*k as u64).min(last_idx);
                        let start = last_idx - k; // prev index
                        let pt = if start > 0 { log[start as usize - 1].1.term } else { 0 };
                        (start, pt, log[start as usize..].iter().map(|e| e.0.clone()).collect())
                    },
                    AppendMode::BadPrev => (last_idx + 2, last_term.max(1), Vec::new()),
                };
                let n_after = prev_i + entries.len() as u64;
                let ae = AppendEntries {
                    term: t,
                    leader_id: leader_id.clone(),
                    prev_log_index: prev_i,
                    prev_log_term: prev_t,
                    entries,
                    leader_commit: pick(*commit, n_after as usize + 1) as u64,
                    block_embedding: None,
                };
                match self.node.handle_message(&leader_id, &Message::AppendEntries(ae)) {
                    Some(Message::AppendEntriesResponse(r)) => {
                        ctx.label("step:append");
                        Outcome::Append(r, false)
                    },
                    _ => Outcome::Other,
                }
            },
            Step::StartElection => {
                if self.node.state() == RaftState::Leader {
                    return Outcome::Nothing;
                }
                self.node.start_election();
                ctx.label("step:start_election");
                Outcome::Election
            },
            Step::VoteArrives(p) => {
                if self.node.state() != RaftState::Candidate {
                    return Outcome::Nothing;
                }
                let from = format!("n{p}");
                let r = RequestVoteResponse { term, vote_granted: true, voter_id: from.clone() };
                let _ = self.node.handle_message(&from, &Message::RequestVoteResponse(r));
                if self.node.state() == RaftState::Leader {
                    ctx.label("became leader");
                }
                Outcome::Other
            },
            Step::AckArrives(p) => {
                if self.node.state() != RaftState::Leader {
                    return Outcome::Nothing;
                }
                let from = format!("n{p}");
                let r = AppendEntriesResponse { term, success: true, follower_id: from.clone(), match_index: 0, used_fast_path: false };
                let _ = self.node.handle_message(&from, &Message::AppendEntriesResponse(r));
                Outcome::Other
            },
            Step::Propose => {
                if self.node.state() != RaftState::Leader {
                    return Outcome::Nothing;
                }
                let uid = self.next_uid;
                self.next_uid += 1;
                match self.node.propose(block(uid)) {
                    Ok(i) => {
                        ctx.label("step:propose-accepted");
                        Outcome::Proposed(i)
                    },
                    Err(_) => Outcome::Other,
                }
            },
            Step::ProposeCodebook => {
                if self.node.state() != RaftState::Leader {
                    return Outcome::Nothing;
                }
                let snap = tensor_chain::codebook::GlobalCodebookSnapshot::new(4, Vec::new(), self.next_uid);
                self.next_uid += 1;
                match self.node.propose_codebook_replace(snap) {
                    Ok(i) => {
                        ctx.label("step:propose-codebook-accepted");
                        Outcome::Proposed(i)
                    },
                    Err(_) => Outcome::Other,
                }
            },
            Step::LeadAndPropose => {
                if self.node.state() != RaftState::Leader {
                    self.node.start_election();
                    let t = self.node.current_term();
                    // the election itself is an obligation even if the step is interrupted later;
                    // it is recorded by the caller through Outcome::ElectionThenProposed
                    let r = RequestVoteResponse { term: t, vote_granted: true, voter_id: "n1".to_string() };
                    let _ = self.node.handle_message(&"n1".to_string(), &Message::RequestVoteResponse(r));
                }
                if self.node.state() != RaftState::Leader {
                    return Outcome::Election;
                }
                let t = self.node.current_term();
                let r = AppendEntriesResponse { term: t, success: true, follower_id: "n1".to_string(), match_index: 0, used_fast_path: false };
                let _ = self.node.handle_message(&"n1".to_string(), &Message::AppendEntriesResponse(r));
                let uid = self.next_uid;
                self.next_uid += 1;
                match self.node.propose(block(uid)) {
                    Ok(i) => {
                        ctx.label("step:propose-accepted");
                        Outcome::ElectionThenProposed(i)
                    },
                    Err(_) => Outcome::Election,
                }
            },
            Step::Compact { back } => {
                let commit = self.node.commit_index().min(last_idx);
                if commit < 2 {
                    ctx.label("step:compact skipped (fewer than 2 committed entries)");
                    return Outcome::Nothing;
                }
                // snapshot point: the commit index or a little before it
                let idx = commit.saturating_sub(u64::from(*back)).max(2);
                let meta = SnapshotMetadata::new(idx, log[idx as usize - 1].1.term, [0u8; 32], peers(), 0);
                let before = self.node.log_length();
                let _ = self.node.truncate_log(&meta);
                if self.node.log_length() < before {
                    ctx.label("step:compact drained the head of the in-memory log");
                } else {
                    ctx.label("step:compact (nothing to drain)");
                }
                Outcome::Nothing
            },
            Step::InstallSnapshot { dterm, extra, rewrite } => {
                let mut t = (term + *dterm as u64).max(last_term).max(1);
                // extra > 0: the node's log plus new entries; extra <= 0: a snapshot of the committed
                // prefix that is shorter than the node's log (its uncommitted tail is dropped)
                let mut entries: Vec<LogEntry> = log.iter().map(|e| e.0.clone()).collect();
                // rewrite > 0: the snapshot's leader never had the node's uncommitted suffix; it holds
                // entries of a newer term at those indices
                let mut first_rewritten = None;
                if *rewrite > 0 && *extra > 0 {
                    let commit = self.node.commit_index() as usize;
                    let from = entries.len().saturating_sub(*rewrite as usize).max(commit);
                    if from < entries.len() {
                        t = t.max(last_term + 1);
                        let n = (entries.len() - from) as u8;
                        entries.truncate(from);
                        entries.extend(self.entries(from as u64 + 1, n, t));
                        first_rewritten = Some(from as u64 + 1);
                        ctx.label("step:install_snapshot over a conflicting uncommitted suffix");
                    }
                }
                if *extra > 0 {
                    let more = self.entries(last_idx + 1, *extra as u8, t);
                    entries.extend(more);
                } else {
                    let keep = entries.len().saturating_sub((-*extra) as usize + 1).max(1).min(entries.len());
                    entries.truncate(keep);
                    if entries.is_empty() {
                        entries = self.entries(1, 1, t);
                    }
                }
                let t = t.max(entries.last().map(|e| e.term).unwrap_or(t));
                let snap_term = entries.last().map(|e| e.term).unwrap_or(t);
                let data = match bitcode::serialize(&entries) {
                    Ok(d) => d,
                    Err(_) => return Outcome::Nothing,
                };
                let mut h = Sha256::new();
                h.update(&data);
                let hash: [u8; 32] = h.finalize().into();
                let li = entries.len() as u64;
                // the install replaces the whole log: entries beyond the snapshot (and a rewritten
                // suffix) are dropped by design
                self.step_truncates_from = Some(first_rewritten.unwrap_or(li + 1));
                let meta = SnapshotMetadata::new(li, snap_term, hash, peers(), data.len() as u64);
                if self.node.install_snapshot(meta, &data).is_err() {
                    return Outcome::Other;
                }
                ctx.label("step:install_snapshot");
                // the leader that sent the snapshot follows up with a heartbeat; the answer
                // acknowledges the snapshot's entries
                let leader_id = "n1".to_string();
                let ae = AppendEntries {
                    term: t.max(self.node.current_term()),
                    leader_id: leader_id.clone(),
                    prev_log_index: li,
                    prev_log_term: snap_term,
                    entries: Vec::new(),
                    leader_commit: li,
                    block_embedding: None,
                };
                match self.node.handle_message(&leader_id, &Message::AppendEntries(ae)) {
                    Some(Message::AppendEntriesResponse(r)) => Outcome::Append(r, true),
                    _ => Outcome::Other,
                }
            },
        }
    }

    /// Record the obligations created by a completed step.
    fn record(&mut self, out: &Outcome, ctx: &mut CaseCtx) -> Result<(), Fail> {
        let (term, _vf, log) = self.live_state();
        match out {
            Outcome::Vote(r, cand) => {
                self.ob.t_max = self.ob.t_max.max(r.term);
                if r.vote_granted {
                    if let Some(prev) = self.ob.votes.get(&r.term) {
                        if prev != cand {
                            let sig = if self.torn_tail_then_append { "double-vote-after-torn-tail" } else { "double-vote" };
                            ctx.fail(sig, format!("node granted its term-{} vote to {prev} and later to {cand}", r.term))?;
                        }
                    }
                    self.ob.votes.insert(r.term, cand.clone());
                }
            },
            Outcome::Append(r, via_snapshot) => {
                self.ob.t_max = self.ob.t_max.max(r.term);
                if r.success {
                    let m = r.match_index.min(log.len() as u64);
                    // entries above m that the request replaced are legitimately gone
                    let keep: Vec<u64> = self.ob.acked.keys().copied().collect();
                    for idx in keep {
                        let same = log.get(idx as usize - 1).map(|e| &e.1) == self.ob.acked.get(&idx);
                        if !same {
                            self.ob.acked.remove(&idx);
                        }
                    }
                    for idx in 1..=m {
                        self.ob.acked.insert(idx, log[idx as usize - 1].1.clone());
                    }
                    if *via_snapshot {
                        self.ob.acked_via_snapshot = true;
                    }
                }
            },
            Outcome::Election | Outcome::ElectionThenProposed(_) => {
                if let Outcome::ElectionThenProposed(i) = out {
                    if let Some(e) = log.get(*i as usize - 1) {
                        self.ob.acked.insert(*i, e.1.clone());
                    }
                }
                self.ob.t_max = self.ob.t_max.max(term);
                if let Some(prev) = self.ob.votes.get(&term) {
                    if prev != ME {
                        let sig = if self.torn_tail_then_append { "double-vote-after-torn-tail" } else { "double-vote" };
                        ctx.fail(sig, format!("node voted for {prev} in term {term} and then for itself"))?;
                    }
                }
                self.ob.votes.insert(term, ME.to_string());
            },
            Outcome::Proposed(i) => {
                if let Some(e) = log.get(*i as usize - 1) {
                    self.ob.acked.insert(*i, e.1.clone());
                }
            },
            Outcome::Nothing | Outcome::Other => {
                // a snapshot install / step-down may have replaced entries legitimately
                let keep: Vec<u64> = self.ob.acked.keys().copied().collect();
                let _ = keep;
            },
        }
        Ok(())
    }

    /// Restart a node from `path` and check it against `ob`. `full` = the cut kept every byte of the
    /// crashing step (the step completed).
    fn check_restart(
        &self,
        path: &Path,
        ob: &Obligations,
        torn_hist: bool,
        ctx: &mut CaseCtx,
        what: &str,
        exact: Option<&(u64, Option<String>, Vec<Ent>)>,
    ) -> Result<Option<RaftNode>, Fail> {
        let suffix = if torn_hist { "-after-torn-tail" } else { "" };
        let node = match open_node(path) {
            Ok(n) => n,
            Err(e) => {
                ctx.fail(
                    format!("restart-failed{suffix}"),
                    format!("RaftNode::with_wal failed on a prefix of the log the node wrote itself ({what}): {e}"),
                )?;
                return Ok(None);
            },
        };
        let (term, vf, log) = read_state(&node, &self.scratch);
        if term < ob.t_max {
            ctx.fail(format!("term-forgotten{suffix}"), format!("{what}: restarted with term {term} but the node had acted on term {}", ob.t_max))?;
        }
        if let Some(x) = ob.votes.get(&term) {
            if vf.as_ref() != Some(x) {
                ctx.fail(
                    format!("vote-forgotten{suffix}"),
                    format!("{what}: node had voted for {x} in term {term}; after restart voted_for = {vf:?}"),
                )?;
            }
            // behavioural probe: a competing candidate with a far better log must be refused
            let y = if x == "n1" { "n2" } else { "n1" };
            let rv = RequestVote {
                term,
                candidate_id: y.to_string(),
                last_log_index: 1_000_000,
                last_log_term: term + 1,
                state_embedding: SparseVector::new(0),
            };
            if let Some(Message::RequestVoteResponse(r)) = node.handle_message(&y.to_string(), &Message::RequestVote(rv)) {
                if r.vote_granted && r.term == term {
                    ctx.fail(
                        format!("second-vote-granted{suffix}"),
                        format!("{what}: node had voted for {x} in term {term}; after restart it also grants {y}"),
                    )?;
                }
            }
        }
        if let Some((lt, lv, ll)) = exact {
            // the crash lost nothing: recovery must restore exactly the state the node had
            let rl: Vec<Ent> = log.iter().map(|p| p.1.clone()).collect();
            if &rl != ll {
                ctx.fail(
                    format!("restart-log-differs{suffix}"),
                    format!("{what}: nothing was lost, yet the recovered log {rl:?} differs from the log the node held {ll:?}"),
                )?;
            }
            if term != *lt || (vf != *lv && lv.is_some()) {
                ctx.fail(
                    format!("restart-term-vote-differs{suffix}"),
                    format!("{what}: nothing was lost, yet recovered (term, vote) = ({term}, {vf:?}) and the node held ({lt}, {lv:?})"),
                )?;
            }
        }
        for (idx, e) in &ob.acked {
            let have = log.get(*idx as usize - 1).map(|p| &p.1);
            if have != Some(e) {
                let sig = if ob.acked_via_snapshot { "acked-entry-lost-after-snapshot-install".to_string() } else { format!("acked-entry-lost{suffix}") };
                ctx.fail(sig, format!("{what}: acknowledged entry {e:?} at index {idx} is {have:?} after restart"))?;
                break;
            }
        }
        Ok(Some(node))
    }
}

fn waive(ob: &Obligations, from: Option<u64>) -> Obligations {
    let mut o = ob.clone();
    if let Some(j) = from {
        o.acked.retain(|idx, _| *idx < j);
    }
    o
}

thread_local! {
    static SCRATCH: TensorStore = TensorStore::new();
}

fn run_case(case: &Case, ctx: &mut CaseCtx, all_cuts: bool) -> Result<(), Fail> {
    let mut d = Driver::new()?;
    let mut crashes = 0u32;
    let mut inside_record_crash = false;
    let mut restart_between_grant_and_competitor = false;
    let mut steps_after_torn = 0u32;
    let mut restarts_after_torn_append = 0u32;
    for sc in &case.steps {
        let before = d.wal_len();
        let ob_before = d.ob.clone();
        let out = d.exec(&sc.step, ctx);
        let after = d.wal_len();
        if after > before && d.torn_tail_pending {
            d.torn_tail_then_append = true;
            steps_after_torn += 1;
        }
        d.record(&out, ctx)?;
        if ctx.known_hit() {
            return Ok(());
        }
        let Some(frac) = sc.crash else { continue };
        if crashes >= 3 || after == before {
            continue;
        }
        crashes += 1;
        // bytes of the whole file; record boundaries by the harness's own frame reader. After a torn
        // tail the frame reader stops there, so boundaries are taken relative to `before`.
        let bytes = std::fs::read(&d.wal).map_err(|e| Fail::new("harness", e.to_string()))?;
        let mut bounds: Vec<usize> = walframe::boundaries(&bytes[before..]).into_iter().map(|b| b + before).collect();
        bounds.retain(|b| *b > before && *b <= after);
        let cuts = cut_points(before, after, all_cuts, 3, &bounds);
        let live = {
            let (t, v, l) = d.live_state();
            (t, v, l.into_iter().map(|p| p.1).collect::<Vec<Ent>>())
        };
        // every other cut position: restart-only check on a scratch copy
        for c in &cuts {
            let p = d.dir.join(&format!("probe-{c}.wal"));
            std::fs::write(&p, &bytes[..*c]).map_err(|e| Fail::new("harness", e.to_string()))?;
            // a step interrupted midway leaves the obligations of the completed steps; if the step
            // was a conflicting append, the truncation it legitimately started may already be logged
            let ob_mid = waive(&ob_before, d.step_truncates_from);
            let ob = if *c == after { &d.ob } else { &ob_mid };
            let what = format!("crash at byte {c} of {after} (step wrote {before}..{after})");
            let exact = if *c == after { Some(&live) } else { None };
            let _ = d.check_restart(&p, ob, d.torn_tail_then_append, ctx, &what, exact)?;
            let _ = std::fs::remove_file(&p);
            if ctx.known_hit() {
                return Ok(());
            }
        }
        ctx.label("crash");
        // the chosen cut continues the chain
        let c = cuts[pick(frac, cuts.len())];
        let completed = c == after;
        let inside = !bounds.contains(&c) && c != before;
        d.gen += 1;
        let p = d.dir.join(&format!("raft-{}.wal", d.gen));
        std::fs::write(&p, &bytes[..c]).map_err(|e| Fail::new("harness", e.to_string()))?;
        if !completed {
            d.ob = waive(&ob_before, d.step_truncates_from);
        }
        let what = format!("chain restart {} at byte {c} of {after}", d.gen);
        let torn_hist = d.torn_tail_then_append;
        if torn_hist {
            restarts_after_torn_append += 1;
        }
        let node = d.check_restart(&p, &d.ob.clone(), torn_hist, ctx, &what, if completed { Some(&live) } else { None })?;
        if ctx.known_hit() {
            return Ok(());
        }
        let Some(node) = node else { return Ok(()) };
        if inside {
            inside_record_crash = true;
            d.torn_tail_pending = true;
            ctx.label("crash inside a record");
        }
        if !d.ob.votes.is_empty() {
            restart_between_grant_and_competitor = true;
        }
        d.node = node;
        d.wal = p;
        // the restarted node's log is the new truth for later steps: obligations stay
    }
    if steps_after_torn > 0 {
        ctx.label("appended after a torn tail");
    }
    if restarts_after_torn_append > 0 {
        ctx.label("restart after torn tail + append");
    }
    if crashes >= 2 {
        ctx.label("chain of >=2 crashes");
    }
    if (inside_record_crash && steps_after_torn > 0 && restarts_after_torn_append > 0) || (restart_between_grant_and_competitor && crashes > 0) {
        ctx.set_nontrivial();
    }
    Ok(())
}

fn main() {
    main_for(PropDef {
        id: "C10",
        level: "fault_enumeration",
        rule: "scripts of 1..22 (quick) / 1..30 (thorough) protocol steps on one RaftNode::with_wal with up to 3 crash points; at each crash step the WAL is cut at every byte (thorough) or at record boundaries, +-1, header offsets and 3 interior points (quick) of the bytes that step wrote, each prefix restarted and checked; the generated cut continues the chain. non-trivial = a crash strictly inside a record followed by >=1 more persisted step and another restart, or a restart after a vote was granted; distinct = distinct generated script",
        assumptions: vec![
            "a crash loses everything after a byte position of the append-only WAL file and nothing before it (omitted fsync is invisible here)",
            "a step's reply is considered emitted only if every byte the step wrote survived (persist-before-reply)",
            "obligations come from the node's own replies; entries replaced by a later accepted AppendEntries/snapshot are legitimately gone",
            "messages are well-formed protocol messages built from the node's current log (same index+term never carries a different entry)",
            "codebook proposals and WAL rotation (1 GB) are outside the quantifier",
        ],
        parts: vec![
            PropPart::new("crash", 25_000, 1_500_000, case_strategy, |c: &Case, ctx: &mut CaseCtx| run_case(c, ctx, false)).boxed(),
            PropPart::new("crash_allcuts", 2_500, 300_000, case_strategy, |c: &Case, ctx: &mut CaseCtx| run_case(c, ctx, true)).boxed(),
        ],
        children: vec![],
    });
}
