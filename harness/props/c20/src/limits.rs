//! Independent re-statement of the limits documented in `tensor_chain::message_validation`
//! (module docs: "Numeric Bounds", "Embedding Validation", "Signed Message Validation", block /
//! snapshot request limits). `within_limits` is the reference for "the validator accepts only
//! messages within its limits": whatever `CompositeValidator::validate` accepts must satisfy it.
//! Time-dependent freshness of signed gossip is not re-stated (wall clock).

use tensor_chain::message_validation::MessageValidationConfig;
use tensor_chain::network::Message;
use tensor_store::SparseVector;

fn node_id(id: &str, what: &str, c: &MessageValidationConfig) -> Result<(), String> {
    if id.is_empty() {
        return Err(format!("{what}: empty node id"));
    }
    if id.len() > c.max_node_id_len {
        return Err(format!("{what}: node id of {} bytes > {}", id.len(), c.max_node_id_len));
    }
    Ok(())
}

fn term(t: u64, c: &MessageValidationConfig) -> Result<(), String> {
    if t == 0 {
        return Err("term 0".into());
    }
    if t > c.max_term {
        return Err(format!("term {t} > max_term {}", c.max_term));
    }
    Ok(())
}

fn shard(s: usize, c: &MessageValidationConfig) -> Result<(), String> {
    if s >= c.max_shard_id {
        return Err(format!("shard {s} >= max_shard_id {}", c.max_shard_id));
    }
    Ok(())
}

fn timeout(t: u64, c: &MessageValidationConfig) -> Result<(), String> {
    if t == 0 || t > c.max_tx_timeout_ms {
        return Err(format!("timeout {t} outside 1..={}", c.max_tx_timeout_ms));
    }
    Ok(())
}

fn nonzero(v: u64, what: &str) -> Result<(), String> {
    if v == 0 {
        return Err(format!("{what} is 0"));
    }
    Ok(())
}

pub fn embedding(e: &SparseVector, what: &str, c: &MessageValidationConfig) -> Result<(), String> {
    let dim = e.dimension();
    if dim == 0 {
        return Err(format!("{what}: dimension 0"));
    }
    if dim > c.max_embedding_dimension {
        return Err(format!("{what}: dimension {dim} > {}", c.max_embedding_dimension));
    }
    let mut sq = 0.0f64;
    for v in e.values() {
        if !v.is_finite() {
            return Err(format!("{what}: non-finite value"));
        }
        sq += f64::from(*v) * f64::from(*v);
    }
    // rounding slack: the product compares an f32 magnitude
    if sq.sqrt() > f64::from(c.max_embedding_magnitude) * 1.000_01 {
        return Err(format!("{what}: magnitude {} > {}", sq.sqrt(), c.max_embedding_magnitude));
    }
    let p = e.positions();
    for (i, &pos) in p.iter().enumerate() {
        if pos as usize >= dim {
            return Err(format!("{what}: position {pos} outside dimension {dim}"));
        }
        if i > 0 && p[i - 1] >= pos {
            return Err(format!("{what}: positions not strictly ascending"));
        }
    }
    Ok(())
}

pub fn within_limits(msg: &Message, c: &MessageValidationConfig) -> Result<(), String> {
    match msg {
        Message::RequestVote(m) => {
            term(m.term, c)?;
            node_id(&m.candidate_id, "candidate_id", c)?;
            embedding(&m.state_embedding, "state_embedding", c)
        },
        Message::PreVote(m) => {
            term(m.term, c)?;
            node_id(&m.candidate_id, "candidate_id", c)?;
            embedding(&m.state_embedding, "state_embedding", c)
        },
        Message::RequestVoteResponse(m) => {
            term(m.term, c)?;
            node_id(&m.voter_id, "voter_id", c)
        },
        Message::PreVoteResponse(m) => {
            term(m.term, c)?;
            node_id(&m.voter_id, "voter_id", c)
        },
        Message::AppendEntries(m) => {
            term(m.term, c)?;
            node_id(&m.leader_id, "leader_id", c)?;
            match &m.block_embedding {
                Some(e) => embedding(e, "block_embedding", c),
                None => Ok(()),
            }
        },
        Message::AppendEntriesResponse(m) => {
            term(m.term, c)?;
            node_id(&m.follower_id, "follower_id", c)
        },
        Message::BlockRequest(m) => {
            node_id(&m.requester_id, "requester_id", c)?;
            if m.to_height < m.from_height {
                return Err("to_height < from_height".into());
            }
            let count = u128::from(m.to_height) - u128::from(m.from_height) + 1;
            if count > u128::from(c.max_blocks_per_request) {
                return Err(format!("{count} blocks requested > {}", c.max_blocks_per_request));
            }
            Ok(())
        },
        Message::SnapshotRequest(m) => {
            node_id(&m.requester_id, "requester_id", c)?;
            if m.chunk_size == 0 || m.chunk_size > c.max_snapshot_chunk_size {
                return Err(format!("chunk_size {} outside 1..={}", m.chunk_size, c.max_snapshot_chunk_size));
            }
            Ok(())
        },
        Message::Ping { term: t } | Message::Pong { term: t } => term(*t, c),
        Message::TxPrepare(m) => {
            nonzero(m.tx_id, "tx_id")?;
            node_id(&m.coordinator, "coordinator", c)?;
            shard(m.shard_id, c)?;
            timeout(m.timeout_ms, c)?;
            embedding(&m.delta_embedding, "delta_embedding", c)
        },
        Message::TxPrepareResponse(m) => {
            nonzero(m.tx_id, "tx_id")?;
            shard(m.shard_id, c)
        },
        Message::TxCommit(m) => {
            nonzero(m.tx_id, "tx_id")?;
            m.shards.iter().try_for_each(|s| shard(*s, c))
        },
        Message::TxAbort(m) => {
            nonzero(m.tx_id, "tx_id")?;
            m.shards.iter().try_for_each(|s| shard(*s, c))
        },
        Message::TxAck(m) => {
            nonzero(m.tx_id, "tx_id")?;
            shard(m.shard_id, c)
        },
        Message::QueryRequest(m) => {
            nonzero(m.query_id, "query_id")?;
            shard(m.shard_id, c)?;
            timeout(m.timeout_ms, c)?;
            if m.query.len() > c.max_query_len {
                return Err(format!("query of {} bytes > {}", m.query.len(), c.max_query_len));
            }
            match &m.embedding {
                Some(e) => embedding(e, "embedding", c),
                None => Ok(()),
            }
        },
        Message::QueryResponse(m) => {
            nonzero(m.query_id, "query_id")?;
            shard(m.shard_id, c)
        },
        Message::SignedGossip(m) => {
            if m.envelope.signature.len() != 64 {
                return Err(format!("signature of {} bytes", m.envelope.signature.len()));
            }
            node_id(&m.envelope.sender, "sender", c)
        },
        // documented as "validated elsewhere or have no additional constraints"
        _ => Ok(()),
    }
}

/// Embeddings the validator has looked at when it accepted `msg`.
pub fn validated_embeddings(msg: &Message) -> Vec<&SparseVector> {
    match msg {
        Message::RequestVote(m) => vec![&m.state_embedding],
        Message::PreVote(m) => vec![&m.state_embedding],
        Message::AppendEntries(m) => m.block_embedding.iter().collect(),
        Message::TxPrepare(m) => vec![&m.delta_embedding],
        Message::QueryRequest(m) => m.embedding.iter().collect(),
        _ => Vec::new(),
    }
}
