//! Oracle functions over raw bytes, one per decoder family. The same functions run inside the
//! nv_c20 binary (proptest corruption part, corpus replay, re-check of fuzz artifacts) and
//! inside the libFuzzer targets of /verif/fuzz_c20.
//!
//! Every oracle asserts, for an arbitrary byte string fed to the real decoder:
//!   * no panic;
//!   * no single allocation above the decoder's declared limit (or, where none is declared,
//!     above a generous input-proportional bound);
//!   * the independent structural facts that can be read off the bytes (length prefix against
//!     the configured maximum, number of complete log frames, canonical LEB128 values…);
//!   * if decoding succeeds, re-encode -> decode is a fixed point.

use crate::alloc::measure;
use crate::canon::{canon, diff};
use std::panic::{catch_unwind, AssertUnwindSafe};
use std::path::PathBuf;
use std::sync::atomic::{AtomicU64, Ordering};

#[derive(Debug, Clone)]
pub struct OFail {
    pub sig: String,
    pub msg: String,
}

pub type ORes = Result<(), OFail>;

/// What an oracle run observed (for labels / non-triviality in the evidence).
#[derive(Default, Debug)]
pub struct Obs {
    pub labels: Vec<String>,
    /// the input got past the outermost length prefix / structural decode
    pub passed_prefix: bool,
    /// a value was decoded successfully
    pub decoded: bool,
}

impl Obs {
    pub fn label(&mut self, l: impl Into<String>) {
        let l = l.into();
        if self.labels.len() < 32 && !self.labels.contains(&l) {
            self.labels.push(l);
        }
    }
}

pub fn fail<T>(sig: impl Into<String>, msg: impl Into<String>) -> Result<T, OFail> {
    Err(OFail { sig: sig.into(), msg: msg.into() })
}

fn panic_text(p: Box<dyn std::any::Any + Send>) -> String {
    if let Some(s) = p.downcast_ref::<&str>() {
        (*s).to_string()
    } else if let Some(s) = p.downcast_ref::<String>() {
        s.clone()
    } else {
        "non-string panic".into()
    }
}

/// Categorical part of a panic message: letters only, digits collapsed.
pub fn panic_class(m: &str) -> String {
    let line = m.lines().next().unwrap_or("");
    let mut out = String::new();
    for c in line.chars() {
        if out.len() >= 40 {
            break;
        }
        if c.is_ascii_digit() {
            if !out.ends_with('#') {
                out.push('#');
            }
        } else if c.is_ascii_alphanumeric() {
            out.push(c);
        } else if !out.ends_with('_') {
            out.push('_');
        }
    }
    out
}

thread_local! {
    static PANIC_AT: std::cell::RefCell<(String, u32)> = const { std::cell::RefCell::new((String::new(), 0)) };
}

/// Quiet panic hook that remembers where the panic was raised (source file and line). Chained
/// in front of whatever hook is installed at the first guarded call.
fn install_location_hook(chain: bool) {
    static ONCE: std::sync::Once = std::sync::Once::new();
    ONCE.call_once(|| {
        let prev = std::panic::take_hook();
        std::panic::set_hook(Box::new(move |info| {
            if let Some(l) = info.location() {
                let file = l.file().rsplit('/').next().unwrap_or("").to_string();
                let _ = PANIC_AT.try_with(|p| *p.borrow_mut() = (file, l.line()));
            }
            if chain {
                prev(info);
            }
        }));
    });
}

/// Run a decoder step: allocation recorder armed, panics caught. `site` names the call; the
/// signature of a panic is made of the call site, the source file that raised it and the
/// categorical part of the message.
pub fn guarded<R>(site: &str, f: impl FnOnce() -> R) -> Result<(R, usize), OFail> {
    install_location_hook(true);
    let (r, max_alloc) = measure(|| catch_unwind(AssertUnwindSafe(f)));
    match r {
        Ok(v) => Ok((v, max_alloc)),
        Err(p) => {
            let m = panic_text(p);
            let (file, line) = PANIC_AT.with(|p| p.borrow().clone());
            fail(format!("panic:{site}:{file}:{}", panic_class(&m)), format!("{site} panicked at {file}:{line}: {m}"))
        },
    }
}

fn check_alloc(site: &str, got: usize, bound: usize, why: &str) -> ORes {
    if got > bound {
        return fail(
            format!("alloc:{site}"),
            format!("{site}: single allocation of {got} bytes requested, bound {bound} ({why})"),
        );
    }
    Ok(())
}

// ---------------------------------------------------------------------------------------------
// scratch files (log replay and snapshot load only work on paths)

static FILE_CTR: AtomicU64 = AtomicU64::new(0);

pub fn scratch_base() -> PathBuf {
    let p = match std::env::var("NV_SCRATCH_DIR") {
        Ok(d) => PathBuf::from(d),
        Err(_) => {
            let root = if std::path::Path::new("/dev/shm").is_dir() { "/dev/shm" } else { "/var/tmp" };
            PathBuf::from(format!("{root}/nv-{}", std::process::id()))
        },
    };
    let _ = std::fs::create_dir_all(&p);
    p
}

pub struct TmpFile(pub PathBuf);
impl TmpFile {
    pub fn new(tag: &str) -> Self {
        let n = FILE_CTR.fetch_add(1, Ordering::Relaxed);
        TmpFile(scratch_base().join(format!("c20-{tag}-{n}")))
    }
    pub fn with_bytes(tag: &str, bytes: &[u8]) -> Self {
        let t = Self::new(tag);
        std::fs::write(&t.0, bytes).expect("write scratch file");
        t
    }
}
impl Drop for TmpFile {
    fn drop(&mut self) {
        let _ = std::fs::remove_file(&self.0);
        // rotated / temporary siblings some product paths create
        for ext in ["tmp", "1", "2", "3"] {
            let mut s = self.0.clone().into_os_string();
            s.push(".");
            s.push(ext);
            let _ = std::fs::remove_file(PathBuf::from(s));
        }
        let _ = std::fs::remove_file(self.0.with_extension("tmp"));
    }
}

// ---------------------------------------------------------------------------------------------
// family 1: varint / delta ("ids")

/// Reference LEB128 decoder. `None` when the stream is not well formed (a group longer than ten
/// bytes, a tenth byte above 1, or an unterminated tail): the product's treatment of those is
/// unspecified, only safety is required.
pub fn ref_leb128(data: &[u8]) -> Option<Vec<u64>> {
    let mut out = Vec::new();
    let mut cur: u128 = 0;
    let mut n = 0u32;
    for &b in data {
        if n == 10 {
            return None;
        }
        cur |= u128::from(b & 0x7f) << (7 * n);
        n += 1;
        if b & 0x80 == 0 {
            if cur > u128::from(u64::MAX) {
                return None;
            }
            out.push(cur as u64);
            cur = 0;
            n = 0;
        }
    }
    if n != 0 {
        return None;
    }
    Some(out)
}

pub fn ids(data: &[u8], obs: &mut Obs) -> ORes {
    use tensor_compress::{compress_ids, decompress_ids, varint_decode, varint_encode};
    let n = data.len();
    // at most one u64 per input byte; Vec doubling may reserve twice that
    let bound = 32 * n + 4096;
    let (vals, a) = guarded("varint_decode", || varint_decode(data))?;
    check_alloc("varint_decode", a, bound, "32 x input + 4 KiB")?;
    if vals.len() > n {
        return fail("ids:more-values-than-bytes", format!("{} values from {} bytes", vals.len(), n));
    }
    if let Some(reference) = ref_leb128(data) {
        obs.decoded = true;
        obs.passed_prefix = true;
        obs.label("ids:well-formed");
        if reference != vals {
            return fail(
                "ids:varint-decode-differs-from-reference",
                format!("well-formed LEB128 {data:?}: reference {reference:?}, varint_decode {vals:?}"),
            );
        }
    } else {
        obs.label("ids:malformed");
    }
    let (re, _) = guarded("varint_encode", || varint_encode(&vals))?;
    let (vals2, _) = guarded("varint_decode", || varint_decode(&re))?;
    if vals2 != vals {
        return fail("ids:varint-not-fixed-point", format!("decode {vals:?} -> encode -> decode {vals2:?}"));
    }
    let (idl, a) = guarded("decompress_ids", || decompress_ids(data))?;
    check_alloc("decompress_ids", a, bound, "32 x input + 4 KiB")?;
    if idl.windows(2).any(|w| w[0] > w[1]) {
        return fail("ids:decoded-list-not-sorted", format!("decompress_ids gave a descending step: {idl:?}"));
    }
    if idl.len() != vals.len() {
        return fail("ids:length-differs", format!("{} deltas, {} ids", vals.len(), idl.len()));
    }
    let (re, _) = guarded("compress_ids", || compress_ids(&idl))?;
    let (idl2, _) = guarded("decompress_ids", || decompress_ids(&re))?;
    if idl2 != idl {
        return fail("ids:compress-not-fixed-point", format!("{idl:?} -> compress -> decompress {idl2:?}"));
    }
    Ok(())
}

// ---------------------------------------------------------------------------------------------
// family 2: run-length data as persisted (bitcode image of RleEncoded<i64>)

/// bitcode spends at least one bit per primitive per element, so a structurally valid image can
/// legitimately expand to about 24 bytes per input bit (a `Vec<String>` of empty strings), twice
/// that with `Vec` growth: input-proportional bounds for bitcode containers use this factor.
pub const BITCODE_AMP: usize = 512;
/// The product uses bitcode's serde mode: collections are pre-allocated through serde's
/// `size_hint::cautious`, i.e. at most 1 MiB worth of elements for a claimed length before any
/// element is decoded (measured: `nv_c20 child calibrate`); a hash map rounds its bucket count
/// up to a power of two above 8/7 of that (observed 2 228 240 bytes for `HashMap<usize, bool>`).
pub const BITCODE_SLACK: usize = (4 << 20) + 65536;
pub fn amp() -> usize {
    static AMP: std::sync::OnceLock<usize> = std::sync::OnceLock::new();
    *AMP.get_or_init(|| std::env::var("NV_C20_AMP").ok().and_then(|s| s.parse().ok()).unwrap_or(BITCODE_AMP))
}

/// Largest single request the counting allocator can still serve from a no-reserve mapping; a
/// decoder that would ask for more is not executed (a failed allocation aborts the process).
pub const MAPPABLE: u128 = 1 << 44;

/// Largest number of output elements an oracle is willing to let a decoder actually produce.
pub const WORK_CAP: u64 = 1 << 20;

pub fn rle(data: &[u8], obs: &mut Obs) -> ORes {
    use tensor_compress::{rle_decode, rle_encode, RleEncoded};
    let n = data.len();
    let (r, a) = guarded("bitcode:RleEncoded", || bitcode::deserialize::<RleEncoded<i64>>(data))?;
    check_alloc("bitcode:RleEncoded", a, amp() * n + BITCODE_SLACK, "512 x input + 4 MiB + 64 KiB")?;
    let Ok(enc) = r else {
        obs.label("rle:reject");
        return Ok(());
    };
    obs.passed_prefix = true;
    rle_value(&enc, n, obs)?;
    let _ = (rle_encode::<i64>, rle_decode::<i64>);
    Ok(())
}

/// Decode one structurally valid `RleEncoded<i64>`; `input_len` is the size of the bytes it came from.
pub fn rle_value(enc: &tensor_compress::RleEncoded<i64>, input_len: usize, obs: &mut Obs) -> ORes {
    use tensor_compress::{rle_decode, rle_encode};
    let paired: u64 = enc.values.iter().zip(&enc.run_lengths).map(|(_, r)| u64::from(*r)).sum();
    if paired > WORK_CAP {
        // a genuine expansion bomb: decoding would really produce that many elements; not executed
        obs.label("rle:expansion-above-work-cap-not-executed");
        return Ok(());
    }
    let total: u128 = enc.run_lengths.iter().map(|r| u128::from(*r)).sum();
    if total * 8 > MAPPABLE {
        // the reservation could not be served at all (the process would abort): not executed
        return fail(
            "alloc:rle_decode",
            format!("not executed: rle_decode would reserve {} bytes for {paired} elements (run lengths without a value are counted)", total * 8),
        );
    }
    let (dec, a) = guarded("rle_decode", || rle_decode(enc))?;
    // the output legitimately needs 8 bytes per produced element
    let bound = 16 * paired as usize + amp() * input_len + BITCODE_SLACK;
    check_alloc("rle_decode", a, bound, "16 x elements produced + 512 x input + 4 MiB + 64 KiB")?;
    if dec.len() as u64 != paired {
        return fail("rle:decoded-length", format!("{} elements, paired run lengths sum to {paired}", dec.len()));
    }
    obs.decoded = true;
    let (re, _) = guarded("rle_encode", || rle_encode(&dec))?;
    let (dec2, _) = guarded("rle_decode", || rle_decode(&re))?;
    if dec2 != dec {
        return fail("rle:not-fixed-point", "decode -> encode -> decode differs".to_string());
    }
    Ok(())
}

// ---------------------------------------------------------------------------------------------
// family 3: compressed snapshot ("csnap")

use tensor_compress::format::{CompressedSnapshot, CompressedValue};

/// Is it safe (bounded work) to hand this value to the product's decompressor, and what is the
/// allocation it may legitimately need?
enum Plan {
    Run { bound: usize, why: &'static str },
    Skip(&'static str),
    /// the decoder would request more than any allocator can serve (process abort): reported
    /// under the given allocation signature without being executed
    Abort(&'static str, u128),
}

fn plan_value(v: &CompressedValue) -> Plan {
    match v {
        CompressedValue::IdList(b) => Plan::Run { bound: 32 * b.len() + 4096, why: "32 x id bytes + 4 KiB" },
        CompressedValue::VectorRaw(x) => Plan::Run { bound: 8 * x.len() + 4096, why: "copy of the raw vector" },
        CompressedValue::VectorSparse { dimension, positions, values } => {
            // dense output of `dimension` f32 is the documented result; MAX_DIMENSION (u32::MAX) is the declared limit
            let declared = tensor_store::SPARSE_MAX_DIMENSION;
            if *dimension > (WORK_CAP as usize) && *dimension <= declared {
                return Plan::Skip("csnap:sparse-dimension-above-work-cap-not-executed");
            }
            let bytes = (*dimension as u128) * 4;
            if bytes > MAPPABLE && bytes <= isize::MAX as u128 {
                return Plan::Abort("alloc:decompress_vector:sparse", bytes);
            }
            let dim = (*dimension).min(declared);
            Plan::Run {
                bound: 4 * dim + 32 * positions.len() + 8 * values.len() + 4096,
                why: "4 x min(dimension, MAX_DIMENSION) + positions + values",
            }
        },
        CompressedValue::VectorTT { cores, shape, .. } => {
            let mut prod: Option<usize> = Some(1);
            for s in shape {
                prod = prod.and_then(|p| p.checked_mul(*s));
            }
            let core_elems: usize = cores.iter().map(|c| c.data.len()).sum();
            match prod {
                Some(p) if p as u64 <= WORK_CAP => {
                    let maxr = cores.iter().map(|c| c.shape.0.max(c.shape.2)).max().unwrap_or(1);
                    if maxr as u64 > 4096 || cores.len() > 64 {
                        return Plan::Skip("csnap:tt-rank-above-work-cap-not-executed");
                    }
                    Plan::Run { bound: 8 * p + 8 * core_elems + 8 * maxr * maxr + 65536, why: "output + cores + one slice" }
                },
                // overflow: a checked build panics in the multiplication, an optimised one wraps
                None => Plan::Run { bound: 65536, why: "shape product overflows" },
                Some(_) => Plan::Skip("csnap:tt-product-above-work-cap-not-executed"),
            }
        },
        CompressedValue::RleInt(_) => Plan::Skip("rle"), // handled by rle_value
        _ => Plan::Run { bound: 4096, why: "scalar / pointer" },
    }
}

pub fn csnap(data: &[u8], obs: &mut Obs) -> ORes {
    use tensor_compress::format::{decompress_ints, decompress_vector};
    let n = data.len();
    let (r, a) = guarded("CompressedSnapshot::deserialize", || CompressedSnapshot::deserialize(data))?;
    check_alloc("CompressedSnapshot::deserialize", a, amp() * n + BITCODE_SLACK, "512 x input + 4 MiB + 64 KiB")?;
    let snap = match r {
        Ok(s) => s,
        Err(_) => {
            obs.label("csnap:reject");
            // the file-level API must agree that this is not a snapshot (and stay safe)
            return csnap_load_file(data, true, obs);
        },
    };
    obs.passed_prefix = true;
    obs.decoded = true;
    let mut all_runnable = true;
    for e in &snap.entries {
        for (fname, v) in &e.fields {
            match plan_value(v) {
                Plan::Skip("rle") => {
                    if let CompressedValue::RleInt(enc) = v {
                        let paired: u64 = enc.values.iter().zip(&enc.run_lengths).map(|(_, r)| u64::from(*r)).sum();
                        let total: u128 = enc.run_lengths.iter().map(|r| u128::from(*r)).sum();
                        if paired > WORK_CAP || total * 8 > MAPPABLE {
                            all_runnable = false;
                        }
                        rle_value(enc, n, obs)?;
                        if paired <= WORK_CAP {
                            let (ints, _) = guarded("decompress_ints", || decompress_ints(v))?;
                            if ints.len() as u64 != paired {
                                return fail("csnap:ints-length", format!("field {fname}: {} ints, expected {paired}", ints.len()));
                            }
                        }
                    }
                },
                Plan::Skip(l) => {
                    obs.label(l);
                    all_runnable = false;
                },
                Plan::Abort(sig, bytes) => {
                    // A request of this size cannot be served (the process would abort), so the
                    // decoder is run in a child process: it must refuse the value.
                    if let CompressedValue::VectorSparse { dimension, .. } = v {
                        match sparse_dimension_probe(*dimension) {
                            Some(true) => {
                                obs.label("csnap:sparse-dimension-above-limit-rejected-in-child");
                                continue;
                            },
                            Some(false) => {},
                            None => {
                                obs.label("csnap:sparse-dimension-probe-inconclusive");
                                all_runnable = false;
                                continue;
                            },
                        }
                    }
                    return fail(sig, format!("field {fname}: decompress_vector does not refuse a sparse dimension above MAX_DIMENSION and would request {bytes} bytes (observed in a child process)"));
                },
                Plan::Run { bound, why } => {
                    let site = match v {
                        CompressedValue::VectorTT { .. } => "decompress_vector:tt",
                        CompressedValue::VectorSparse { .. } => "decompress_vector:sparse",
                        CompressedValue::IdList(_) => "decompress_vector:idlist",
                        _ => "decompress_vector",
                    };
                    let (r, a) = guarded(site, || decompress_vector(v))?;
                    check_alloc(site, a, bound, why)?;
                    if let (Ok(dense), CompressedValue::VectorSparse { dimension, .. }) = (&r, v) {
                        if dense.len() != *dimension {
                            return fail("csnap:sparse-length", format!("dense {} vs dimension {dimension}", dense.len()));
                        }
                    }
                },
            }
        }
    }
    // structural fixed point of the container
    let (re, _) = guarded("CompressedSnapshot::serialize", || snap.serialize())?;
    match re {
        Ok(bytes) => {
            let (again, _) = guarded("CompressedSnapshot::deserialize", || CompressedSnapshot::deserialize(&bytes))?;
            match again {
                Ok(s2) => {
                    if let Some(d) = diff(&canon(&snap), &canon(&s2)) {
                        return fail("csnap:not-fixed-point", format!("serialize -> deserialize differs at {d}"));
                    }
                },
                Err(e) => return fail("csnap:reencoded-rejected", format!("re-encoded snapshot rejected: {e}")),
            }
        },
        Err(e) => return fail("csnap:reencode-failed", format!("{e}")),
    }
    if all_runnable {
        csnap_load_file(data, false, obs)?;
    } else {
        obs.label("csnap:file-load-not-executed");
    }
    Ok(())
}

/// The public persistence path: `TensorStore::load_snapshot_compressed(path)`.
fn csnap_load_file(data: &[u8], expect_err: bool, obs: &mut Obs) -> ORes {
    let f = TmpFile::with_bytes("csnap", data);
    let (r, a) = guarded("load_snapshot_compressed", || tensor_store::TensorStore::load_snapshot_compressed(&f.0).map(|s| s.scan("").len()))?;
    // every value was planned above; the loader additionally builds the store: proportional to the data
    let _ = a;
    match r {
        Ok(nkeys) => {
            if expect_err {
                return fail(
                    "csnap:file-accepts-what-deserialize-rejects",
                    format!("load_snapshot_compressed returned a store with {nkeys} keys for bytes CompressedSnapshot::deserialize rejects"),
                );
            }
            obs.label("csnap:file-loaded");
        },
        Err(_) => obs.label("csnap:file-rejected"),
    }
    Ok(())
}

// ---------------------------------------------------------------------------------------------
// family 4: network frames ("frame")

use tensor_chain::message_validation::{CompositeValidator, MessageValidationConfig, MessageValidator};
use tensor_chain::network::Message;
use tensor_chain::tcp::compression::{CompressionConfig, CompressionMethod, MAX_DECOMPRESSED_SIZE};
use tensor_chain::tcp::{LengthDelimitedCodec, TcpError};

/// Drive a future whose I/O is an in-memory slice (never pending).
pub fn block_on_ready<F: std::future::Future>(f: F) -> F::Output {
    let mut f = std::pin::pin!(f);
    let waker = std::task::Waker::noop();
    let mut cx = std::task::Context::from_waker(waker);
    for _ in 0..1_000_000 {
        if let std::task::Poll::Ready(v) = f.as_mut().poll(&mut cx) {
            return v;
        }
    }
    panic!("in-memory future stayed pending");
}

#[derive(Clone, Copy, Debug, PartialEq, Eq)]
pub struct CodecCfg {
    pub v2: bool,
    pub lz4: bool,
    pub min_size: usize,
    pub max_frame_length: usize,
}

impl CodecCfg {
    pub fn build(&self) -> LengthDelimitedCodec {
        let cc = if self.lz4 {
            CompressionConfig::default().with_method(CompressionMethod::Lz4).with_min_size(self.min_size)
        } else {
            CompressionConfig::disabled()
        };
        let mut c = LengthDelimitedCodec::with_compression(self.max_frame_length, cc);
        c.set_compression_enabled(self.lz4);
        c
    }
    /// One header byte of a fuzz / corpus input selects the configuration.
    pub fn from_byte(b: u8) -> Self {
        const MAXES: [usize; 8] = [16, 64, 200, 256, 1024, 4096, 65536, 16 * 1024 * 1024];
        CodecCfg {
            v2: b & 1 != 0,
            lz4: b & 2 != 0,
            min_size: if b & 4 != 0 { 0 } else { 256 },
            max_frame_length: MAXES[usize::from(b >> 5)],
        }
    }
    pub fn to_byte(&self) -> Option<u8> {
        const MAXES: [usize; 8] = [16, 64, 200, 256, 1024, 4096, 65536, 16 * 1024 * 1024];
        let i = MAXES.iter().position(|m| *m == self.max_frame_length)?;
        let ms = match self.min_size {
            0 => 4,
            256 => 0,
            _ => return None,
        };
        Some(u8::from(self.v2) | (u8::from(self.lz4) << 1) | ms | ((i as u8) << 5))
    }
}

pub fn encode_frame(codec: &LengthDelimitedCodec, v2: bool, msg: &Message) -> Result<Vec<u8>, TcpError> {
    if v2 {
        codec.encode_v2(msg)
    } else {
        codec.encode(msg)
    }
}

/// The real stream decoder: length prefix check, payload buffer, (decompression,) bitcode.
pub fn read_one_frame(codec: &LengthDelimitedCodec, v2: bool, stream: &[u8]) -> Result<Option<Message>, TcpError> {
    let mut rd: &[u8] = stream;
    if v2 {
        block_on_ready(codec.read_frame_v2(&mut rd))
    } else {
        block_on_ready(codec.read_frame(&mut rd))
    }
}

/// `data[0]` selects the codec configuration, the rest is the byte stream a peer sent.
pub fn frame(data: &[u8], obs: &mut Obs) -> ORes {
    let Some((&cb, stream)) = data.split_first() else {
        return Ok(());
    };
    frame_with(CodecCfg::from_byte(cb), stream, obs)
}

pub fn frame_with(cfg: CodecCfg, stream: &[u8], obs: &mut Obs) -> ORes {
    let codec = cfg.build();
    let max = cfg.max_frame_length;
    let site = if cfg.v2 { "read_frame_v2" } else { "read_frame" };
    let (res, a) = guarded(site, || read_one_frame(&codec, cfg.v2, stream))?;
    // declared limits: the payload buffer is at most max_frame_length, LZ4 output at most
    // MAX_DECOMPRESSED_SIZE; bitcode then works proportionally to the payload it is handed,
    // which is at most max_frame_length and at most what the stream can hold / expand to.
    let (bound, why) = if cfg.v2 {
        let payload = max.min(stream.len().saturating_mul(256) + 64);
        (max + MAX_DECOMPRESSED_SIZE + amp() * payload + BITCODE_SLACK, "max_frame_length + MAX_DECOMPRESSED_SIZE + 512 x payload + 4 MiB + 64 KiB")
    } else {
        let payload = max.min(stream.len());
        (max + amp() * payload + BITCODE_SLACK, "max_frame_length + 512 x payload + 4 MiB + 64 KiB")
    };
    check_alloc(site, a, bound, why)?;

    // what the prefix alone dictates (own reading of the 4-byte big-endian length)
    if stream.len() < 4 {
        return match res {
            Ok(None) => Ok(()),
            Ok(Some(_)) => fail("frame:message-from-short-stream", "a message out of fewer than 4 bytes".to_string()),
            Err(_) => fail("frame:error-on-clean-eof", "fewer than 4 bytes must read as end of stream".to_string()),
        };
    }
    let len = u32::from_be_bytes([stream[0], stream[1], stream[2], stream[3]]) as usize;
    let body = &stream[4..];
    if len > max {
        return match res {
            Err(TcpError::MessageTooLarge { .. }) => {
                obs.label("frame:prefix-above-max-rejected");
                Ok(())
            },
            other => fail(
                "frame:prefix-above-max-not-rejected",
                format!("length prefix {len} > max_frame_length {max}: got {:?}", other.map(|m| m.map(|m| m.type_name()))),
            ),
        };
    }
    if len == 0 || body.len() < len {
        return match res {
            Err(_) => Ok(()),
            Ok(x) => fail(
                "frame:truncated-frame-accepted",
                format!("prefix {len}, {} body bytes: got Ok({:?})", body.len(), x.map(|m| m.type_name())),
            ),
        };
    }
    obs.passed_prefix = true;
    let msg = match res {
        Ok(Some(m)) => m,
        Ok(None) => return fail("frame:eof-on-complete-frame", "complete frame read as end of stream".to_string()),
        Err(_) => {
            obs.label("frame:payload-rejected");
            return Ok(());
        },
    };
    obs.decoded = true;
    obs.label(format!("frame:decoded:{}", msg.type_name()));
    if cfg.v2 && body[0] & 1 == 1 {
        obs.label("frame:decoded-compressed");
    }
    // fixed point: what was accepted must survive this codec's own encode -> decode
    let (re, _) = guarded("encode", || encode_frame(&codec, cfg.v2, &msg))?;
    match re {
        Ok(bytes) => {
            let (again, _) = guarded(site, || read_one_frame(&codec, cfg.v2, &bytes))?;
            match again {
                Ok(Some(m2)) => {
                    if let Some(d) = diff(&canon(&msg), &canon(&m2)) {
                        return fail("frame:not-fixed-point", format!("decoded -> encode -> decode differs at {d}"));
                    }
                },
                other => {
                    return fail(
                        format!("frame:{}:reencoded-frame-rejected", if cfg.v2 { "v2" } else { "v1" }),
                        format!("frame produced by encode is not read back: {:?}", other.map(|m| m.map(|m| m.type_name()))),
                    )
                },
            }
        },
        Err(TcpError::MessageTooLarge { .. }) => obs.label("frame:decoded-but-too-large-to-reencode"),
        Err(e) => return fail("frame:reencode-failed", format!("{e:?}")),
    }
    validated_use(&msg, obs)
}

/// message_validation with default limits: an accepted message must be within the documented
/// limits (own re-statement of the table in the module docs), and its embeddings must then be
/// safe to use.
pub fn validated_use(msg: &Message, obs: &mut Obs) -> ORes {
    // default limits, and a second configuration with every limit drawn tight (and the age
    // limit wide, so that acceptance of signed gossip does not depend on the wall clock)
    let tight = MessageValidationConfig {
        enabled: true,
        max_term: 1000,
        max_shard_id: 16,
        max_tx_timeout_ms: 1000,
        max_node_id_len: 8,
        max_key_len: 16,
        max_embedding_dimension: 32,
        max_embedding_magnitude: 100.0,
        max_query_len: 8,
        max_message_age_ms: u64::MAX / 4,
        max_blocks_per_request: 3,
        max_snapshot_chunk_size: 256,
    };
    for (tag, cfg) in [("default", MessageValidationConfig::default()), ("tight", tight)] {
        let v = CompositeValidator::new(cfg.clone());
        let from = "peer-1".to_string();
        let (r, _) = guarded("message_validation", || v.validate(msg, &from).is_ok())?;
        if !r {
            obs.label(format!("validate:{tag}:rejected"));
            continue;
        }
        obs.label(format!("validate:{tag}:accepted"));
        if let Err(why) = crate::limits::within_limits(msg, &cfg) {
            return fail(
                format!("validate:accepts-outside-limits:{}", msg.type_name()),
                format!("validator ({tag} limits) accepted a {} that violates: {why}", msg.type_name()),
            );
        }
        for e in crate::limits::validated_embeddings(msg) {
            let dim = e.dimension();
            let (dense, a) = guarded("SparseVector::to_dense(validated)", || e.to_dense())?;
            check_alloc("SparseVector::to_dense(validated)", a, 4 * cfg.max_embedding_dimension + 4096, "4 x max_embedding_dimension")?;
            if dense.len() != dim {
                return fail("validate:dense-length", format!("{} vs dimension {dim}", dense.len()));
            }
        }
    }
    Ok(())
}

// ---------------------------------------------------------------------------------------------
// family 5: write-ahead logs ("wal")

#[derive(Clone, Copy, Debug, PartialEq, Eq)]
pub enum WalKind {
    Store,
    Raft,
    Tx,
}

impl WalKind {
    pub fn from_byte(b: u8) -> (Self, bool) {
        let k = match b & 3 {
            0 => WalKind::Store,
            1 => WalKind::Raft,
            _ => WalKind::Tx,
        };
        (k, b & 4 == 0)
    }
    pub fn to_byte(self, verify: bool) -> u8 {
        let k = match self {
            WalKind::Store => 0,
            WalKind::Raft => 1,
            WalKind::Tx => 2,
        };
        k | if verify { 0 } else { 4 }
    }
    pub fn name(self) -> &'static str {
        match self {
            WalKind::Store => "store",
            WalKind::Raft => "raft",
            WalKind::Tx => "tx",
        }
    }
}

/// CRC-32 (IEEE), bitwise; independent of crc32fast.
pub fn crc32(data: &[u8]) -> u32 {
    let mut crc: u32 = 0xffff_ffff;
    for &b in data {
        crc ^= u32::from(b);
        for _ in 0..8 {
            let mask = (!(crc & 1)).wrapping_add(1);
            crc = (crc >> 1) ^ (0xedb8_8320 & mask);
        }
    }
    !crc
}

/// Own reading of `[len u32 LE][crc u32 LE][payload]`: (payload range, stored crc) of every complete frame.
pub fn wal_frames(bytes: &[u8]) -> Vec<(std::ops::Range<usize>, u32)> {
    let mut out = Vec::new();
    let mut pos = 0usize;
    while pos + 8 <= bytes.len() {
        let len = u32::from_le_bytes(bytes[pos..pos + 4].try_into().unwrap()) as usize;
        let crc = u32::from_le_bytes(bytes[pos + 4..pos + 8].try_into().unwrap());
        let Some(end) = (pos + 8).checked_add(len) else { break };
        if end > bytes.len() {
            break;
        }
        out.push((pos + 8..end, crc));
        pos = end;
    }
    out
}

/// Image of one log entry: canonical structure plus the `Debug` rendering (a second opinion that
/// does not go through `Serialize`; left out for `MetadataSet`, whose `TensorData` is a hash map).
pub fn wal_image<T: serde::Serialize + std::fmt::Debug>(e: &T) -> crate::canon::Canon {
    let d = format!("{e:?}");
    let dbg = if d.starts_with("MetadataSet") { String::new() } else { d };
    crate::canon::Canon::Seq(vec![canon(e), crate::canon::Canon::Str(dbg)])
}

/// Entries of any of the three logs, as canonical images.
pub fn wal_replay(kind: WalKind, verify: bool, path: &std::path::Path) -> Result<Vec<crate::canon::Canon>, String> {
    match kind {
        WalKind::Store => {
            let mut cfg = tensor_store::wal::WalConfig::default();
            cfg.verify_on_replay = verify;
            let w = tensor_store::wal::TensorWal::open(path, cfg).map_err(|e| e.to_string())?;
            w.replay().map(|v| v.iter().map(wal_image).collect()).map_err(|e| e.to_string())
        },
        WalKind::Raft => {
            let mut cfg = tensor_chain::raft_wal::WalConfig::default();
            cfg.verify_on_replay = verify;
            cfg.pre_check_space = false;
            let w = tensor_chain::raft_wal::RaftWal::open_with_config(path, cfg).map_err(|e| e.to_string())?;
            w.replay().map(|v| v.iter().map(wal_image).collect()).map_err(|e| e.to_string())
        },
        WalKind::Tx => {
            let mut cfg = tensor_chain::raft_wal::WalConfig::default();
            cfg.verify_on_replay = verify;
            cfg.pre_check_space = false;
            let w = tensor_chain::tx_wal::TxWal::open_with_config(path, cfg).map_err(|e| e.to_string())?;
            w.replay().map(|v| v.iter().map(wal_image).collect()).map_err(|e| e.to_string())
        },
    }
}

fn wal_payload_decodes(kind: WalKind, payload: &[u8]) -> Option<crate::canon::Canon> {
    match kind {
        WalKind::Store => bitcode::deserialize::<tensor_store::wal::WalEntry>(payload).ok().map(|e| wal_image(&e)),
        WalKind::Raft => bitcode::deserialize::<tensor_chain::raft_wal::RaftWalEntry>(payload).ok().map(|e| wal_image(&e)),
        WalKind::Tx => bitcode::deserialize::<tensor_chain::tx_wal::TxWalEntry>(payload).ok().map(|e| wal_image(&e)),
    }
}

/// Re-append decoded entries through the real writer and replay them.
fn wal_rewrite(kind: WalKind, payloads: &[&[u8]]) -> Result<Vec<crate::canon::Canon>, String> {
    let f = TmpFile::new("walre");
    match kind {
        WalKind::Store => {
            let mut w = tensor_store::wal::TensorWal::open(&f.0, tensor_store::wal::WalConfig::default()).map_err(|e| e.to_string())?;
            for p in payloads {
                let e: tensor_store::wal::WalEntry = bitcode::deserialize(p).map_err(|e| e.to_string())?;
                w.append(&e).map_err(|e| e.to_string())?;
            }
        },
        WalKind::Raft => {
            let mut cfg = tensor_chain::raft_wal::WalConfig::default();
            cfg.pre_check_space = false;
            let mut w = tensor_chain::raft_wal::RaftWal::open_with_config(&f.0, cfg).map_err(|e| e.to_string())?;
            for p in payloads {
                let e: tensor_chain::raft_wal::RaftWalEntry = bitcode::deserialize(p).map_err(|e| e.to_string())?;
                w.append(&e).map_err(|e| e.to_string())?;
            }
        },
        WalKind::Tx => {
            let mut cfg = tensor_chain::raft_wal::WalConfig::default();
            cfg.pre_check_space = false;
            let mut w = tensor_chain::tx_wal::TxWal::open_with_config(&f.0, cfg).map_err(|e| e.to_string())?;
            for p in payloads {
                let e: tensor_chain::tx_wal::TxWalEntry = bitcode::deserialize(p).map_err(|e| e.to_string())?;
                w.append(&e).map_err(|e| e.to_string())?;
            }
        },
    }
    wal_replay(kind, true, &f.0)
}

/// `data[0]` selects the log kind and whether checksums are verified; the rest is the file.
pub fn wal(data: &[u8], obs: &mut Obs) -> ORes {
    let Some((&kb, file)) = data.split_first() else {
        return Ok(());
    };
    let (kind, verify) = WalKind::from_byte(kb);
    wal_with(kind, verify, file, obs)
}

pub fn wal_with(kind: WalKind, verify: bool, file: &[u8], obs: &mut Obs) -> ORes {
    let f = TmpFile::with_bytes("wal", file);
    let site = format!("wal-replay:{}", kind.name());
    let (res, a) = guarded(&site, || wal_replay(kind, verify, &f.0))?;
    // no record can be larger than the file it is read from
    check_alloc(&site, a, amp() * file.len() + BITCODE_SLACK, "512 x file size + 4 MiB + 64 KiB (a record cannot exceed its file)")?;

    let frames = wal_frames(file);
    // entries the log really holds: complete frames, in order, up to the first that does not decode
    let mut expect: Vec<crate::canon::Canon> = Vec::new();
    let mut payloads: Vec<&[u8]> = Vec::new();
    let mut first_bad_crc: Option<usize> = None;
    for (i, (range, stored)) in frames.iter().enumerate() {
        let payload = &file[range.clone()];
        if verify && *stored != 0 && crc32(payload) != *stored {
            first_bad_crc = Some(i);
            break;
        }
        match wal_payload_decodes(kind, payload) {
            Some(c) => {
                expect.push(c);
                payloads.push(payload);
            },
            None => break,
        }
    }
    if !frames.is_empty() {
        obs.passed_prefix = true;
    }
    match (res, first_bad_crc) {
        (Err(_), Some(_)) => {
            obs.label("wal:checksum-mismatch-reported");
            Ok(())
        },
        (Err(e), None) => fail(
            format!("wal:{}:error-without-bad-record", kind.name()),
            format!("replay failed ({e}) although no complete record has a wrong checksum"),
        ),
        (Ok(got), Some(i)) => fail(
            format!("wal:{}:bad-checksum-accepted", kind.name()),
            format!("record {i} has a wrong checksum, replay returned {} entries without error", got.len()),
        ),
        (Ok(got), None) => {
            if got != expect {
                return fail(
                    format!("wal:{}:entries-differ", kind.name()),
                    format!("replay returned {} entries, the file holds {} decodable complete records in sequence", got.len(), expect.len()),
                );
            }
            if !got.is_empty() {
                obs.decoded = true;
                let (again, _) = guarded(&site, || wal_rewrite(kind, &payloads))?;
                match again {
                    Ok(g2) if g2 == got => {},
                    Ok(g2) => {
                        return fail(
                            format!("wal:{}:not-fixed-point", kind.name()),
                            format!("replayed entries re-appended and replayed: {} vs {}", g2.len(), got.len()),
                        )
                    },
                    Err(e) => return fail(format!("wal:{}:rewrite-failed", kind.name()), e),
                }
            }
            Ok(())
        },
    }
}

// ---------------------------------------------------------------------------------------------
// family 6: the default snapshot file (20-byte raw header + bitcode, optionally zstd)

/// Own reading of the fixed header: (magic ok, version, flags, entry_count).
pub fn snap_header(bytes: &[u8]) -> Option<(bool, u32, u32, u64)> {
    if bytes.len() < 20 {
        return None;
    }
    Some((
        &bytes[0..4] == b"NEUM",
        u32::from_le_bytes(bytes[4..8].try_into().unwrap()),
        u32::from_le_bytes(bytes[8..12].try_into().unwrap()),
        u64::from_le_bytes(bytes[12..20].try_into().unwrap()),
    ))
}

fn canon_field<'a>(c: &'a crate::canon::Canon, name: &str) -> Option<&'a crate::canon::Canon> {
    match c {
        crate::canon::Canon::Map(items) => items.iter().find(|(k, _)| matches!(k, crate::canon::Canon::Str(s) if s == name)).map(|(_, v)| v),
        _ => None,
    }
}

/// Capacity-like fields of a stored router image that `restore` turns into eager allocations
/// which are then written in full (not merely reserved): executing those would exhaust memory.
fn snapv3_prescan(data: &[u8]) -> Option<&'static str> {
    use std::io::Read;
    let (magic, version, flags, _) = snap_header(data)?;
    if !magic || version != 3 {
        return None;
    }
    let body: Vec<u8> = if flags & 1 != 0 {
        let mut out = Vec::new();
        let dec = zstd::stream::read::Decoder::new(&data[20..]).ok()?;
        let n = dec.take(64 << 20).read_to_end(&mut out);
        if out.len() >= 64 << 20 {
            return Some("snapv3:zstd-output-above-work-cap-not-executed");
        }
        n.ok()?;
        out
    } else {
        data[20..].to_vec()
    };
    let snap: tensor_store::SlabRouterSnapshot = bitcode::deserialize(&body).ok()?;
    let c = canon(&snap);
    let num = |path: [&str; 2]| -> u128 {
        match canon_field(&c, path[0]).and_then(|x| canon_field(x, path[1])) {
            Some(crate::canon::Canon::U(v)) => *v,
            _ => 0,
        }
    };
    if num(["embeddings", "dimension"]) > 1 << 20 {
        return Some("snapv3:embedding-dimension-above-work-cap-not-executed");
    }
    if num(["cache", "capacity"]) > 1 << 20 || num(["blobs", "segment_size"]) > 1 << 26 || num(["index", "max_entities"]) > 1 << 32 {
        return Some("snapv3:capacity-field-above-work-cap-not-executed");
    }
    None
}

pub fn snapv3(data: &[u8], obs: &mut Obs) -> ORes {
    if let Some(l) = snapv3_prescan(data) {
        obs.label(l);
        return Ok(());
    }
    let f = TmpFile::with_bytes("snapv3", data);
    let (res, a) = guarded("snapshot::load", || tensor_store::snapshot::load(&f.0))?;
    let hdr = snap_header(data);
    // the restored router pre-allocates fixed-capacity slabs (tens of MiB for an empty store), so
    // no input-proportional bound applies; only a gross cap against length-driven reservations
    check_alloc("snapshot::load", a, crate::alloc::HUGE, "1 GiB cap (restored slabs have fixed capacities)")?;
    if let Some((true, version, _, _)) = hdr {
        if version != 3 {
            return match res {
                Err(_) => {
                    obs.label("snapv3:unsupported-version-rejected");
                    Ok(())
                },
                Ok(_) => fail("snapv3:unsupported-version-accepted", format!("header version {version} loaded")),
            };
        }
        obs.passed_prefix = true;
    }
    match res {
        Err(_) => {
            obs.label("snapv3:reject");
            Ok(())
        },
        Ok(router) => {
            obs.decoded = true;
            obs.label("snapv3:loaded");
            // fixed point through the byte form
            let (b1, _) = guarded("SlabRouter::to_bytes", || router.to_bytes())?;
            let Ok(b1) = b1 else { return fail("snapv3:reencode-failed", "to_bytes failed on a loaded router".to_string()) };
            let (r2, _) = guarded("SlabRouter::from_bytes", || tensor_store::SlabRouter::from_bytes(&b1))?;
            let Ok(r2) = r2 else { return fail("snapv3:reencoded-rejected", "from_bytes rejects what to_bytes wrote".to_string()) };
            let image = |r: &tensor_store::SlabRouter| -> Result<Vec<(String, crate::canon::Canon)>, OFail> {
                let (v, _) = guarded("SlabRouter::scan/get", || {
                    let mut keys = r.scan("");
                    keys.sort();
                    keys.into_iter().map(|k| { let t = r.get(&k).ok().map(|t| canon(&t)).unwrap_or(crate::canon::Canon::None); (k, t) }).collect::<Vec<_>>()
                })?;
                Ok(v)
            };
            if image(&router)? != image(&r2)? {
                return fail("snapv3:not-fixed-point", "loaded router differs after to_bytes -> from_bytes".to_string());
            }
            Ok(())
        },
    }
}

// ---------------------------------------------------------------------------------------------

pub const TARGETS: [&str; 6] = ["ids", "rle", "csnap", "frame", "wal", "snapv3"];

pub fn run_target(name: &str, data: &[u8], obs: &mut Obs) -> ORes {
    match name {
        "ids" => ids(data, obs),
        "rle" => rle(data, obs),
        "csnap" => csnap(data, obs),
        "frame" => frame(data, obs),
        "wal" => wal(data, obs),
        "snapv3" => snapv3(data, obs),
        _ => fail("harness:unknown-target", name.to_string()),
    }
}

/// Signatures recorded as known findings for C20 (read by the fuzz targets, which must keep
/// running behind a known defect just like the proptest parts do).
pub fn known_sigs() -> Vec<String> {
    let path = crate::root().join("known_findings.json");
    let Ok(text) = std::fs::read_to_string(path) else { return Vec::new() };
    let Ok(v) = serde_json::from_str::<serde_json::Value>(&text) else { return Vec::new() };
    v["known"]
        .as_array()
        .map(|a| {
            a.iter()
                .filter(|e| e["property"] == "C20")
                .filter_map(|e| e["sig"].as_str().map(str::to_string))
                .collect()
        })
        .unwrap_or_default()
}

/// Entry point used by every libFuzzer target.
pub fn fuzz_entry(target: &str, data: &[u8]) {
    use std::sync::OnceLock;
    static KNOWN: OnceLock<Vec<String>> = OnceLock::new();
    static HOOK: std::sync::Once = std::sync::Once::new();
    // libfuzzer-sys installs a panic hook that aborts; product panics are caught and classified
    // here instead, so that a recorded known defect does not end the campaign.
    HOOK.call_once(|| {
        std::panic::set_hook(Box::new(|_| {}));
        install_location_hook(false);
    });
    let known = KNOWN.get_or_init(known_sigs);
    let mut obs = Obs::default();
    if let Err(f) = run_target(target, data, &mut obs) {
        if !known.iter().any(|k| *k == f.sig) {
            eprintln!("C20 fuzz oracle failure sig={} :: {}", f.sig, f.msg);
            // Under the campaign runner the input is saved and the campaign goes on (cargo-fuzz
            // builds with --cfg fuzzing, under which bitcode accepts trailing bytes, so some
            // failures exist only in the fuzz build; every saved input is re-checked by the
            // normal build afterwards). Run by hand, the target stops like any libFuzzer crash.
            match std::env::var("NV_FUZZ_ARTIFACTS") {
                Ok(dir) => {
                    static SAVED: AtomicU64 = AtomicU64::new(0);
                    if SAVED.fetch_add(1, Ordering::Relaxed) < 64 {
                        let mut h: u64 = 0xcbf29ce484222325;
                        for b in data {
                            h = (h ^ u64::from(*b)).wrapping_mul(0x100000001b3);
                        }
                        let _ = std::fs::write(std::path::Path::new(&dir).join(format!("oracle-{h:016x}")), data);
                    }
                },
                Err(_) => std::process::abort(),
            }
        }
    }
}


/// Does `decompress_vector` refuse a sparse value of this dimension? Observed in a child process
/// (`child sparse-dim <dimension>`), because a build that does not refuse it aborts on the
/// allocation. Cached per power of two of the dimension. `None`: the child could not be run.
pub fn sparse_dimension_probe(dimension: usize) -> Option<bool> {
    use std::collections::HashMap;
    use std::sync::{Mutex, OnceLock};
    static CACHE: OnceLock<Mutex<HashMap<u32, Option<bool>>>> = OnceLock::new();
    let bucket = usize::BITS - dimension.leading_zeros();
    let cache = CACHE.get_or_init(|| Mutex::new(HashMap::new()));
    if let Some(r) = cache.lock().unwrap_or_else(|e| e.into_inner()).get(&bucket) {
        return *r;
    }
    // only the harness binary understands `child sparse-dim` (a fuzz target does not: there the
    // probe is inconclusive and the saved input is judged when the harness re-checks it)
    let exe = std::env::current_exe().ok()?;
    if !exe.file_name().is_some_and(|n| n.to_string_lossy().starts_with("nv_c20")) {
        return None;
    }
    let out = std::process::Command::new(exe).args(["child", "sparse-dim", &dimension.to_string()]).output();
    let r = match out {
        Ok(o) => {
            let text = String::from_utf8_lossy(&o.stdout);
            if text.contains("SPARSE-DIM refused") {
                Some(true)
            } else {
                // accepted, aborted on the allocation, or killed: not refused
                Some(false)
            }
        },
        Err(_) => None,
    };
    cache.lock().unwrap_or_else(|e| e.into_inner()).insert(bucket, r);
    r
}

/// Child side of [`sparse_dimension_probe`].
pub fn sparse_dimension_child(args: &[String]) -> i32 {
    let Some(dimension) = args.first().and_then(|a| a.parse::<usize>().ok()) else {
        println!("usage: child sparse-dim <dimension>");
        return 2;
    };
    let v = CompressedValue::VectorSparse { dimension, positions: tensor_compress::compress_ids(&[]), values: Vec::new() };
    match tensor_compress::format::decompress_vector(&v) {
        Err(e) => {
            println!("SPARSE-DIM refused: {e}");
            0
        },
        Ok(d) => {
            println!("SPARSE-DIM accepted: {} elements", d.len());
            0
        },
    }
}
