//! Counting global allocator: records the largest single allocation requested by the current
//! thread while the thread-local "armed" flag is set.
//!
//! Requests above `HUGE` bytes are served from `mmap(MAP_NORESERVE)` so that a decoder which
//! believes a length prefix ("4 GB follow") does not take the whole check down with an
//! allocation failure (a failed allocation aborts the process, it does not unwind). Untouched
//! pages of such a mapping cost nothing. Routing is by size only, so `dealloc` needs no table.

use std::alloc::{GlobalAlloc, Layout, System};
use std::cell::Cell;

pub struct CountingAlloc;

/// Requests larger than this are served by an anonymous no-reserve mapping.
pub const HUGE: usize = 1 << 30;

thread_local! {
    static ARMED: Cell<bool> = const { Cell::new(false) };
    static MAX_REQ: Cell<usize> = const { Cell::new(0) };
}

#[inline]
fn note(size: usize) {
    let _ = ARMED.try_with(|a| {
        if a.get() {
            let _ = MAX_REQ.try_with(|m| {
                if size > m.get() {
                    m.set(size);
                }
            });
        }
    });
}

unsafe fn map_huge(size: usize) -> *mut u8 {
    let p = libc::mmap(
        std::ptr::null_mut(),
        size,
        libc::PROT_READ | libc::PROT_WRITE,
        libc::MAP_PRIVATE | libc::MAP_ANONYMOUS | libc::MAP_NORESERVE,
        -1,
        0,
    );
    if p == libc::MAP_FAILED {
        std::ptr::null_mut()
    } else {
        p.cast()
    }
}

unsafe impl GlobalAlloc for CountingAlloc {
    unsafe fn alloc(&self, l: Layout) -> *mut u8 {
        note(l.size());
        if l.size() > HUGE {
            map_huge(l.size())
        } else {
            System.alloc(l)
        }
    }
    unsafe fn alloc_zeroed(&self, l: Layout) -> *mut u8 {
        note(l.size());
        if l.size() > HUGE {
            map_huge(l.size()) // anonymous mappings are zero-filled
        } else {
            System.alloc_zeroed(l)
        }
    }
    unsafe fn dealloc(&self, p: *mut u8, l: Layout) {
        if l.size() > HUGE {
            libc::munmap(p.cast(), l.size());
        } else {
            System.dealloc(p, l)
        }
    }
    unsafe fn realloc(&self, p: *mut u8, l: Layout, new_size: usize) -> *mut u8 {
        note(new_size);
        if l.size() <= HUGE && new_size <= HUGE {
            return System.realloc(p, l, new_size);
        }
        let nl = Layout::from_size_align_unchecked(new_size, l.align());
        let np = self.alloc(nl);
        if !np.is_null() {
            std::ptr::copy_nonoverlapping(p, np, l.size().min(new_size));
            self.dealloc(p, l);
        }
        np
    }
}

/// Run `f` with the allocation recorder armed; returns its result and the largest single
/// allocation (bytes) the current thread requested meanwhile. Nesting is allowed (the outer
/// measurement sees the maximum of both).
pub fn measure<R>(f: impl FnOnce() -> R) -> (R, usize) {
    let was_armed = ARMED.with(|a| a.replace(true));
    let outer = MAX_REQ.with(|m| m.replace(0));
    let r = f();
    let got = MAX_REQ.with(|m| m.get());
    MAX_REQ.with(|m| m.set(outer.max(got)));
    ARMED.with(|a| a.set(was_armed));
    (r, got)
}
