//! Canonical structural image of any `Serialize` value, used to compare "value encoded" with
//! "value decoded" without relying on `PartialEq` of the product types (several have none, and
//! `f32` equality would hide NaN payloads and the sign of zero). Floats are kept as bit
//! patterns, maps are sorted by key image, so two `HashMap`s with different iteration order
//! compare equal. Shares no code with bitcode.

use serde::ser::{self, Serialize};

#[derive(Debug, Clone, PartialEq, Eq, PartialOrd, Ord)]
pub enum Canon {
    Unit,
    Bool(bool),
    I(i128),
    U(u128),
    F32(u32),
    F64(u64),
    Char(char),
    Str(String),
    Bytes(Vec<u8>),
    None,
    Some(Box<Canon>),
    Seq(Vec<Canon>),
    Map(Vec<(Canon, Canon)>),
    Variant(&'static str, Box<Canon>),
}

#[derive(Debug)]
pub struct CanonErr(String);
impl std::fmt::Display for CanonErr {
    fn fmt(&self, f: &mut std::fmt::Formatter<'_>) -> std::fmt::Result {
        f.write_str(&self.0)
    }
}
impl std::error::Error for CanonErr {}
impl ser::Error for CanonErr {
    fn custom<T: std::fmt::Display>(m: T) -> Self {
        CanonErr(m.to_string())
    }
}

pub fn canon<T: Serialize + ?Sized>(v: &T) -> Canon {
    v.serialize(Ser).unwrap_or_else(|e| Canon::Str(format!("<unserializable: {e}>")))
}

/// First difference between two images as a path, for failure messages.
pub fn diff(a: &Canon, b: &Canon) -> Option<String> {
    fn go(a: &Canon, b: &Canon, path: &mut String) -> Option<String> {
        if a == b {
            return None;
        }
        match (a, b) {
            (Canon::Seq(x), Canon::Seq(y)) if x.len() == y.len() => {
                for (i, (p, q)) in x.iter().zip(y).enumerate() {
                    let l = path.len();
                    path.push_str(&format!("[{i}]"));
                    if let Some(d) = go(p, q, path) {
                        return Some(d);
                    }
                    path.truncate(l);
                }
                None
            },
            (Canon::Map(x), Canon::Map(y)) if x.len() == y.len() => {
                for ((k1, v1), (k2, v2)) in x.iter().zip(y) {
                    if k1 != k2 {
                        return Some(format!("{path}: key {k1:?} vs {k2:?}"));
                    }
                    let l = path.len();
                    match k1 {
                        Canon::Str(s) => path.push_str(&format!(".{s}")),
                        other => path.push_str(&format!(".{other:?}")),
                    }
                    if let Some(d) = go(v1, v2, path) {
                        return Some(d);
                    }
                    path.truncate(l);
                }
                None
            },
            (Canon::Variant(n1, x), Canon::Variant(n2, y)) if n1 == n2 => {
                let l = path.len();
                path.push_str(&format!("::{n1}"));
                let r = go(x, y, path);
                path.truncate(l);
                r
            },
            (Canon::Some(x), Canon::Some(y)) => go(x, y, path),
            _ => {
                let mut sa = format!("{a:?}");
                let mut sb = format!("{b:?}");
                sa.truncate(160);
                sb.truncate(160);
                Some(format!("{path}: {sa} vs {sb}"))
            },
        }
    }
    go(a, b, &mut String::from("$"))
}

struct Ser;

pub struct SeqB {
    items: Vec<Canon>,
    variant: Option<&'static str>,
}
pub struct MapB {
    items: Vec<(Canon, Canon)>,
    key: Option<Canon>,
    variant: Option<&'static str>,
}

impl SeqB {
    fn finish(self) -> Canon {
        let s = Canon::Seq(self.items);
        match self.variant {
            Some(v) => Canon::Variant(v, Box::new(s)),
            None => s,
        }
    }
}
impl MapB {
    fn finish(mut self) -> Canon {
        self.items.sort();
        let m = Canon::Map(self.items);
        match self.variant {
            Some(v) => Canon::Variant(v, Box::new(m)),
            None => m,
        }
    }
}

impl ser::Serializer for Ser {
    type Ok = Canon;
    type Error = CanonErr;
    type SerializeSeq = SeqB;
    type SerializeTuple = SeqB;
    type SerializeTupleStruct = SeqB;
    type SerializeTupleVariant = SeqB;
    type SerializeMap = MapB;
    type SerializeStruct = MapB;
    type SerializeStructVariant = MapB;

    fn serialize_bool(self, v: bool) -> Result<Canon, CanonErr> {
        Ok(Canon::Bool(v))
    }
    fn serialize_i8(self, v: i8) -> Result<Canon, CanonErr> {
        Ok(Canon::I(v.into()))
    }
    fn serialize_i16(self, v: i16) -> Result<Canon, CanonErr> {
        Ok(Canon::I(v.into()))
    }
    fn serialize_i32(self, v: i32) -> Result<Canon, CanonErr> {
        Ok(Canon::I(v.into()))
    }
    fn serialize_i64(self, v: i64) -> Result<Canon, CanonErr> {
        Ok(Canon::I(v.into()))
    }
    fn serialize_i128(self, v: i128) -> Result<Canon, CanonErr> {
        Ok(Canon::I(v))
    }
    fn serialize_u8(self, v: u8) -> Result<Canon, CanonErr> {
        Ok(Canon::U(v.into()))
    }
    fn serialize_u16(self, v: u16) -> Result<Canon, CanonErr> {
        Ok(Canon::U(v.into()))
    }
    fn serialize_u32(self, v: u32) -> Result<Canon, CanonErr> {
        Ok(Canon::U(v.into()))
    }
    fn serialize_u64(self, v: u64) -> Result<Canon, CanonErr> {
        Ok(Canon::U(v.into()))
    }
    fn serialize_u128(self, v: u128) -> Result<Canon, CanonErr> {
        Ok(Canon::U(v))
    }
    fn serialize_f32(self, v: f32) -> Result<Canon, CanonErr> {
        Ok(Canon::F32(v.to_bits()))
    }
    fn serialize_f64(self, v: f64) -> Result<Canon, CanonErr> {
        Ok(Canon::F64(v.to_bits()))
    }
    fn serialize_char(self, v: char) -> Result<Canon, CanonErr> {
        Ok(Canon::Char(v))
    }
    fn serialize_str(self, v: &str) -> Result<Canon, CanonErr> {
        Ok(Canon::Str(v.to_string()))
    }
    fn serialize_bytes(self, v: &[u8]) -> Result<Canon, CanonErr> {
        Ok(Canon::Bytes(v.to_vec()))
    }
    fn serialize_none(self) -> Result<Canon, CanonErr> {
        Ok(Canon::None)
    }
    fn serialize_some<T: Serialize + ?Sized>(self, v: &T) -> Result<Canon, CanonErr> {
        Ok(Canon::Some(Box::new(v.serialize(Ser)?)))
    }
    fn serialize_unit(self) -> Result<Canon, CanonErr> {
        Ok(Canon::Unit)
    }
    fn serialize_unit_struct(self, _: &'static str) -> Result<Canon, CanonErr> {
        Ok(Canon::Unit)
    }
    fn serialize_unit_variant(self, _: &'static str, _: u32, variant: &'static str) -> Result<Canon, CanonErr> {
        Ok(Canon::Variant(variant, Box::new(Canon::Unit)))
    }
    fn serialize_newtype_struct<T: Serialize + ?Sized>(self, _: &'static str, v: &T) -> Result<Canon, CanonErr> {
        v.serialize(Ser)
    }
    fn serialize_newtype_variant<T: Serialize + ?Sized>(
        self,
        _: &'static str,
        _: u32,
        variant: &'static str,
        v: &T,
    ) -> Result<Canon, CanonErr> {
        Ok(Canon::Variant(variant, Box::new(v.serialize(Ser)?)))
    }
    fn serialize_seq(self, len: Option<usize>) -> Result<SeqB, CanonErr> {
        Ok(SeqB { items: Vec::with_capacity(len.unwrap_or(0).min(1 << 16)), variant: None })
    }
    fn serialize_tuple(self, len: usize) -> Result<SeqB, CanonErr> {
        self.serialize_seq(Some(len))
    }
    fn serialize_tuple_struct(self, _: &'static str, len: usize) -> Result<SeqB, CanonErr> {
        self.serialize_seq(Some(len))
    }
    fn serialize_tuple_variant(self, _: &'static str, _: u32, variant: &'static str, len: usize) -> Result<SeqB, CanonErr> {
        Ok(SeqB { items: Vec::with_capacity(len), variant: Some(variant) })
    }
    fn serialize_map(self, _: Option<usize>) -> Result<MapB, CanonErr> {
        Ok(MapB { items: Vec::new(), key: None, variant: None })
    }
    fn serialize_struct(self, _: &'static str, len: usize) -> Result<MapB, CanonErr> {
        Ok(MapB { items: Vec::with_capacity(len), key: None, variant: None })
    }
    fn serialize_struct_variant(self, _: &'static str, _: u32, variant: &'static str, len: usize) -> Result<MapB, CanonErr> {
        Ok(MapB { items: Vec::with_capacity(len), key: None, variant: Some(variant) })
    }
}

impl ser::SerializeSeq for SeqB {
    type Ok = Canon;
    type Error = CanonErr;
    fn serialize_element<T: Serialize + ?Sized>(&mut self, v: &T) -> Result<(), CanonErr> {
        self.items.push(v.serialize(Ser)?);
        Ok(())
    }
    fn end(self) -> Result<Canon, CanonErr> {
        Ok(self.finish())
    }
}
impl ser::SerializeTuple for SeqB {
    type Ok = Canon;
    type Error = CanonErr;
    fn serialize_element<T: Serialize + ?Sized>(&mut self, v: &T) -> Result<(), CanonErr> {
        self.items.push(v.serialize(Ser)?);
        Ok(())
    }
    fn end(self) -> Result<Canon, CanonErr> {
        Ok(self.finish())
    }
}
impl ser::SerializeTupleStruct for SeqB {
    type Ok = Canon;
    type Error = CanonErr;
    fn serialize_field<T: Serialize + ?Sized>(&mut self, v: &T) -> Result<(), CanonErr> {
        self.items.push(v.serialize(Ser)?);
        Ok(())
    }
    fn end(self) -> Result<Canon, CanonErr> {
        Ok(self.finish())
    }
}
impl ser::SerializeTupleVariant for SeqB {
    type Ok = Canon;
    type Error = CanonErr;
    fn serialize_field<T: Serialize + ?Sized>(&mut self, v: &T) -> Result<(), CanonErr> {
        self.items.push(v.serialize(Ser)?);
        Ok(())
    }
    fn end(self) -> Result<Canon, CanonErr> {
        Ok(self.finish())
    }
}
impl ser::SerializeMap for MapB {
    type Ok = Canon;
    type Error = CanonErr;
    fn serialize_key<T: Serialize + ?Sized>(&mut self, k: &T) -> Result<(), CanonErr> {
        self.key = Some(k.serialize(Ser)?);
        Ok(())
    }
    fn serialize_value<T: Serialize + ?Sized>(&mut self, v: &T) -> Result<(), CanonErr> {
        let k = self.key.take().unwrap_or(Canon::Unit);
        self.items.push((k, v.serialize(Ser)?));
        Ok(())
    }
    fn end(self) -> Result<Canon, CanonErr> {
        Ok(self.finish())
    }
}
impl ser::SerializeStruct for MapB {
    type Ok = Canon;
    type Error = CanonErr;
    fn serialize_field<T: Serialize + ?Sized>(&mut self, k: &'static str, v: &T) -> Result<(), CanonErr> {
        self.items.push((Canon::Str(k.to_string()), v.serialize(Ser)?));
        Ok(())
    }
    fn end(self) -> Result<Canon, CanonErr> {
        Ok(self.finish())
    }
}
impl ser::SerializeStructVariant for MapB {
    type Ok = Canon;
    type Error = CanonErr;
    fn serialize_field<T: Serialize + ?Sized>(&mut self, k: &'static str, v: &T) -> Result<(), CanonErr> {
        self.items.push((Canon::Str(k.to_string()), v.serialize(Ser)?));
        Ok(())
    }
    fn end(self) -> Result<Canon, CanonErr> {
        Ok(self.finish())
    }
}

// ---------------------------------------------------------------------------------------------
// Variant names of a serde-derived enum, read at run time from the `variants` slice the derive
// passes to `deserialize_enum`. Used to notice a new `Message` variant that has no generator
// (`Message` is `#[non_exhaustive]`, so an exhaustive `match` outside its crate cannot compile).

use serde::de::{self, Deserialize, Deserializer, Visitor};

struct Spy<'a>(&'a std::cell::Cell<Option<&'static [&'static str]>>);

#[derive(Debug)]
struct SpyErr;
impl std::fmt::Display for SpyErr {
    fn fmt(&self, f: &mut std::fmt::Formatter<'_>) -> std::fmt::Result {
        f.write_str("spy")
    }
}
impl std::error::Error for SpyErr {}
impl de::Error for SpyErr {
    fn custom<T: std::fmt::Display>(_: T) -> Self {
        SpyErr
    }
}

impl<'de> Deserializer<'de> for Spy<'_> {
    type Error = SpyErr;
    fn deserialize_any<V: Visitor<'de>>(self, _: V) -> Result<V::Value, SpyErr> {
        Err(SpyErr)
    }
    fn deserialize_enum<V: Visitor<'de>>(
        self,
        _name: &'static str,
        variants: &'static [&'static str],
        _: V,
    ) -> Result<V::Value, SpyErr> {
        self.0.set(Some(variants));
        Err(SpyErr)
    }
    serde::forward_to_deserialize_any! {
        bool i8 i16 i32 i64 i128 u8 u16 u32 u64 u128 f32 f64 char str string bytes byte_buf option
        unit unit_struct newtype_struct seq tuple tuple_struct map struct identifier ignored_any
    }
}

pub fn enum_variant_names<T: for<'de> Deserialize<'de>>() -> Vec<&'static str> {
    let cell = std::cell::Cell::new(None);
    let _ = T::deserialize(Spy(&cell));
    cell.get().map(|v| v.to_vec()).unwrap_or_default()
}
