//! C20 — Encoders and decoders are exact inverses and reject garbage safely.
//!
//! Parts:
//!  * `codec`    varint / delta / id lists / run-length data / sparse vectors / compress_sparse /
//!               compress_ints: encode -> decode is the identity; encodings equal an own LEB128
//!               reference; persisted images pass the byte-level oracle.
//!  * `snapvec`  vectors of every shape (sorted, unsorted, fractional, negative, huge, arbitrary
//!               bits) under id-like and ordinary field names through compress_vector /
//!               decompress_vector and through TensorStore::save_snapshot_compressed /
//!               load_snapshot_compressed.
//!  * `wal`      the three log-entry enums through the real append / reopen / replay, file layout
//!               and checksums against an own frame reader.
//!  * `frame`    every `Message` variant (optional fields filled and empty) through bitcode and
//!               LengthDelimitedCodec (v1 / v2, LZ4 on / off, drawn min_size, max_frame_length
//!               around the payload size +-3), header bytes read independently, validator
//!               accepts only messages within the documented limits.
//!  * `tt`       tensor-train decompose -> reconstruct: exact-rank / constant / ramp inputs within
//!               10 x tolerance, any input never worse than the zero vector.
//!  * `garbage`  valid encodings of every family, corrupted (truncation, bit flip, byte set,
//!               boundary length values, insert, delete, splice) or pure noise, through the
//!               byte-level oracles: no panic, allocation bound, structural facts, fixed point.
//!  * `corpus`   committed seed corpus of the fuzz targets + every truncation + every single-bit
//!               flip of every seed through the same oracles.
//!  * `fuzz`     (thorough) bounded libFuzzer campaigns of the five targets in /verif/fuzz_c20.

mod garbage;
mod rt;
mod strat;

use nv_engine::{main_for, PropDef, PropPart};

fn main() {
    let args: Vec<String> = std::env::args().collect();
    let missing = nv_c20::build::message_variants_without_generator();
    let all = nv_c20::canon::enum_variant_names::<tensor_chain::network::Message>();
    if args.get(1).map(|s| s.as_str()) == Some("check") && (!missing.is_empty() || all.len() != nv_c20::build::MESSAGE_GENERATORS.len()) {
        println!(
            "INCONCLUSIVE property=C20: network::Message has {} variants, {} generators; without generator: {missing:?} (add them to props/c20/src/build.rs)",
            all.len(),
            nv_c20::build::MESSAGE_GENERATORS.len()
        );
        std::process::exit(2);
    }
    main_for(PropDef {
        id: "C20",
        level: "exploration",
        rule: "round trips: non-trivial = a value with >= 2 elements that exercises a multi-byte varint (a value or delta >= 128), a run of length >= 2, or a frame that was actually LZ4-compressed; wal: >= 2 entries through append/reopen/replay; tt: exact TT-rank >= 2 on >= 8 elements. garbage/corpus: non-trivial = the corrupted input got past the outermost length prefix / structural decode of its decoder (complete frame within max_frame_length, at least one complete log record, well-formed LEB128, bitcode container accepted). distinct = distinct generated case (hash of its JSON) resp. distinct input bytes.",
        assumptions: vec![
            "compress_ids / delta_encode are documented for sorted id sequences; unsorted lists are fed only through the persistence paths that feed them (compress_vector by field name, compressed snapshot API), never directly",
            "SparseVector documents zero as 'absence of information': -0.0 -> +0.0 is accepted everywhere a value passes through a sparse or id-list form; every other float must come back bit-exact (NaN payloads included)",
            "compress_ints' raw fallback stores f32; exactness is required only for |v| <= 2^24 there (it is not on a persistence path)",
            "allocation limits: frames max_frame_length (+ MAX_DECOMPRESSED_SIZE for LZ4) + 512 x payload; logs 512 x file size; varint/id lists 32 x input; bitcode containers 512 x input (bitcode spends >= 1 bit per primitive, a Vec<String> of empty strings legitimately expands ~340x) + 4 MiB (serde's cautious pre-allocation: 1 MiB of elements per claimed length, hash maps round up to ~2.2 MiB); run-length output 16 bytes per produced element; sparse dense form 4 x min(dimension, MAX_DIMENSION); all + 64 KiB",
            "decoders whose honest output would exceed 2^20 elements (run-length bombs, sparse dimension, TT shape product) are not executed; they are counted under the *-not-executed labels",
            "the harness build has debug assertions and overflow checks on: a panic inside a decoder counts even if an optimised build would wrap or skip the assertion",
            "tt: the quantitative bound max(10 x tolerance, 1 % = the documented TT-mode error) relative L2 is asserted only for inputs of exact TT-rank <= max_rank (products of generated cores, constants, ramps); errors between 10 x tolerance and 1 % (non-converged 20-step power iteration) are counted under tt:error-above-10x-tolerance, not reported",
            "signed-gossip freshness depends on the wall clock and is not part of the limit reference",
        ],
        parts: vec![
            PropPart::new("codec", 100_000, 2_000_000, rt::codec_strategy, rt::codec_check).boxed(),
            PropPart::new("snapvec", 8_000, 100_000, rt::snap_strategy, rt::snap_check).boxed(),
            PropPart::new("wal", 16_000, 400_000, rt::wal_strategy, rt::wal_check).boxed(),
            PropPart::new("frame", 60_000, 1_500_000, rt::frame_strategy, rt::frame_check).boxed(),
            PropPart::new("tt", 40_000, 1_000_000, rt::tt_strategy, rt::tt_check).boxed(),
            PropPart::new("garbage", 100_000, 1_500_000, garbage::garbage_strategy, garbage::garbage_check).boxed(),
            Box::new(garbage::corpus_part()),
            Box::new(garbage::fuzz_part()),
        ],
        children: vec![("gen-corpus", Box::new(garbage::gen_corpus)), ("calibrate", Box::new(garbage::calibrate)), ("probe", Box::new(garbage::probe)), ("sparse-dim", Box::new(nv_c20::oracle::sparse_dimension_child)), ("run-target", Box::new(garbage::run_target_child))],
    });
}
