//! Builders for the encodable values of C20 from a plain "bag" of generated primitives.
//! A case stores the bag (serde), so replay files are self-contained and shrinking works on
//! plain numbers/strings. One builder per `Message` variant / log-entry variant; optional
//! fields are filled or left empty depending on bag flags.

use serde::{Deserialize, Serialize};
use tensor_chain::block::{Block, BlockHeader, Transaction, ValidatorSignature};
use tensor_chain::codebook::{CodebookEntry, GlobalCodebookSnapshot};
use tensor_chain::distributed_tx::TxPhase;
use tensor_chain::gossip::{GossipMessage, GossipNodeState};
use tensor_chain::membership::NodeHealth;
use tensor_chain::network::*;
use tensor_chain::partition_merge::{MembershipViewSummary, PartitionStateSummary, PendingTxState};
use tensor_chain::raft_wal::RaftWalEntry;
use tensor_chain::signing::{SignedGossipMessage, SignedMessage};
use tensor_chain::tx_wal::{PrepareVoteKind, TxOutcome, TxWalEntry};
use tensor_store::wal::WalEntry;
use tensor_store::{ScalarValue, SparseVector, TensorData, TensorValue};

#[derive(Clone, Debug, Default, Serialize, Deserialize)]
pub struct EmbSpec {
    pub dim: u32,
    /// (position selector, f32 bits)
    pub entries: Vec<(u16, u32)>,
}

#[derive(Clone, Debug, Default, Serialize, Deserialize)]
pub struct Bag {
    pub u: Vec<u64>,
    pub s: Vec<String>,
    pub f: Vec<u32>,
    pub b: Vec<Vec<u8>>,
    pub o: Vec<bool>,
    pub e: Vec<EmbSpec>,
}

pub struct Cur<'a> {
    bag: &'a Bag,
    iu: usize,
    is: usize,
    i_f: usize,
    ib: usize,
    io: usize,
    ie: usize,
    /// how many optional fields were filled / left empty
    pub some: u32,
    pub none: u32,
    /// upper bound on the entries of generated hash maps. The product serialises maps in
    /// iteration order, which differs from process to process; parts whose outcome depends on
    /// the encoded bytes (corruption positions, compressed size against a limit) use 1.
    pub max_map: usize,
}

impl<'a> Cur<'a> {
    pub fn new(bag: &'a Bag) -> Self {
        Cur { bag, iu: 0, is: 0, i_f: 0, ib: 0, io: 0, ie: 0, some: 0, none: 0, max_map: 4 }
    }
    pub fn with_max_map(bag: &'a Bag, max_map: usize) -> Self {
        let mut c = Self::new(bag);
        c.max_map = max_map;
        c
    }
    pub fn u64(&mut self) -> u64 {
        let v = if self.bag.u.is_empty() { 0 } else { self.bag.u[self.iu % self.bag.u.len()] };
        self.iu += 1;
        v
    }
    pub fn usize(&mut self) -> usize {
        self.u64() as usize
    }
    pub fn u32(&mut self) -> u32 {
        self.u64() as u32
    }
    /// small count in 0..=max (monotone in the drawn value)
    pub fn count(&mut self, max: usize) -> usize {
        let v = (self.u64() & 0xff) as usize;
        (v * (max + 1)) >> 8
    }
    pub fn string(&mut self) -> String {
        let v = if self.bag.s.is_empty() { String::new() } else { self.bag.s[self.is % self.bag.s.len()].clone() };
        self.is += 1;
        v
    }
    pub fn f32(&mut self) -> f32 {
        let v = if self.bag.f.is_empty() { 0 } else { self.bag.f[self.i_f % self.bag.f.len()] };
        self.i_f += 1;
        f32::from_bits(v)
    }
    pub fn bytes(&mut self) -> Vec<u8> {
        let v = if self.bag.b.is_empty() { Vec::new() } else { self.bag.b[self.ib % self.bag.b.len()].clone() };
        self.ib += 1;
        v
    }
    pub fn flag(&mut self) -> bool {
        let v = if self.bag.o.is_empty() { false } else { self.bag.o[self.io % self.bag.o.len()] };
        self.io += 1;
        v
    }
    pub fn opt<T>(&mut self, f: impl FnOnce(&mut Self) -> T) -> Option<T> {
        if self.flag() {
            self.some += 1;
            Some(f(self))
        } else {
            self.none += 1;
            None
        }
    }
    pub fn hash32(&mut self) -> [u8; 32] {
        let a = self.u64().to_le_bytes();
        let b = self.u64().to_le_bytes();
        let mut h = [0u8; 32];
        for i in 0..32 {
            h[i] = if i < 8 { a[i] } else if i < 16 { b[i - 8] } else { a[i % 8] ^ b[(i / 2) % 8] };
        }
        h
    }
    pub fn f32s(&mut self, max: usize) -> Vec<f32> {
        let n = self.count(max);
        (0..n).map(|_| self.f32()).collect()
    }
    pub fn strings(&mut self, max: usize) -> Vec<String> {
        let n = self.count(max);
        (0..n).map(|_| self.string()).collect()
    }
    pub fn u64s(&mut self, max: usize) -> Vec<u64> {
        let n = self.count(max);
        (0..n).map(|_| self.u64()).collect()
    }
    pub fn usizes(&mut self, max: usize) -> Vec<usize> {
        let n = self.count(max);
        (0..n).map(|_| self.usize()).collect()
    }
    /// A sparse vector built through the public constructor (sorted, in bounds, zeros dropped).
    pub fn emb(&mut self) -> SparseVector {
        let spec = if self.bag.e.is_empty() { EmbSpec::default() } else { self.bag.e[self.ie % self.bag.e.len()].clone() };
        self.ie += 1;
        emb_from_spec(&spec)
    }
}

pub fn emb_from_spec(spec: &EmbSpec) -> SparseVector {
    let dim = spec.dim as usize;
    if dim == 0 {
        return SparseVector::new(0);
    }
    let mut seen = std::collections::BTreeMap::new();
    for (p, bits) in &spec.entries {
        let pos = ((*p as usize) * dim) >> 16;
        seen.insert(pos as u32, f32::from_bits(*bits));
    }
    let (positions, values): (Vec<u32>, Vec<f32>) = seen.into_iter().unzip();
    SparseVector::from_parts(dim, positions, values)
}

// ---------------------------------------------------------------------------------------------
// nested values

fn health(c: &mut Cur) -> NodeHealth {
    match c.u64() % 4 {
        0 => NodeHealth::Healthy,
        1 => NodeHealth::Degraded,
        2 => NodeHealth::Failed,
        _ => NodeHealth::Unknown,
    }
}

fn phase(c: &mut Cur) -> TxPhase {
    match c.u64() % 6 {
        0 => TxPhase::Preparing,
        1 => TxPhase::Prepared,
        2 => TxPhase::Committing,
        3 => TxPhase::Committed,
        4 => TxPhase::Aborting,
        _ => TxPhase::Aborted,
    }
}

fn node_state(c: &mut Cur) -> GossipNodeState {
    GossipNodeState { node_id: c.string(), health: health(c), timestamp: c.u64(), updated_at: c.u64(), incarnation: c.u64() }
}

pub fn transaction(c: &mut Cur) -> Transaction {
    match c.u64() % 10 {
        0 => Transaction::Put { key: c.string(), data: c.bytes() },
        1 => Transaction::Delete { key: c.string() },
        2 => Transaction::Embed { key: c.string(), vector: c.f32s(6) },
        3 => Transaction::NodeCreate { key: c.string(), label: c.string() },
        4 => Transaction::NodeDelete { key: c.string() },
        5 => Transaction::EdgeCreate { from: c.string(), to: c.string(), edge_type: c.string() },
        6 => Transaction::TableInsert { table: c.string(), values: c.bytes() },
        7 => Transaction::TableUpdate { table: c.string(), row_id: c.u64(), values: c.bytes() },
        8 => Transaction::TableDelete { table: c.string(), row_id: c.u64() },
        _ => Transaction::CompareAndSwap { key: c.string(), expected_data: c.bytes(), new_data: c.bytes() },
    }
}

pub fn block(c: &mut Cur) -> Block {
    let header = BlockHeader {
        height: c.u64(),
        prev_hash: c.hash32(),
        tx_root: c.hash32(),
        state_root: c.hash32(),
        delta_embedding: c.emb(),
        quantized_codes: c.u64s(4).into_iter().map(|v| v as u16).collect(),
        timestamp: c.u64(),
        proposer: c.string(),
        signature: c.bytes(),
    };
    let nt = c.count(3);
    let transactions = (0..nt).map(|_| transaction(c)).collect();
    let ns = c.count(2);
    let signatures = (0..ns)
        .map(|_| ValidatorSignature { validator: c.string(), signature: c.bytes(), block_hash: c.hash32() })
        .collect();
    Block { header, transactions, signatures }
}

fn config_change(c: &mut Cur) -> ConfigChange {
    match c.u64() % 4 {
        0 => ConfigChange::AddLearner { node_id: c.string() },
        1 => ConfigChange::PromoteLearner { node_id: c.string() },
        2 => ConfigChange::RemoveNode { node_id: c.string() },
        _ => ConfigChange::JointChange { additions: c.strings(3), removals: c.strings(3) },
    }
}

fn codebook_change(c: &mut Cur) -> CodebookChange {
    let n = c.count(2);
    let entries: Vec<CodebookEntry> = (0..n)
        .map(|_| {
            // private fields: built through serde (finite floats only: JSON cannot carry NaN)
            let centroid: Vec<f32> = c.f32s(4).into_iter().map(|f| if f.is_finite() { f } else { 1.5 }).collect();
            let mag = c.f32();
            let label = c.opt(|c| c.string());
            let v = serde_json::json!({
                "id": c.u32(),
                "centroid": centroid,
                "magnitude": if mag.is_finite() { mag } else { 0.25 },
                "access_count": c.u64(),
                "last_access": c.u64(),
                "created_at": c.u64(),
                "label": label,
            });
            serde_json::from_value(v).expect("CodebookEntry layout changed: update build.rs")
        })
        .collect();
    CodebookChange::Replace { snapshot: GlobalCodebookSnapshot { dimension: c.usize(), entries, version: c.u64() } }
}

fn log_entry(c: &mut Cur) -> LogEntry {
    LogEntry {
        term: c.u64(),
        index: c.u64(),
        block: block(c),
        config_change: c.opt(config_change),
        codebook_change: c.opt(codebook_change),
    }
}

fn partition_summary(c: &mut Cur) -> PartitionStateSummary {
    PartitionStateSummary {
        node_id: c.string(),
        last_committed_index: c.u64(),
        last_committed_term: c.u64(),
        state_embedding: c.opt(|c| c.emb()),
        committed_tx_ids: c.u64s(4),
        state_hash: c.hash32(),
        entry_count: c.u64(),
    }
}

fn pending_tx(c: &mut Cur) -> PendingTxState {
    let nv = c.count(3).min(c.max_map);
    let mut votes = std::collections::HashMap::new();
    for _ in 0..nv {
        votes.insert(c.usize(), c.flag());
    }
    PendingTxState {
        tx_id: c.u64(),
        phase: phase(c),
        coordinator: c.string(),
        participants: c.usizes(3),
        votes,
        delta: c.opt(|c| c.emb()),
        started_at: c.u64(),
    }
}

fn gossip(c: &mut Cur) -> GossipMessage {
    match c.u64() % 7 {
        0 => {
            let n = c.count(3);
            GossipMessage::Sync { sender: c.string(), states: (0..n).map(|_| node_state(c)).collect(), sender_time: c.u64() }
        },
        1 => GossipMessage::Suspect { reporter: c.string(), suspect: c.string(), incarnation: c.u64() },
        2 => GossipMessage::Alive { node_id: c.string(), incarnation: c.u64() },
        3 => GossipMessage::PingReq { origin: c.string(), target: c.string(), sequence: c.u64() },
        4 => GossipMessage::PingAck { origin: c.string(), target: c.string(), sequence: c.u64(), success: c.flag() },
        5 => GossipMessage::BidirectionalProbe { origin: c.string(), probe_id: c.u64(), timestamp: c.u64() },
        _ => GossipMessage::BidirectionalAck { origin: c.string(), probe_id: c.u64(), responder: c.string() },
    }
}

fn tx_vote(c: &mut Cur) -> TxVote {
    match c.u64() % 3 {
        0 => TxVote::Yes { lock_handle: c.u64(), delta: c.emb(), affected_keys: c.strings(3) },
        1 => TxVote::No { reason: c.string() },
        _ => TxVote::Conflict { similarity: c.f32(), conflicting_tx: c.u64() },
    }
}

// ---------------------------------------------------------------------------------------------
// one generator per Message variant; the table is checked at start-up against the variant
// names serde reports for `Message` (the enum is #[non_exhaustive], an exhaustive match
// cannot be written outside tensor_chain).

pub type MsgGen = fn(&mut Cur) -> Message;

pub const MESSAGE_GENERATORS: &[(&str, MsgGen)] = &[
    ("RequestVote", |c| {
        Message::RequestVote(RequestVote {
            term: c.u64(),
            candidate_id: c.string(),
            last_log_index: c.u64(),
            last_log_term: c.u64(),
            state_embedding: c.emb(),
        })
    }),
    ("RequestVoteResponse", |c| {
        Message::RequestVoteResponse(RequestVoteResponse { term: c.u64(), vote_granted: c.flag(), voter_id: c.string() })
    }),
    ("PreVote", |c| {
        Message::PreVote(PreVote {
            term: c.u64(),
            candidate_id: c.string(),
            last_log_index: c.u64(),
            last_log_term: c.u64(),
            state_embedding: c.emb(),
        })
    }),
    ("PreVoteResponse", |c| {
        Message::PreVoteResponse(PreVoteResponse { term: c.u64(), vote_granted: c.flag(), voter_id: c.string() })
    }),
    ("TimeoutNow", |c| Message::TimeoutNow(TimeoutNow { term: c.u64(), leader_id: c.string() })),
    ("AppendEntries", |c| {
        let n = c.count(2);
        Message::AppendEntries(AppendEntries {
            term: c.u64(),
            leader_id: c.string(),
            prev_log_index: c.u64(),
            prev_log_term: c.u64(),
            entries: (0..n).map(|_| log_entry(c)).collect(),
            leader_commit: c.u64(),
            block_embedding: c.opt(|c| c.emb()),
        })
    }),
    ("AppendEntriesResponse", |c| {
        Message::AppendEntriesResponse(AppendEntriesResponse {
            term: c.u64(),
            success: c.flag(),
            follower_id: c.string(),
            match_index: c.u64(),
            used_fast_path: c.flag(),
        })
    }),
    ("BlockRequest", |c| {
        let from = c.u64();
        let span = c.u64();
        // half of the requests are ordered ranges, so that the request limits are exercised; one
        // in eight is a range touching the ends of the u64 domain (the block count of 0..=MAX does
        // not fit in a u64)
        let (from, to) = match span % 8 {
            0 => match (span >> 3) % 4 {
                0 => (0, u64::MAX),
                1 => (0, u64::MAX - 1),
                2 => (1, u64::MAX),
                _ => (u64::MAX - (from % 2048), u64::MAX),
            },
            _ if c.flag() => (from, from.saturating_add(span % 2048)),
            _ => (from, span),
        };
        Message::BlockRequest(BlockRequest { from_height: from, to_height: to, requester_id: c.string() })
    }),
    ("BlockResponse", |c| {
        let n = c.count(2);
        Message::BlockResponse(BlockResponse { blocks: (0..n).map(|_| block(c)).collect(), current_height: c.u64() })
    }),
    ("SnapshotRequest", |c| {
        Message::SnapshotRequest(SnapshotRequest { requester_id: c.string(), offset: c.u64(), chunk_size: c.u64() })
    }),
    ("SnapshotResponse", |c| {
        Message::SnapshotResponse(SnapshotResponse {
            snapshot_height: c.u64(),
            snapshot_hash: c.hash32(),
            data: c.bytes(),
            offset: c.u64(),
            total_size: c.u64(),
            is_last: c.flag(),
        })
    }),
    ("Ping", |c| Message::Ping { term: c.u64() }),
    ("Pong", |c| Message::Pong { term: c.u64() }),
    ("TxPrepare", |c| {
        let n = c.count(3);
        Message::TxPrepare(TxPrepareMsg {
            tx_id: c.u64(),
            coordinator: c.string(),
            shard_id: c.usize(),
            operations: (0..n).map(|_| transaction(c)).collect(),
            delta_embedding: c.emb(),
            timeout_ms: c.u64(),
        })
    }),
    ("TxPrepareResponse", |c| {
        Message::TxPrepareResponse(TxPrepareResponseMsg { tx_id: c.u64(), shard_id: c.usize(), vote: tx_vote(c) })
    }),
    ("TxCommit", |c| Message::TxCommit(TxCommitMsg { tx_id: c.u64(), shards: c.usizes(4) })),
    ("TxAbort", |c| Message::TxAbort(TxAbortMsg { tx_id: c.u64(), reason: c.string(), shards: c.usizes(4) })),
    ("TxAck", |c| {
        Message::TxAck(TxAckMsg { tx_id: c.u64(), shard_id: c.usize(), success: c.flag(), error: c.opt(|c| c.string()) })
    }),
    ("QueryRequest", |c| {
        Message::QueryRequest(QueryRequest {
            query_id: c.u64(),
            query: c.string(),
            shard_id: c.usize(),
            embedding: c.opt(|c| c.emb()),
            timeout_ms: c.u64(),
        })
    }),
    ("QueryResponse", |c| {
        Message::QueryResponse(QueryResponse {
            query_id: c.u64(),
            shard_id: c.usize(),
            result: c.bytes(),
            execution_time_us: c.u64(),
            success: c.flag(),
            error: c.opt(|c| c.string()),
        })
    }),
    ("Gossip", |c| Message::Gossip(gossip(c))),
    ("SignedGossip", |c| {
        let sig_len = if c.flag() { 64 } else { c.count(80) };
        let sig: Vec<u8> = (0..sig_len).map(|i| (c.u64() as u8).wrapping_add(i as u8)).collect();
        Message::SignedGossip(SignedGossipMessage {
            envelope: SignedMessage {
                sender: c.string(),
                public_key: c.hash32(),
                payload: c.bytes(),
                signature: sig,
                sequence: c.u64(),
                timestamp_ms: c.u64(),
            },
        })
    }),
    ("MergeInit", |c| {
        Message::MergeInit(MergeInit {
            session_id: c.u64(),
            initiator: c.string(),
            healed_nodes: c.strings(3),
            local_summary: partition_summary(c),
        })
    }),
    ("MergeAck", |c| {
        Message::MergeAck(MergeAck {
            session_id: c.u64(),
            responder: c.string(),
            accepted: c.flag(),
            local_summary: c.opt(partition_summary),
            reject_reason: c.opt(|c| c.string()),
        })
    }),
    ("ViewExchange", |c| {
        let n = c.count(3);
        Message::ViewExchange(MergeViewExchange {
            session_id: c.u64(),
            sender: c.string(),
            view: MembershipViewSummary {
                node_id: c.string(),
                lamport_time: c.u64(),
                node_states: (0..n).map(|_| node_state(c)).collect(),
                state_hash: c.hash32(),
                generation: c.u64(),
            },
        })
    }),
    ("DataMergeRequest", |c| {
        Message::DataMergeRequest(DataMergeRequest {
            session_id: c.u64(),
            requester: c.string(),
            last_committed_index: c.u64(),
            last_committed_term: c.u64(),
            key_patterns: c.strings(3),
        })
    }),
    ("DataMergeResponse", |c| {
        let n = c.count(3);
        Message::DataMergeResponse(DataMergeResponse {
            session_id: c.u64(),
            responder: c.string(),
            delta_entries: (0..n)
                .map(|_| MergeDeltaEntry {
                    key: c.string(),
                    log_index: c.u64(),
                    log_term: c.u64(),
                    op_type: match c.u64() % 3 {
                        0 => MergeOpType::Put,
                        1 => MergeOpType::Delete,
                        _ => MergeOpType::Update,
                    },
                    data_hash: c.hash32(),
                })
                .collect(),
            state_embedding: c.opt(|c| c.emb()),
            has_more: c.flag(),
        })
    }),
    ("TxReconcileRequest", |c| {
        let n = c.count(2);
        Message::TxReconcileRequest(TxReconcileRequest {
            session_id: c.u64(),
            requester: c.string(),
            pending_txs: (0..n).map(|_| pending_tx(c)).collect(),
        })
    }),
    ("TxReconcileResponse", |c| {
        let n = c.count(2);
        Message::TxReconcileResponse(TxReconcileResponse {
            session_id: c.u64(),
            responder: c.string(),
            pending_txs: (0..n).map(|_| pending_tx(c)).collect(),
            to_commit: c.u64s(3),
            to_abort: c.u64s(3),
        })
    }),
    ("MergeFinalize", |c| {
        Message::MergeFinalize(MergeFinalize {
            session_id: c.u64(),
            sender: c.string(),
            success: c.flag(),
            final_state_hash: c.hash32(),
            conflicts_resolved: c.u32(),
            duration_ms: c.u64(),
        })
    }),
];

/// Variant names of `Message` that have no generator (must be empty for the check to run).
pub fn message_variants_without_generator() -> Vec<&'static str> {
    crate::canon::enum_variant_names::<Message>()
        .into_iter()
        .filter(|n| !MESSAGE_GENERATORS.iter().any(|(g, _)| g == n))
        .collect()
}

// ---------------------------------------------------------------------------------------------
// log entries

fn scalar(c: &mut Cur) -> ScalarValue {
    match c.u64() % 6 {
        0 => ScalarValue::Null,
        1 => ScalarValue::Bool(c.flag()),
        2 => ScalarValue::Int(c.u64() as i64),
        3 => ScalarValue::Float(f64::from_bits(c.u64())),
        4 => ScalarValue::String(c.string()),
        _ => ScalarValue::Bytes(c.bytes()),
    }
}

pub fn tensor_value(c: &mut Cur) -> TensorValue {
    match c.u64() % 5 {
        0 => TensorValue::Scalar(scalar(c)),
        1 => TensorValue::Vector(c.f32s(8)),
        2 => TensorValue::Sparse(c.emb()),
        3 => TensorValue::Pointer(c.string()),
        _ => TensorValue::Pointers(c.strings(3)),
    }
}

pub fn tensor_data(c: &mut Cur) -> TensorData {
    let mut t = TensorData::new();
    let n = c.count(4).min(c.max_map);
    for i in 0..n {
        let name = format!("{}{}", c.string(), i);
        t.set(name, tensor_value(c));
    }
    t
}

pub const STORE_WAL_VARIANTS: usize = 10;
pub fn store_wal_entry(v: usize, c: &mut Cur) -> WalEntry {
    use tensor_store::EntityId;
    match v % STORE_WAL_VARIANTS {
        0 => WalEntry::MetadataSet { key: c.string(), data: tensor_data(c) },
        1 => WalEntry::MetadataDelete { key: c.string() },
        2 => WalEntry::EmbeddingSet { entity_id: EntityId(c.u64()), embedding: c.f32s(12) },
        3 => WalEntry::EmbeddingDelete { entity_id: EntityId(c.u64()) },
        4 => WalEntry::EntityCreate { key: c.string(), entity_id: EntityId(c.u64()) },
        5 => WalEntry::EntityRemove { key: c.string() },
        6 => WalEntry::TxBegin { tx_id: c.u64() },
        7 => WalEntry::TxCommit { tx_id: c.u64() },
        8 => WalEntry::TxAbort { tx_id: c.u64() },
        _ => WalEntry::Checkpoint { snapshot_id: c.u64() },
    }
}

pub const RAFT_WAL_VARIANTS: usize = 7;
pub fn raft_wal_entry(v: usize, c: &mut Cur) -> RaftWalEntry {
    match v % RAFT_WAL_VARIANTS {
        0 => RaftWalEntry::TermChange { new_term: c.u64() },
        1 => RaftWalEntry::VoteCast { term: c.u64(), candidate_id: c.string() },
        2 => RaftWalEntry::TermAndVote { term: c.u64(), voted_for: c.opt(|c| c.string()) },
        3 => RaftWalEntry::LogAppend { index: c.u64(), term: c.u64(), command_hash: c.hash32() },
        4 => RaftWalEntry::LogTruncate { from_index: c.u64() },
        5 => RaftWalEntry::SnapshotTaken { last_included_index: c.u64(), last_included_term: c.u64() },
        _ => RaftWalEntry::LogEntryFull { index: c.u64(), term: c.u64(), entry_data: c.bytes() },
    }
}

pub const TX_WAL_VARIANTS: usize = 7;
pub fn tx_wal_entry(v: usize, c: &mut Cur) -> TxWalEntry {
    match v % TX_WAL_VARIANTS {
        0 => TxWalEntry::TxBegin { tx_id: c.u64(), participants: c.usizes(4) },
        1 => TxWalEntry::PrepareVote {
            tx_id: c.u64(),
            shard: c.usize(),
            vote: if c.flag() { PrepareVoteKind::Yes { lock_handle: c.u64() } } else { PrepareVoteKind::No },
        },
        2 => TxWalEntry::PhaseChange { tx_id: c.u64(), from: phase(c), to: phase(c) },
        3 => TxWalEntry::TxComplete { tx_id: c.u64(), outcome: if c.flag() { TxOutcome::Committed } else { TxOutcome::Aborted } },
        4 => TxWalEntry::LockRelease { tx_id: c.u64(), lock_handle: c.u64() },
        5 => TxWalEntry::AllLocksReleased { tx_id: c.u64() },
        _ => TxWalEntry::AbortIntent { tx_id: c.u64(), reason: c.string(), shards: c.usizes(4) },
    }
}
