//! nv_c20 library: counting allocator, canonical comparator, message-limit reference and the
//! byte-level oracle functions of C20. Shared by the nv_c20 binary and by /verif/fuzz_c20.

pub mod alloc;
pub mod build;
pub mod canon;
pub mod limits;
pub mod oracle;

#[global_allocator]
static GLOBAL: alloc::CountingAlloc = alloc::CountingAlloc;

/// Root of the verification tree (the directory holding known_findings.json).
pub fn root() -> std::path::PathBuf {
    if let Ok(r) = std::env::var("NV_ROOT") {
        return r.into();
    }
    let p = std::path::Path::new(env!("CARGO_MANIFEST_DIR"));
    p.ancestors().nth(3).map(|p| p.to_path_buf()).unwrap_or_else(|| "/verif".into())
}
