//! Round-trip parts: codec primitives, compressed-snapshot vectors, log entries, network frames,
//! tensor-train reconstruction.

use crate::strat;
use nv_c20::build::{self, Bag, Cur};
use nv_c20::canon::{canon, diff};
use nv_c20::oracle::{self, CodecCfg, Obs, WalKind};
use nv_engine::{pick, CaseCtx, Fail, Tier};
use proptest::prelude::*;
use serde::{Deserialize, Serialize};

pub fn lift(r: Result<(), oracle::OFail>, ctx: &mut CaseCtx) -> Result<(), Fail> {
    match r {
        Ok(()) => Ok(()),
        Err(f) => ctx.fail(f.sig, f.msg),
    }
}

/// Second opinion next to the canonical image (which goes through `Serialize` and would not
/// see a field that the serde derive skips): the `Debug` rendering. Not applicable to values
/// holding a hash map with more than one entry (iteration order differs between instances).
fn debug_differs<T: std::fmt::Debug>(a: &T, b: &T) -> Option<String> {
    let (x, y) = (format!("{a:?}"), format!("{b:?}"));
    if x == y {
        return None;
    }
    let at = x.bytes().zip(y.bytes()).position(|(p, q)| p != q).unwrap_or(x.len().min(y.len()));
    let lo = at.saturating_sub(40);
    let cut = |s: &str| -> String { s.chars().skip(lo).take(100).collect() };
    Some(format!("Debug renderings differ near byte {at}: ...{} vs ...{}", cut(&x), cut(&y)))
}

fn message_debug_comparable(m: &tensor_chain::network::Message) -> bool {
    use tensor_chain::network::Message;
    match m {
        Message::TxReconcileRequest(r) => r.pending_txs.iter().all(|p| p.votes.len() <= 1),
        Message::TxReconcileResponse(r) => r.pending_txs.iter().all(|p| p.votes.len() <= 1),
        _ => true,
    }
}

fn ref_leb_encode(values: &[u64]) -> Vec<u8> {
    let mut out = Vec::new();
    for &v in values {
        let mut v = v;
        while v >= 0x80 {
            out.push((v as u8 & 0x7f) | 0x80);
            v >>= 7;
        }
        out.push(v as u8);
    }
    out
}

/// equal bit patterns, a zero of either sign standing for "no value"
/// Bit-exact, except that the two zeros are one value: the sparse form stores no zero at all and
/// id lists chosen by field name hold unsigned integers, so the unchanged tree turns -0.0 into
/// +0.0 in several places by design (tried strict: `sparse:dense-roundtrip [-0.0] -> [0.0]`).
fn same_f32(a: f32, b: f32) -> bool {
    a.to_bits() == b.to_bits() || (a == 0.0 && b == 0.0)
}

fn same_vec(a: &[f32], b: &[f32]) -> bool {
    a.len() == b.len() && a.iter().zip(b).all(|(x, y)| same_f32(*x, *y))
}

// ---------------------------------------------------------------------------------------------
// part `codec`

#[derive(Clone, Debug, Serialize, Deserialize)]
pub enum CodecCase {
    Varint { values: Vec<u64> },
    Ids { start: u64, steps: Vec<u64> },
    RleI64 { runs: Vec<(i64, u16)> },
    RleU8 { runs: Vec<(u8, u16)> },
    Sparse { dense: Vec<u32> },
    SparseParts { dim: u16, entries: Vec<(u16, u32)> },
    Ints { runs: Vec<(i64, u16)> },
    SnapHeader { bag: Bag, n: u8, compressed: bool },
}

pub fn codec_strategy(_t: Tier) -> BoxedStrategy<CodecCase> {
    let run_len = prop_oneof![3 => 1u16..4, 2 => 2u16..40, 1 => Just(0u16), 1 => 200u16..700];
    let ival = prop_oneof![4 => -3i64..4, 1 => any::<i64>(), 1 => proptest::sample::select(&[i64::MIN, i64::MAX, 1 << 24, (1 << 24) + 1, -(1 << 24) - 1][..])];
    let dense = prop_oneof![
        3 => proptest::collection::vec(prop_oneof![3 => Just(0u32), 1 => strat::f32_bits()], 0..40),
        1 => proptest::collection::vec(strat::f32_bits(), 0..20),
    ];
    prop_oneof![
        9 => proptest::collection::vec(strat::u64_any(), 0..24).prop_map(|values| CodecCase::Varint { values }),
        12 => (strat::u64_any(), strat::id_steps()).prop_map(|(start, steps)| CodecCase::Ids { start, steps }),
        6 => proptest::collection::vec((ival.clone(), run_len.clone()), 0..10).prop_map(|runs| CodecCase::RleI64 { runs }),
        3 => proptest::collection::vec((any::<u8>(), run_len.clone()), 0..10).prop_map(|runs| CodecCase::RleU8 { runs }),
        9 => dense.prop_map(|dense| CodecCase::Sparse { dense }),
        6 => (1u16..3000, proptest::collection::vec((any::<u16>(), strat::f32_bits()), 0..12))
            .prop_map(|(dim, entries)| CodecCase::SparseParts { dim, entries }),
        3 => proptest::collection::vec((ival, run_len), 0..10).prop_map(|runs| CodecCase::Ints { runs }),
        // (a router per case: expensive, kept rare)
        1 => (strat::bag(), 0u8..6, any::<bool>()).prop_map(|(bag, n, compressed)| CodecCase::SnapHeader { bag, n, compressed }),
    ]
    .boxed()
}

fn expand<T: Clone>(runs: &[(T, u16)]) -> Vec<T> {
    let mut v = Vec::new();
    for (x, n) in runs {
        for _ in 0..*n {
            v.push(x.clone());
        }
    }
    v
}

pub fn codec_check(c: &CodecCase, ctx: &mut CaseCtx) -> Result<(), Fail> {
    use tensor_compress::*;
    match c {
        CodecCase::Varint { values } => {
            ctx.label("varint");
            let enc = varint_encode(values);
            let reference = ref_leb_encode(values);
            if enc != reference {
                ctx.fail("varint:encoding-differs-from-leb128", format!("{values:?}: {enc:?} vs reference {reference:?}"))?;
            }
            let dec = varint_decode(&enc);
            if &dec != values {
                ctx.fail("varint:roundtrip", format!("{values:?} -> {enc:?} -> {dec:?}"))?;
            }
            if values.len() >= 2 && values.iter().any(|v| *v >= 128) {
                ctx.set_nontrivial();
                ctx.label("varint:multi-byte");
            }
        },
        CodecCase::Ids { start, steps } => {
            ctx.label("ids");
            let mut ids = vec![*start];
            for s in steps {
                let last = *ids.last().unwrap();
                ids.push(last.saturating_add(*s));
            }
            if steps.is_empty() && *start % 3 == 0 {
                ids.clear(); // the empty list
                ctx.label("ids:empty");
            }
            let mut deltas: Vec<u64> = Vec::new();
            for (i, v) in ids.iter().enumerate() {
                deltas.push(if i == 0 { *v } else { *v - ids[i - 1] });
            }
            let de = delta_encode(&ids);
            if de != deltas {
                ctx.fail("delta:encode", format!("{ids:?}: {de:?} vs {deltas:?}"))?;
            }
            let dd = delta_decode(&de);
            if dd != ids {
                ctx.fail("delta:roundtrip", format!("{ids:?} -> {de:?} -> {dd:?}"))?;
            }
            let enc = compress_ids(&ids);
            if enc != ref_leb_encode(&deltas) {
                ctx.fail("ids:encoding-differs-from-reference", format!("{ids:?}: {enc:?}"))?;
            }
            let dec = decompress_ids(&enc);
            if dec != ids {
                ctx.fail("ids:roundtrip", format!("{ids:?} -> {enc:?} -> {dec:?}"))?;
            }
            let mut obs = Obs::default();
            lift(oracle::ids(&enc, &mut obs), ctx)?;
            if ids.windows(2).any(|w| w[0] == w[1]) {
                ctx.label("ids:duplicates");
            }
            if ids.last() == Some(&u64::MAX) {
                ctx.label("ids:reaches-u64-max");
            }
            if ids.len() == 1 {
                ctx.label("ids:single");
            }
            if ids.len() >= 2 && deltas.iter().any(|d| *d >= 128) {
                ctx.set_nontrivial();
                ctx.label("ids:multi-byte-delta");
            }
        },
        CodecCase::RleI64 { runs } => {
            ctx.label("rle-i64");
            let data = expand(runs);
            let enc = rle_encode(&data);
            if enc.len() != data.len() || enc.values.len() != enc.run_lengths.len() {
                ctx.fail("rle:encoded-length", format!("{} elements, encoded len {}", data.len(), enc.len()))?;
            }
            let dec = rle_decode(&enc);
            if dec != data {
                ctx.fail("rle:roundtrip", format!("runs {runs:?}: decoded {} elements, expected {}", dec.len(), data.len()))?;
            }
            // the persisted image
            let bytes = bitcode::serialize(&enc).map_err(|e| Fail::new("rle:serialize", e.to_string()))?;
            let back: RleEncoded<i64> = match bitcode::deserialize(&bytes) {
                Ok(b) => b,
                Err(e) => {
                    ctx.fail("rle:image-rejected", e.to_string())?;
                    return Ok(());
                },
            };
            if back != enc {
                ctx.fail("rle:image-roundtrip", "bitcode image of RleEncoded differs".to_string())?;
            }
            let mut obs = Obs::default();
            lift(oracle::rle(&bytes, &mut obs), ctx)?;
            if enc.run_lengths.iter().any(|r| *r >= 2) && data.len() >= 2 {
                ctx.set_nontrivial();
                ctx.label("rle:run>=2");
            }
        },
        CodecCase::RleU8 { runs } => {
            ctx.label("rle-u8");
            let data = expand(runs);
            let enc = rle_encode(&data);
            let dec = rle_decode(&enc);
            if dec != data {
                ctx.fail("rle:roundtrip", format!("bytes runs {runs:?}: decoded {} elements, expected {}", dec.len(), data.len()))?;
            }
            if enc.run_lengths.iter().any(|r| *r >= 2) && data.len() >= 2 {
                ctx.set_nontrivial();
            }
        },
        CodecCase::Sparse { dense } => {
            ctx.label("sparse");
            let d: Vec<f32> = dense.iter().map(|b| f32::from_bits(*b)).collect();
            let sv = tensor_store::SparseVector::from_dense(&d);
            let back = sv.to_dense();
            // documented: zero is absence of information (only non-zero values are stored), so
            // -0.0 comes back as +0.0; everything else bit-exact, NaN payloads included
            if !same_vec(&d, &back) {
                ctx.fail("sparse:dense-roundtrip", format!("{d:?} -> {back:?}"))?;
            }
            let nnz = d.iter().filter(|v| **v != 0.0).count();
            if sv.nnz() != nnz || sv.dimension() != d.len() {
                ctx.fail("sparse:shape", format!("nnz {} vs {nnz}, dimension {} vs {}", sv.nnz(), sv.dimension(), d.len()))?;
            }
            let bytes = bitcode::serialize(&sv).map_err(|e| Fail::new("sparse:serialize", e.to_string()))?;
            match bitcode::deserialize::<tensor_store::SparseVector>(&bytes) {
                Ok(sv2) => {
                    if let Some(df) = diff(&canon(&sv), &canon(&sv2)) {
                        ctx.fail("sparse:image-roundtrip", df)?;
                    }
                },
                Err(e) => ctx.fail("sparse:image-rejected", e.to_string())?,
            }
            if d.iter().any(|v| v.to_bits() == 0x8000_0000) {
                ctx.label("sparse:negative-zero");
            }
            if d.iter().any(|v| v.is_nan()) {
                ctx.label("sparse:nan");
            }
            if nnz >= 2 {
                ctx.label("sparse:nnz>=2");
            }
        },
        CodecCase::SparseParts { dim, entries } => {
            ctx.label("compress_sparse");
            let dim = usize::from(*dim);
            let mut m = std::collections::BTreeMap::new();
            for (p, bits) in entries {
                let v = f32::from_bits(*bits);
                if v != 0.0 {
                    m.insert(pick(*p, dim) as u32, v);
                }
            }
            let (pos, vals): (Vec<u32>, Vec<f32>) = m.iter().map(|(p, v)| (*p, *v)).unzip();
            let mut dense = vec![0.0f32; dim];
            for (p, v) in &m {
                dense[*p as usize] = *v;
            }
            let cv = format::compress_sparse(dim, &pos, &vals);
            match format::decompress_vector(&cv) {
                Ok(out) => {
                    if !same_vec(&dense, &out) {
                        ctx.fail("compress_sparse:roundtrip", format!("dim {dim} positions {pos:?}"))?;
                    }
                },
                Err(e) => ctx.fail("compress_sparse:rejected", e.to_string())?,
            }
            if let Some(cv2) = format::compress_dense_as_sparse(&dense) {
                ctx.label("compress_dense_as_sparse:some");
                match format::decompress_vector(&cv2) {
                    Ok(out) => {
                        if !same_vec(&dense, &out) {
                            ctx.fail("compress_dense_as_sparse:roundtrip", format!("dim {dim} positions {pos:?}"))?;
                        }
                    },
                    Err(e) => ctx.fail("compress_dense_as_sparse:rejected", e.to_string())?,
                }
            }
            // positions as a persisted id list
            if pos.len() >= 2 && pos.windows(2).any(|w| w[1] - w[0] >= 128) {
                ctx.set_nontrivial();
            }
        },
        CodecCase::Ints { runs } => {
            ctx.label("compress_ints");
            let data = expand(runs);
            let cfg = CompressionConfig { tensor_mode: None, delta_encoding: true, rle_encoding: true };
            let cv = format::compress_ints(&data, &cfg);
            let out = format::decompress_ints(&cv);
            let is_rle = matches!(cv, format::CompressedValue::RleInt(_));
            // the raw fallback stores f32: exact only up to 2^24, outside the lossless claim
            let exact_domain = is_rle || data.iter().all(|v| v.unsigned_abs() <= 1 << 24);
            if exact_domain && out != data {
                ctx.fail(
                    if is_rle { "compress_ints:rle-roundtrip" } else { "compress_ints:raw-roundtrip" },
                    format!("{} ints, {} back", data.len(), out.len()),
                )?;
            }
            if is_rle {
                ctx.label("compress_ints:rle");
                ctx.set_nontrivial();
            }
        },
        CodecCase::SnapHeader { bag, n, compressed } => {
            ctx.label("snapshot-header");
            let (bytes, want) = snapv3_bytes(bag, *n, *compressed);
            match oracle::snap_header(&bytes) {
                Some((magic, version, flags, count)) => {
                    if !magic || version != 3 || flags != u32::from(*compressed) {
                        ctx.fail(
                            "snapshot-header:layout",
                            format!("magic ok {magic}, version {version}, flags {flags:#x} (compressed {compressed}): first 20 bytes {:?}", &bytes[..20]),
                        )?;
                    }
                    // "total entry count": at least the keys stored, never more than keys + index entries
                    if count < u64::from(*n) || count > 2 * u64::from(*n) {
                        ctx.fail("snapshot-header:entry-count", format!("{n} keys stored, header says {count}"))?;
                    }
                },
                None => ctx.fail("snapshot-header:short-file", format!("{} bytes", bytes.len()))?,
            }
            // the header type itself
            use tensor_store::SnapshotHeader;
            let h = if *compressed { SnapshotHeader::new_compressed(u64::from(*n)) } else { SnapshotHeader::new(u64::from(*n)) };
            if h.validate().is_err() || h.is_compressed() != *compressed || h.entry_count != u64::from(*n) {
                ctx.fail("snapshot-header:constructor", format!("{h:?}"))?;
            }
            let hb = bitcode::serialize(&h).map_err(|e| Fail::new("snapshot-header:serialize", e.to_string()))?;
            match bitcode::deserialize::<SnapshotHeader>(&hb) {
                Ok(h2) => {
                    if canon(&h) != canon(&h2) {
                        ctx.fail("snapshot-header:image-roundtrip", format!("{h:?} vs {h2:?}"))?;
                    }
                },
                Err(e) => ctx.fail("snapshot-header:image-rejected", e.to_string())?,
            }
            // and the file reads back to the same content
            let f = oracle::TmpFile::with_bytes("hdr", &bytes);
            match tensor_store::snapshot::load(&f.0) {
                Ok(r) => {
                    let mut keys = r.scan("");
                    keys.sort();
                    let got: Vec<(String, nv_c20::canon::Canon)> = keys.into_iter().map(|k| { let t = r.get(&k).map(|t| canon(&t)).unwrap_or(nv_c20::canon::Canon::None); (k, t) }).collect();
                    if got != want {
                        ctx.fail("snapshot-file:roundtrip", format!("{} keys saved, {} loaded or values differ", want.len(), got.len()))?;
                    }
                },
                Err(e) => ctx.fail("snapshot-file:rejected", e.to_string())?,
            }
            let mut obs = Obs::default();
            lift(oracle::snapv3(&bytes, &mut obs), ctx)?;
        },
    }
    Ok(())
}

/// A default-format snapshot file of `n` generated entries, and the content it holds.
pub fn snapv3_bytes(bag: &Bag, n: u8, compressed: bool) -> (Vec<u8>, Vec<(String, nv_c20::canon::Canon)>) {
    let router = tensor_store::SlabRouter::new();
    // one field per entry: the file bytes must not depend on hash-map iteration order
    let mut cur = Cur::with_max_map(bag, 1);
    let mut want = Vec::new();
    for i in 0..n {
        let key = format!("k{i}");
        let t = build::tensor_data(&mut cur);
        want.push((key.clone(), canon(&t)));
        let _ = router.put(&key, t);
    }
    want.sort();
    let f = oracle::TmpFile::new("snapv3w");
    let r = if compressed { tensor_store::snapshot::save_v3(&router, &f.0) } else { tensor_store::snapshot::save_v3_uncompressed(&router, &f.0) };
    let bytes = if r.is_ok() { std::fs::read(&f.0).unwrap_or_default() } else { Vec::new() };
    (bytes, want)
}

// ---------------------------------------------------------------------------------------------
// part `snapvec`: vectors through compress_vector/decompress_vector and the compressed snapshot API

#[derive(Clone, Debug, Serialize, Deserialize)]
pub enum VecSpec {
    SortedInts(Vec<u32>),
    UnsortedInts(Vec<u16>),
    Quarters(Vec<i16>),
    Bits(Vec<u32>),
    /// ascending powers of two starting at 2^(56+k): crosses 2^64
    Huge(Vec<u8>),
    /// -0.0 followed by ascending integers: looks like an id list, but the sign of the zero is data
    #[serde(alias = "NegZeroInts")]
    NegZeroInts(Vec<u32>),
}

impl VecSpec {
    pub fn build(&self) -> Vec<f32> {
        match self {
            VecSpec::SortedInts(v) => {
                let mut v = v.clone();
                v.sort_unstable();
                v.into_iter().map(|x| x as f32).collect()
            },
            VecSpec::UnsortedInts(v) => v.iter().map(|x| f32::from(*x)).collect(),
            VecSpec::Quarters(v) => v.iter().map(|x| f32::from(*x) / 4.0).collect(),
            VecSpec::Bits(v) => v.iter().map(|b| f32::from_bits(*b)).collect(),
            VecSpec::NegZeroInts(v) => {
                let mut v = v.clone();
                v.sort_unstable();
                std::iter::once(-0.0f32).chain(v.into_iter().map(|x| x as f32)).collect()
            },
            VecSpec::Huge(v) => {
                let mut e: Vec<u8> = v.iter().map(|x| x % 16).collect();
                e.sort_unstable();
                e.into_iter().map(|k| 2f32.powi(56 + i32::from(k))).collect()
            },
        }
    }
}

#[derive(Clone, Debug, Serialize, Deserialize)]
pub struct SnapField {
    pub name: u8,
    pub vec: VecSpec,
    pub as_sparse: bool,
}

#[derive(Clone, Debug, Serialize, Deserialize)]
pub struct SnapCase {
    pub delta: bool,
    pub rle: bool,
    pub entries: Vec<(u8, Vec<SnapField>)>,
    pub bag: Bag,
}

pub const FIELD_NAMES: &[&str] = &["ids", "row_ids", "member_ids", "data", "weights", "vector", "_embedding", "vals", "idsx"];

pub fn vec_spec() -> BoxedStrategy<VecSpec> {
    prop_oneof![
        4 => proptest::collection::vec(prop_oneof![3 => 0u32..400, 1 => any::<u32>()], 0..10).prop_map(VecSpec::SortedInts),
        3 => proptest::collection::vec(0u16..400, 0..8).prop_map(VecSpec::UnsortedInts),
        2 => proptest::collection::vec(-40i16..40, 0..6).prop_map(VecSpec::Quarters),
        2 => proptest::collection::vec(strat::f32_bits(), 0..6).prop_map(VecSpec::Bits),
        1 => proptest::collection::vec(any::<u8>(), 1..5).prop_map(VecSpec::Huge),
        1 => proptest::collection::vec(0u32..400, 0..6).prop_map(VecSpec::NegZeroInts),
    ]
    .boxed()
}

pub fn snap_strategy(_t: Tier) -> BoxedStrategy<SnapCase> {
    let field = (0u8..FIELD_NAMES.len() as u8, vec_spec(), proptest::bool::weighted(0.15))
        .prop_map(|(name, vec, as_sparse)| SnapField { name, vec, as_sparse });
    let entry = (any::<u8>(), proptest::collection::vec(field, 1..4));
    (proptest::bool::weighted(0.8), any::<bool>(), proptest::collection::vec(entry, 1..4), strat::bag())
        .prop_map(|(delta, rle, entries, bag)| SnapCase { delta, rle, entries, bag })
        .boxed()
}

/// Classify a vector that did not come back: which rule of the id-list path it ran into.
fn classify_idlist(name: &str, orig: &[f32], back: &[f32]) -> String {
    let by_name = name == "ids" || name.ends_with("_ids");
    let how = if by_name { "by-field-name" } else { "by-value-heuristic" };
    let non_integral = orig.iter().any(|v| !v.is_finite() || v.fract() != 0.0 || *v < 0.0);
    let above = orig.iter().any(|v| v.is_finite() && *v >= 18_446_744_073_709_551_616.0);
    let descending = orig.windows(2).any(|w| w[1] < w[0]);
    if non_integral {
        return format!("idlist:{how}:non-integral-or-negative-value");
    }
    if above {
        return format!("idlist:{how}:value-above-u64");
    }
    if descending {
        // what clamping every descending step to zero produces
        let mut model = Vec::new();
        for (i, v) in orig.iter().enumerate() {
            if i == 0 {
                model.push(*v as u64);
            } else {
                let step = (*v as u64).saturating_sub(orig[i - 1] as u64);
                let last: u64 = *model.last().unwrap();
                model.push(last.saturating_add(step));
            }
        }
        let model: Vec<f32> = model.into_iter().map(|x| x as f32).collect();
        if same_vec(&model, back) {
            return format!("idlist:{how}:unsorted-descending-step-clamped");
        }
        return format!("idlist:{how}:unsorted-other-result");
    }
    format!("idlist:{how}:changed")
}

pub fn snap_check(c: &SnapCase, ctx: &mut CaseCtx) -> Result<(), Fail> {
    use tensor_compress::format::{compress_vector, decompress_vector, CompressedValue};
    use tensor_store::{ScalarValue, SparseVector, TensorData, TensorStore, TensorValue};
    let cfg = tensor_compress::CompressionConfig { tensor_mode: None, delta_encoding: c.delta, rle_encoding: c.rle };
    ctx.label(if c.delta { "delta-encoding:on" } else { "delta-encoding:off" });

    let compare = |name: &str, orig: &[f32], back: &[f32], as_idlist: bool, path: &str, ctx: &mut CaseCtx| -> Result<(), Fail> {
        if same_vec(orig, back) {
            return Ok(());
        }
        let sig = if as_idlist { classify_idlist(name, orig, back) } else { "snapvec:raw-vector-changed".to_string() };
        ctx.fail(sig, format!("{path}: field {name:?} stored {orig:?} came back {back:?}"))
    };

    // direct codec calls (compared after the public path, so that a replay shows the public path)
    let mut direct: Vec<(String, Vec<f32>, Option<Vec<f32>>, bool)> = Vec::new();
    let mut wanted: Vec<(String, Vec<(String, Vec<f32>, bool, bool)>)> = Vec::new();
    for (ei, (ksel, fields)) in c.entries.iter().enumerate() {
        let key = format!("{}{}_{ei}", if ksel % 2 == 0 { "k" } else { "index:" }, ksel % 7);
        let mut fl = Vec::new();
        for (fi, f) in fields.iter().enumerate() {
            let name = FIELD_NAMES[usize::from(f.name) % FIELD_NAMES.len()].to_string();
            if fl.iter().any(|(n, _, _, _): &(String, Vec<f32>, bool, bool)| *n == name) {
                continue;
            }
            let _ = fi;
            let v = f.vec.build();
            let cv = compress_vector(&v, &key, &name, &cfg).map_err(|e| Fail::new("snapvec:compress-error", e.to_string()))?;
            let as_idlist = matches!(cv, CompressedValue::IdList(_));
            if as_idlist {
                ctx.label("encoded-as:IdList");
                if v.len() >= 2 && v.windows(2).any(|w| (w[1] - w[0]).abs() >= 128.0) {
                    ctx.set_nontrivial();
                }
                if v.windows(2).any(|w| w[1] < w[0]) {
                    ctx.label("idlist:unsorted-input");
                }
            } else {
                ctx.label("encoded-as:VectorRaw");
            }
            let direct_back = match decompress_vector(&cv) {
                Ok(back) => Some(back),
                Err(e) => {
                    ctx.fail("snapvec:decompress-error", e.to_string())?;
                    None
                },
            };
            direct.push((name.clone(), v.clone(), direct_back, as_idlist));
            fl.push((name, v, as_idlist, f.as_sparse));
        }
        wanted.push((key, fl));
    }

    // the public persistence path
    let store = TensorStore::new();
    let mut cur = Cur::new(&c.bag);
    let mut scalars: Vec<(String, ScalarValue)> = Vec::new();
    for (key, fl) in &wanted {
        let mut t = TensorData::new();
        for (name, v, _, as_sparse) in fl {
            // a sparse value is documented to be stored through its dense form
            if *as_sparse && v.iter().all(|x| x.is_finite()) {
                t.set(name.clone(), TensorValue::Sparse(SparseVector::from_dense(v)));
            } else {
                t.set(name.clone(), TensorValue::Vector(v.clone()));
            }
        }
        let sv = match cur.u64() % 5 {
            0 => ScalarValue::Null,
            1 => ScalarValue::Bool(cur.flag()),
            2 => ScalarValue::Int(cur.u64() as i64),
            3 => ScalarValue::Float(f64::from_bits(cur.u64())),
            _ => ScalarValue::String(cur.string()),
        };
        t.set("s", TensorValue::Scalar(sv.clone()));
        t.set("p", TensorValue::Pointers(cur.strings(3)));
        scalars.push((key.clone(), sv));
        store.put(key.clone(), t).map_err(|e| Fail::new("snapvec:put-error", e.to_string()))?;
    }
    let dir = nv_engine::scratch::Dir::new("c20snap");
    let path = dir.join("snap.bin");
    store.save_snapshot_compressed(&path, cfg.clone()).map_err(|e| Fail::new("snapvec:save-error", e.to_string()))?;
    let loaded = match TensorStore::load_snapshot_compressed(&path) {
        Ok(l) => l,
        Err(e) => {
            ctx.fail("snapvec:load-error", e.to_string())?;
            return Ok(());
        },
    };
    for (key, fl) in &wanted {
        let t = match loaded.get(key) {
            Ok(t) => t,
            Err(e) => {
                ctx.fail("snapvec:key-missing", format!("{key}: {e}"))?;
                continue;
            },
        };
        for (name, v, as_idlist, _) in fl {
            let back: Vec<f32> = match t.get(name) {
                Some(TensorValue::Vector(b)) => b.clone(),
                Some(TensorValue::Sparse(s)) => s.to_dense(),
                other => {
                    ctx.fail("snapvec:field-kind", format!("{key}.{name}: {other:?}"))?;
                    continue;
                },
            };
            compare(name, v, &back, *as_idlist, "save_snapshot_compressed/load_snapshot_compressed", ctx)?;
        }
        if let Some((_, sv)) = scalars.iter().find(|(k, _)| k == key) {
            let got = t.get("s");
            let want = TensorValue::Scalar(sv.clone());
            if got.map(canon) != Some(canon(&want)) {
                ctx.fail("snapvec:scalar-changed", format!("{key}.s: {sv:?} came back {got:?}"))?;
            }
        }
    }
    for (name, v, back, as_idlist) in &direct {
        if let Some(back) = back {
            compare(name, v, back, *as_idlist, "compress_vector/decompress_vector", ctx)?;
        }
    }
    // the file itself through the byte-level oracle (fixed point, safety)
    if let Ok(bytes) = std::fs::read(&path) {
        let mut obs = Obs::default();
        lift(oracle::csnap(&bytes, &mut obs), ctx)?;
    }
    Ok(())
}

// ---------------------------------------------------------------------------------------------
// part `wal`: the three log-entry enums through the real append / replay

#[derive(Clone, Debug, Serialize, Deserialize)]
pub struct WalCase {
    pub kind: u8,
    pub variants: Vec<u8>,
    pub bag: Bag,
    pub checksums: bool,
    pub verify: bool,
    pub batch: bool,
    pub reopen_at: u16,
}

pub fn wal_strategy(_t: Tier) -> BoxedStrategy<WalCase> {
    (
        0u8..3,
        proptest::collection::vec(any::<u8>(), 0..8),
        strat::bag(),
        proptest::bool::weighted(0.8),
        proptest::bool::weighted(0.8),
        any::<bool>(),
        any::<u16>(),
    )
        .prop_map(|(kind, variants, bag, checksums, verify, batch, reopen_at)| WalCase { kind, variants, bag, checksums, verify, batch, reopen_at })
        .boxed()
}

pub fn wal_kind(k: u8) -> WalKind {
    match k % 3 {
        0 => WalKind::Store,
        1 => WalKind::Raft,
        _ => WalKind::Tx,
    }
}

/// Write the entries of a case through the real writer; returns the canonical images expected back.
pub fn wal_write(c: &WalCase, path: &std::path::Path, max_map: usize) -> Result<Vec<nv_c20::canon::Canon>, String> {
    let kind = wal_kind(c.kind);
    let mut cur = Cur::with_max_map(&c.bag, max_map);
    let n = c.variants.len();
    let split = if n == 0 { 0 } else { pick(c.reopen_at, n + 1) };
    let expect;
    match kind {
        WalKind::Store => {
            use tensor_store::wal::{TensorWal, WalConfig};
            let entries: Vec<_> = c.variants.iter().map(|v| build::store_wal_entry(usize::from(*v), &mut cur)).collect();
            expect = entries.iter().map(oracle::wal_image).collect();
            let mut cfg = WalConfig::default();
            cfg.enable_checksums = c.checksums;
            cfg.verify_on_replay = c.verify;
            for (range, _) in [(0..split, 0), (split..n, 1)] {
                let mut w = TensorWal::open(path, cfg.clone()).map_err(|e| e.to_string())?;
                if c.batch {
                    w.append_batch(&entries[range]).map_err(|e| e.to_string())?;
                } else {
                    for e in &entries[range] {
                        w.append(e).map_err(|e| e.to_string())?;
                    }
                }
            }
        },
        WalKind::Raft => {
            use tensor_chain::raft_wal::{RaftWal, WalConfig};
            let entries: Vec<_> = c.variants.iter().map(|v| build::raft_wal_entry(usize::from(*v), &mut cur)).collect();
            expect = entries.iter().map(oracle::wal_image).collect();
            let mut cfg = WalConfig::default();
            cfg.enable_checksums = c.checksums;
            cfg.verify_on_replay = c.verify;
            cfg.pre_check_space = c.batch;
            for range in [0..split, split..n] {
                let mut w = RaftWal::open_with_config(path, cfg.clone()).map_err(|e| e.to_string())?;
                for e in &entries[range] {
                    w.append(e).map_err(|e| e.to_string())?;
                }
            }
        },
        WalKind::Tx => {
            use tensor_chain::raft_wal::WalConfig;
            use tensor_chain::tx_wal::TxWal;
            let entries: Vec<_> = c.variants.iter().map(|v| build::tx_wal_entry(usize::from(*v), &mut cur)).collect();
            expect = entries.iter().map(oracle::wal_image).collect();
            let mut cfg = WalConfig::default();
            cfg.enable_checksums = c.checksums;
            cfg.verify_on_replay = c.verify;
            cfg.pre_check_space = c.batch;
            for range in [0..split, split..n] {
                let mut w = TxWal::open_with_config(path, cfg.clone()).map_err(|e| e.to_string())?;
                for e in &entries[range] {
                    w.append(e).map_err(|e| e.to_string())?;
                }
            }
        },
    }
    Ok(expect)
}

pub fn wal_check(c: &WalCase, ctx: &mut CaseCtx) -> Result<(), Fail> {
    let kind = wal_kind(c.kind);
    ctx.label(format!("wal:{}", kind.name()));
    let dir = nv_engine::scratch::Dir::new("c20wal");
    let path = dir.join("log.wal");
    let expect = wal_write(c, &path, 4).map_err(|e| Fail::new(format!("wal:{}:append-error", kind.name()), e))?;
    for (i, v) in c.variants.iter().enumerate() {
        let nv = match kind {
            WalKind::Store => build::STORE_WAL_VARIANTS,
            WalKind::Raft => build::RAFT_WAL_VARIANTS,
            WalKind::Tx => build::TX_WAL_VARIANTS,
        };
        if i < 8 {
            ctx.label(format!("wal:{}:variant{}", kind.name(), usize::from(*v) % nv));
        }
    }
    match oracle::wal_replay(kind, c.verify, &path) {
        Ok(got) => {
            if got.len() != expect.len() {
                ctx.fail(
                    format!("wal:{}:roundtrip-count", kind.name()),
                    format!("{} entries appended, {} replayed", expect.len(), got.len()),
                )?;
            } else {
                for (i, (a, b)) in expect.iter().zip(&got).enumerate() {
                    if let Some(d) = diff(a, b) {
                        ctx.fail(format!("wal:{}:roundtrip-entry", kind.name()), format!("entry {i}: {d}"))?;
                    }
                }
            }
        },
        Err(e) => ctx.fail(format!("wal:{}:replay-error", kind.name()), e)?,
    }
    // the written file against the independent frame reader
    let bytes = std::fs::read(&path).unwrap_or_default();
    let frames = oracle::wal_frames(&bytes);
    if frames.len() != expect.len() || frames.last().map(|f| f.0.end).unwrap_or(0) != bytes.len() {
        ctx.fail(
            format!("wal:{}:file-layout", kind.name()),
            format!("{} entries, {} frames [len][crc][payload] in {} bytes", expect.len(), frames.len(), bytes.len()),
        )?;
    }
    for (r, stored) in &frames {
        let want = if c.checksums { oracle::crc32(&bytes[r.clone()]) } else { 0 };
        if *stored != want {
            ctx.fail(format!("wal:{}:stored-checksum", kind.name()), format!("stored {stored:#x}, CRC-32 of payload {want:#x}"))?;
        }
    }
    let mut obs = Obs::default();
    lift(oracle::wal_with(kind, c.verify, &bytes, &mut obs), ctx)?;
    if expect.len() >= 2 {
        ctx.set_nontrivial();
    }
    if c.variants.is_empty() {
        ctx.label("wal:empty");
    }
    Ok(())
}

// ---------------------------------------------------------------------------------------------
// part `frame`: every Message variant through bitcode and LengthDelimitedCodec

#[derive(Clone, Debug, Serialize, Deserialize)]
pub enum Limit {
    Large,
    AroundSerialized(i8),
    AroundWire(i8),
}

#[derive(Clone, Debug, Serialize, Deserialize)]
pub struct FrameCase {
    pub variant: u16,
    pub bag: Bag,
    pub v2: bool,
    pub lz4: bool,
    pub min_size: u16,
    pub limit: Limit,
}

pub fn frame_strategy(_t: Tier) -> BoxedStrategy<FrameCase> {
    let limit = prop_oneof![3 => Just(Limit::Large), 2 => (-3i8..4).prop_map(Limit::AroundSerialized), 2 => (-3i8..4).prop_map(Limit::AroundWire)];
    (any::<u16>(), strat::bag(), proptest::bool::weighted(0.65), proptest::bool::weighted(0.6), prop_oneof![Just(0u16), 1u16..600, Just(256u16)], limit)
        .prop_map(|(variant, bag, v2, lz4, min_size, limit)| FrameCase { variant, bag, v2, lz4, min_size, limit })
        .boxed()
}

pub fn build_message(variant: u16, bag: &Bag) -> (&'static str, tensor_chain::network::Message, u32, u32) {
    build_message_with(variant, bag, 4)
}

pub fn build_message_with(variant: u16, bag: &Bag, max_map: usize) -> (&'static str, tensor_chain::network::Message, u32, u32) {
    let (name, gen) = build::MESSAGE_GENERATORS[pick(variant, build::MESSAGE_GENERATORS.len())];
    let mut cur = Cur::with_max_map(bag, max_map);
    let m = gen(&mut cur);
    (name, m, cur.some, cur.none)
}

fn tcp_err_class(e: &tensor_chain::tcp::TcpError) -> &'static str {
    use tensor_chain::tcp::TcpError::*;
    match e {
        MessageTooLarge { .. } => "too-large",
        Serialization(_) => "serialization",
        Io(_) => "io",
        InvalidFrame(_) => "invalid-frame",
        Compression { .. } => "compression",
        _ => "other",
    }
}

pub fn frame_check(c: &FrameCase, ctx: &mut CaseCtx) -> Result<(), Fail> {
    use tensor_chain::network::Message;
    let (name, msg, some, none) = build_message(c.variant, &c.bag);
    ctx.label(format!("msg:{name}"));
    if some > 0 {
        ctx.label(format!("msg:{name}:optional-filled"));
    }
    if none > 0 {
        ctx.label(format!("msg:{name}:optional-empty"));
    }
    let want = canon(&msg);

    // transport image
    let ser = bitcode::serialize(&msg).map_err(|e| Fail::new("bitcode:serialize-error", e.to_string()))?;
    match bitcode::deserialize::<Message>(&ser) {
        Ok(m2) => {
            if let Some(d) = diff(&want, &canon(&m2)) {
                ctx.fail(format!("bitcode:roundtrip:{name}"), d)?;
            }
            if message_debug_comparable(&msg) {
                if let Some(d) = debug_differs(&msg, &m2) {
                    ctx.fail(format!("bitcode:roundtrip:{name}"), d)?;
                }
            }
        },
        Err(e) => ctx.fail(format!("bitcode:rejected:{name}"), e.to_string())?,
    }

    let v = if c.v2 { "v2" } else { "v1" };
    // a message holding a hash map with several entries has no fixed encoding (iteration order
    // differs per process): no compression and no tight limit for it, so that the outcome of the
    // case does not depend on the order
    let order_free = message_debug_comparable(&msg);
    if !order_free {
        ctx.label("msg:multi-entry-hash-map");
    }
    let lz4 = c.lz4 && c.v2 && order_free;
    let big = CodecCfg { v2: c.v2, lz4, min_size: usize::from(c.min_size), max_frame_length: 16 << 20 };
    let wire = match oracle::encode_frame(&big.build(), c.v2, &msg) {
        Ok(w) => w,
        Err(e) => {
            ctx.fail(format!("frame:{v}:encode-error-under-16MiB"), format!("{e:?}"))?;
            return Ok(());
        },
    };
    let content_len = wire.len() - 4;
    let max = match c.limit {
        _ if !order_free => 16usize << 20,
        Limit::Large => 16usize << 20,
        Limit::AroundSerialized(d) => (ser.len() as i64 + i64::from(d)).max(1) as usize,
        Limit::AroundWire(d) => (content_len as i64 + i64::from(d)).max(1) as usize,
    };
    let cfg = CodecCfg { max_frame_length: max, ..big };
    let codec = cfg.build();
    // documented: v1 rejects when the serialized payload exceeds the maximum, v2 when the
    // serialized message or flags + payload (as sent) exceed it (the receiving side applies the
    // limit to the decompressed message, so a frame that fits may carry a message that does not)
    let should_fit = if c.v2 { content_len <= max && ser.len() <= max } else { ser.len() <= max };
    let enc = oracle::encode_frame(&codec, c.v2, &msg);
    let frame = match (enc, should_fit) {
        (Ok(f), true) => f,
        (Err(tensor_chain::tcp::TcpError::MessageTooLarge { .. }), false) => {
            ctx.label(format!("frame:{v}:too-large-rejected-by-encoder"));
            return Ok(());
        },
        (Ok(_), false) => {
            ctx.fail(format!("frame:{v}:encoder-accepts-above-limit"), format!("content {content_len}, serialized {}, max {max}", ser.len()))?;
            return Ok(());
        },
        (Err(e), _) => {
            ctx.fail(format!("frame:{v}:encoder-rejects-within-limit"), format!("content {content_len}, max {max}: {e:?}"))?;
            return Ok(());
        },
    };
    if frame != wire {
        ctx.fail(format!("frame:{v}:encoding-depends-on-limit"), "same message, different frame bytes".to_string())?;
    }
    // own reading of the header
    let prefix = u32::from_be_bytes([frame[0], frame[1], frame[2], frame[3]]) as usize;
    if prefix != frame.len() - 4 {
        ctx.fail(format!("frame:{v}:length-prefix"), format!("prefix {prefix}, {} bytes follow", frame.len() - 4))?;
    }
    let mut compressed = false;
    if c.v2 {
        let flags = frame[4];
        match flags {
            0 => {
                if frame[5..] != ser[..] {
                    ctx.fail("frame:v2:uncompressed-payload-differs", "flags 0 but payload is not the serialized message".to_string())?;
                }
            },
            1 => {
                compressed = true;
                if !lz4 || ser.len() < usize::from(c.min_size) || frame.len() - 5 >= ser.len() {
                    ctx.fail(
                        "frame:v2:compressed-against-configuration",
                        format!("lz4 {lz4}, serialized {}, min_size {}, payload {}", ser.len(), c.min_size, frame.len() - 5),
                    )?;
                }
            },
            f => ctx.fail("frame:v2:reserved-flag-bits-set", format!("flags {f:#x}"))?,
        }
    } else if frame[4..] != ser[..] {
        ctx.fail("frame:v1:payload-differs", "payload is not the serialized message".to_string())?;
    }
    ctx.label(format!("frame:{v}:{}", if compressed { "lz4" } else { "plain" }));
    if ser.len() > max {
        ctx.label("frame:serialized-above-max-but-frame-fits");
    }

    // decode through the stream reader and through decode_payload
    match oracle::read_one_frame(&codec, c.v2, &frame) {
        Ok(Some(m2)) => {
            if let Some(d) = diff(&want, &canon(&m2)) {
                ctx.fail(format!("frame:{v}:roundtrip:{name}"), d)?;
            }
            if message_debug_comparable(&msg) {
                if let Some(d) = debug_differs(&msg, &m2) {
                    ctx.fail(format!("frame:{v}:roundtrip:{name}"), d)?;
                }
            }
        },
        Ok(None) => ctx.fail(format!("frame:{v}:decoder-sees-eof"), "complete frame read as end of stream".to_string())?,
        Err(e) => ctx.fail(
            format!("frame:{v}:{}:encoder-accepts-decoder-rejects:{}", if compressed { "lz4" } else { "plain" }, tcp_err_class(&e)),
            format!("{name}: serialized {} bytes, frame content {content_len}, max_frame_length {max}: {e:?}", ser.len()),
        )?,
    }
    let direct = if c.v2 { codec.decode_payload_v2(&frame[4..]) } else { codec.decode_payload(&frame[4..]) };
    match direct {
        Ok(m2) => {
            if let Some(d) = diff(&want, &canon(&m2)) {
                ctx.fail(format!("frame:{v}:decode_payload-roundtrip:{name}"), d)?;
            }
        },
        Err(e) => {
            ctx.fail(
                format!("frame:{v}:{}:encoder-accepts-decoder-rejects:{}", if compressed { "lz4" } else { "plain" }, tcp_err_class(&e)),
                format!("decode_payload: {e:?}"),
            )?;
        },
    }
    // two frames back to back: the reader must consume exactly one
    let mut two = frame.clone();
    two.extend_from_slice(&frame);
    let mut rd: &[u8] = &two;
    let first = if c.v2 { oracle::block_on_ready(codec.read_frame_v2(&mut rd)) } else { oracle::block_on_ready(codec.read_frame(&mut rd)) };
    if first.is_ok() && rd.len() != frame.len() {
        ctx.fail(format!("frame:{v}:reader-consumed-wrong-amount"), format!("{} bytes left, expected {}", rd.len(), frame.len()))?;
    }

    if compressed {
        ctx.set_nontrivial();
    }
    // the validator on a well-formed message
    let mut obs = Obs::default();
    let r = oracle::validated_use(&msg, &mut obs);
    for l in &obs.labels {
        ctx.label(format!("{l}:{name}"));
    }
    lift(r, ctx)
}

// ---------------------------------------------------------------------------------------------
// part `tt`: lossy reconstruction

#[derive(Clone, Debug, Serialize, Deserialize)]
pub struct TtCase {
    pub kind: u8,
    pub shape: Vec<u8>,
    pub rank: u8,
    pub max_rank_extra: u8,
    pub tol: u8,
    pub seed: Vec<i8>,
    pub raw: Vec<u32>,
    /// decimal exponent the whole vector is scaled by (extreme floats: 1e-23 .. 1e30)
    #[serde(default)]
    pub mag: i8,
    /// every component made non-positive
    #[serde(default)]
    pub neg: bool,
}

pub fn tt_strategy(_t: Tier) -> BoxedStrategy<TtCase> {
    (
        0u8..4,
        proptest::collection::vec(2u8..6, 2..5),
        1u8..4,
        0u8..3,
        0u8..3,
        proptest::collection::vec(-8i8..9, 8..40),
        proptest::collection::vec(strat::f32_bits_moderate(), 4..24),
        prop_oneof![6 => Just(0i8), 4 => proptest::sample::select(vec![-23i8, -15, -12, -11, -9, -6, 6, 11, 13, 15, 20, 30])],
        proptest::bool::weighted(0.25),
    )
        .prop_map(|(kind, shape, rank, max_rank_extra, tol, seed, raw, mag, neg)| TtCase { kind, shape, rank, max_rank_extra, tol, seed, raw, mag, neg })
        .boxed()
}

/// Rank of every unfolding (rows = first k modes, columns = the rest) of `x`, in f64.
fn unfolding_ranks(x: &[f32], shape: &[usize]) -> Vec<usize> {
    let n: usize = shape.iter().product();
    let mut out = Vec::new();
    let mut rows = 1usize;
    for k in 0..shape.len().saturating_sub(1) {
        rows *= shape[k];
        let cols = n / rows;
        let mut m: Vec<f64> = x.iter().map(|v| f64::from(*v)).collect();
        let scale = m.iter().fold(0.0f64, |a, v| a.max(v.abs()));
        let eps = scale * 1e-5;
        let mut rank = 0usize;
        for c in 0..cols {
            if rank == rows {
                break;
            }
            let (mut best, mut bi) = (0.0f64, rank);
            for r in rank..rows {
                if m[r * cols + c].abs() > best {
                    best = m[r * cols + c].abs();
                    bi = r;
                }
            }
            if best <= eps {
                continue;
            }
            for j in 0..cols {
                m.swap(rank * cols + j, bi * cols + j);
            }
            for r in rank + 1..rows {
                let f = m[r * cols + c] / m[rank * cols + c];
                if f != 0.0 {
                    for j in c..cols {
                        m[r * cols + j] -= f * m[rank * cols + j];
                    }
                }
            }
            rank += 1;
        }
        out.push(rank);
    }
    out
}

pub fn tt_check(c: &TtCase, ctx: &mut CaseCtx) -> Result<(), Fail> {
    use tensor_compress::{tt_decompose, tt_reconstruct, TTConfig};
    let shape: Vec<usize> = c.shape.iter().map(|s| usize::from(*s)).collect();
    let n: usize = shape.iter().product();
    let tol = [1e-2f32, 1e-3, 1e-4][usize::from(c.tol) % 3];
    let rank = usize::from(c.rank);
    // half of the cases sit on a grid of quarters (exact cancellations happen), half are jittered off it
    let jitter = c.seed.len() % 2 == 0;
    let seed = |i: usize| -> f64 {
        let base = f64::from(c.seed[i % c.seed.len()]) / 4.0;
        if jitter && base != 0.0 { base + 0.0137 * ((i * 37) % 11) as f64 } else { base }
    };
    ctx.label(if jitter { "tt:off-grid" } else { "tt:on-grid" });
    let (x, exact_rank, what): (Vec<f32>, Option<usize>, &str) = match c.kind {
        0 => {
            // exact TT-rank <= rank: product of generated cores
            let d = shape.len();
            let mut ranks = vec![1usize; d + 1];
            for r in ranks.iter_mut().take(d).skip(1) {
                *r = rank;
            }
            let mut cores: Vec<Vec<f64>> = Vec::new();
            let mut k0 = 0usize;
            for k in 0..d {
                let len = ranks[k] * shape[k] * ranks[k + 1];
                cores.push((0..len).map(|i| seed(k0 + i * 7 + k)).collect());
                k0 += len;
            }
            let mut x = Vec::with_capacity(n);
            for flat in 0..n {
                let mut rem = flat;
                let mut idx = vec![0usize; d];
                for k in (0..d).rev() {
                    idx[k] = rem % shape[k];
                    rem /= shape[k];
                }
                let mut left = vec![1.0f64];
                for k in 0..d {
                    let (r1, r2) = (ranks[k], ranks[k + 1]);
                    let mut next = vec![0.0f64; r2];
                    for (b, nb) in next.iter_mut().enumerate() {
                        for (a, la) in left.iter().enumerate().take(r1) {
                            *nb += la * cores[k][a * shape[k] * r2 + idx[k] * r2 + b];
                        }
                    }
                    left = next;
                }
                x.push(left[0] as f32);
            }
            (x, Some(rank), "exact-rank")
        },
        1 => (vec![seed(0) as f32 + 0.5; n], Some(1), "constant"),
        2 => {
            let a = seed(0);
            let b = seed(1) + 0.125; // never zero (seed values are multiples of 1/4)
            ((0..n).map(|i| (a + b * i as f64) as f32).collect(), Some(2), "ramp")
        },
        _ => {
            let x: Vec<f32> = (0..n)
                .map(|i| {
                    let v = f32::from_bits(c.raw[i % c.raw.len()]);
                    if v.is_finite() && v.abs() < 1e6 { v + (i % 3) as f32 } else { (i % 5) as f32 }
                })
                .collect();
            (x, None, "arbitrary")
        },
    };
    ctx.label(format!("tt:{what}"));
    // the same vector at another magnitude (exactly representable scaling keeps the rank) and,
    // sometimes, with every component non-positive
    let x: Vec<f32> = if c.mag != 0 || c.neg {
        let f = 10f64.powi(i32::from(c.mag));
        ctx.label(format!("tt:magnitude 1e{}{}", c.mag, if c.neg { ", all components <= 0" } else { "" }));
        x.iter().map(|v| { let w = f64::from(*v) * f; (if c.neg { -w.abs() } else { w }) as f32 }).collect()
    } else {
        x
    };
    if x.iter().any(|v| !v.is_finite()) {
        ctx.label("tt:skipped (scaled vector overflows f32)");
        return Ok(());
    }
    // |x| of a rank-r vector is not rank r in general: the bound is claimed for the sign-preserving cases only
    let exact_rank = if c.neg && c.kind != 1 { None } else { exact_rank };
    let max_rank = exact_rank.unwrap_or(rank) + usize::from(c.max_rank_extra);
    let cfg = TTConfig { shape: shape.clone(), max_rank, tolerance: tol };
    let tt = match tt_decompose(&x, &cfg) {
        Ok(t) => t,
        Err(e) => {
            // rank 0 at an inner step leaves an empty unfolding for the next one
            let sig = if e.to_string().contains("empty matrix") { "tt:decompose-error-empty-matrix".to_string() } else { format!("tt:{what}:decompose-error") };
            ctx.fail(sig, format!("shape {shape:?} max_rank {max_rank} tol {tol}: {e}"))?;
            return Ok(());
        },
    };
    let y = tt_reconstruct(&tt);
    if y.len() != x.len() {
        ctx.fail("tt:length", format!("{} -> {}", x.len(), y.len()))?;
        return Ok(());
    }
    if y.iter().any(|v| !v.is_finite()) {
        ctx.fail(format!("tt:{what}:non-finite-output"), format!("shape {shape:?}"))?;
        return Ok(());
    }
    let norm: f64 = x.iter().map(|v| f64::from(*v).powi(2)).sum::<f64>().sqrt();
    let err: f64 = x.iter().zip(&y).map(|(a, b)| (f64::from(*a) - f64::from(*b)).powi(2)).sum::<f64>().sqrt();
    // never worse than storing nothing
    if err > norm * 1.001 + 1e-6 * 10f64.powi(i32::from(c.mag).min(0)) {
        ctx.fail(format!("tt:{what}:worse-than-zero-vector"), format!("shape {shape:?} max_rank {max_rank} tol {tol}: error {err:.4e}, norm {norm:.4e}"))?;
    }
    if exact_rank.is_some() && norm > 0.0 {
        let rel = err / norm;
        // documented bounds: truncation tolerance (relative), and "<1% error" for the TT mode
        // (TensorMode docs). The 20-step power iteration does not converge to tolerances of 1e-4
        // for close singular values (observed 1e-3..4e-3); that is counted, the violation
        // threshold is the larger of 10 x tolerance and the documented 1 %.
        if rel > 10.0 * f64::from(tol) {
            ctx.label("tt:error-above-10x-tolerance");
        }
        if rel > (10.0 * f64::from(tol)).max(0.01) {
            // categorical shape of the failure: the decomposition stopped at a TT-rank below the
            // exact rank of the input (down to rank 0 = all-zero output) vs. full rank but inaccurate
            // (true TT-ranks = ranks of the unfoldings of the input, by own Gaussian elimination)
            let truth = unfolding_ranks(&x, &shape);
            let under = tt.ranks.len() == truth.len() + 2 && truth.iter().enumerate().any(|(k, r)| tt.ranks[k + 1] < *r);
            let sig = if under { "tt:rank-underestimated".to_string() } else { format!("tt:{what}:error-above-bound") };
            ctx.fail(
                sig,
                format!("shape {shape:?} rank {exact_rank:?} max_rank {max_rank} tol {tol}: relative error {rel:.4e}, ranks found {:?}, ranks of the unfoldings {truth:?}", tt.ranks),
            )?;
        }
        if exact_rank.unwrap_or(1) >= 2 && n >= 8 {
            ctx.set_nontrivial();
        }
    }
    // the persisted form of the decomposition
    let cv = tensor_compress::format::CompressedValue::VectorTT {
        cores: tt.cores.clone(),
        original_dim: tt.original_dim,
        shape: tt.shape.clone(),
        ranks: tt.ranks.clone(),
    };
    let bytes = bitcode::serialize(&cv).map_err(|e| Fail::new("tt:serialize", e.to_string()))?;
    match bitcode::deserialize::<tensor_compress::format::CompressedValue>(&bytes) {
        Ok(cv2) => {
            let y2 = tensor_compress::format::decompress_vector(&cv2).map_err(|e| Fail::new("tt:decompress", e.to_string()))?;
            if y2.iter().map(|v| v.to_bits()).ne(y.iter().map(|v| v.to_bits())) {
                ctx.fail("tt:image-roundtrip", "stored cores reconstruct differently".to_string())?;
            }
        },
        Err(e) => ctx.fail("tt:image-rejected", e.to_string())?,
    }
    Ok(())
}
