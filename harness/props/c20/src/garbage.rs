//! Corruption part (valid encoding -> truncation / bit flip / length-field rewrite / splice /
//! pure garbage -> byte-level oracle), seed-corpus generation and replay, libFuzzer campaigns.

use crate::rt::{self, lift};
use crate::strat;
use nv_c20::build::{self, Bag, Cur};
use nv_c20::oracle::{self, CodecCfg, Obs, WalKind, TARGETS};
use nv_engine::{pick, CaseCtx, CustomPart, Fail, Findings, PartStats, RunCfg, Tier, Violation};
use proptest::prelude::*;
use serde::{Deserialize, Serialize};
use serde_json::json;

/// A valid input of one target, described by generated primitives.
#[derive(Clone, Debug, Serialize, Deserialize)]
pub enum Seed {
    Ids { start: u64, steps: Vec<u64> },
    /// `extra`: run lengths without a value (the two lists are independent in the stored image)
    Rle { runs: Vec<(i64, u32)>, extra: Vec<u32> },
    Csnap { bag: Bag, kinds: Vec<u8> },
    Frame { variant: u16, bag: Bag, cfg: u8 },
    Wal { case: rt::WalCase },
    SnapV3 { bag: Bag, n: u8, compressed: bool },
    Raw { target: u8, bytes: Vec<u8> },
}

#[derive(Clone, Debug, Serialize, Deserialize)]
pub enum Corrupt {
    None,
    Truncate(u16),
    BitFlip(u16, u8),
    SetByte(u16, u8),
    /// overwrite four bytes at a position with a boundary length value
    SetU32 { pos: u16, val: u8, be: bool },
    Insert(u16, Vec<u8>),
    Delete(u16, u8),
    /// append the first bytes of the input again
    Splice(u16),
}

#[derive(Clone, Debug, Serialize, Deserialize)]
pub struct GarbageCase {
    pub seed: Seed,
    pub corrupt: Vec<Corrupt>,
}

impl Seed {
    pub fn target(&self) -> &'static str {
        match self {
            Seed::Ids { .. } => "ids",
            Seed::Rle { .. } => "rle",
            Seed::Csnap { .. } => "csnap",
            Seed::Frame { .. } => "frame",
            Seed::Wal { .. } => "wal",
            Seed::SnapV3 { .. } => "snapv3",
            Seed::Raw { target, .. } => TARGETS[usize::from(*target) % TARGETS.len()],
        }
    }

    /// (bytes in target-input format, number of leading selector bytes that corruption leaves alone)
    pub fn encode(&self) -> (Vec<u8>, usize) {
        match self {
            Seed::Ids { start, steps } => {
                let mut ids = vec![*start];
                for s in steps {
                    let last = *ids.last().unwrap();
                    ids.push(last.saturating_add(*s));
                }
                (tensor_compress::compress_ids(&ids), 0)
            },
            Seed::Rle { runs, extra } => {
                let enc = tensor_compress::RleEncoded::<i64> {
                    values: runs.iter().map(|r| r.0).collect(),
                    run_lengths: runs.iter().map(|r| r.1).chain(extra.iter().copied()).collect(),
                };
                (bitcode::serialize(&enc).unwrap_or_default(), 0)
            },
            Seed::Csnap { bag, kinds } => (csnap_bytes(bag, kinds), 0),
            Seed::Frame { variant, bag, cfg } => {
                let (_, msg, _, _) = rt::build_message_with(*variant, bag, 1);
                let mut cc = CodecCfg::from_byte(*cfg);
                cc.lz4 = cc.lz4 && cc.v2;
                let cb = cc.to_byte().unwrap_or(*cfg);
                let frame = match oracle::encode_frame(&cc.build(), cc.v2, &msg) {
                    Ok(f) => f,
                    // too large for this configuration: the frame a peer with a larger limit would send
                    Err(_) => {
                        let big = CodecCfg { max_frame_length: 16 << 20, ..cc };
                        oracle::encode_frame(&big.build(), cc.v2, &msg).unwrap_or_default()
                    },
                };
                let mut out = vec![cb];
                out.extend_from_slice(&frame);
                (out, 1)
            },
            Seed::Wal { case } => {
                let f = oracle::TmpFile::new("seedwal");
                let _ = rt::wal_write(case, &f.0, 1);
                let bytes = std::fs::read(&f.0).unwrap_or_default();
                let mut out = vec![rt::wal_kind(case.kind).to_byte(case.verify)];
                out.extend_from_slice(&bytes);
                (out, 1)
            },
            Seed::SnapV3 { bag, n, compressed } => (rt::snapv3_bytes(bag, *n, *compressed).0, 0),
            Seed::Raw { target, bytes } => {
                let t = TARGETS[usize::from(*target) % TARGETS.len()];
                (bytes.clone(), usize::from(t == "frame" || t == "wal").min(bytes.len()))
            },
        }
    }
}

/// A compressed snapshot holding every kind of compressed value.
pub fn csnap_bytes(bag: &Bag, kinds: &[u8]) -> Vec<u8> {
    use std::collections::BTreeMap;
    use tensor_compress::format::*;
    use tensor_compress::{CompressionConfig, RleEncoded, TTConfig};
    let mut cur = Cur::new(bag);
    let mut entries = Vec::new();
    let mut fields = BTreeMap::new();
    for (i, k) in kinds.iter().enumerate() {
        let v = match k % 9 {
            0 => CompressedValue::Scalar(match cur.u64() % 5 {
                0 => CompressedScalar::Int(cur.u64() as i64),
                1 => CompressedScalar::Float(f64::from_bits(cur.u64())),
                2 => CompressedScalar::String(cur.string()),
                3 => CompressedScalar::Bool(cur.flag()),
                _ => CompressedScalar::Null,
            }),
            1 => CompressedValue::VectorRaw(cur.f32s(8)),
            2 => {
                let shape = vec![2usize, 2 + cur.count(2), 2];
                let n: usize = shape.iter().product();
                let x: Vec<f32> = (0..n).map(|i| (i as f32 * 0.37).sin() + (cur.u64() % 5) as f32).collect();
                match tensor_compress::tt_decompose(&x, &TTConfig { shape, max_rank: 3, tolerance: 1e-3 }) {
                    Ok(tt) => CompressedValue::VectorTT { cores: tt.cores, original_dim: tt.original_dim, shape: tt.shape, ranks: tt.ranks },
                    Err(_) => CompressedValue::VectorRaw(x),
                }
            },
            3 => {
                let e = cur.emb();
                let dim = e.dimension().min(5000);
                let (pos, vals): (Vec<u32>, Vec<f32>) = e.iter().filter(|(p, _)| (*p as usize) < dim).unzip();
                compress_sparse(dim, &pos, &vals)
            },
            4 => {
                let mut ids = cur.u64s(8);
                ids.sort_unstable();
                CompressedValue::IdList(tensor_compress::compress_ids(&ids))
            },
            5 => {
                let n = cur.count(4);
                CompressedValue::RleInt(RleEncoded {
                    values: (0..n).map(|_| cur.u64() as i64).collect(),
                    run_lengths: (0..n).map(|_| (cur.u64() % 40) as u32).collect(),
                })
            },
            6 => CompressedValue::Pointer(cur.string()),
            7 => CompressedValue::Pointers(cur.strings(3)),
            _ => CompressedValue::Scalar(CompressedScalar::Null),
        };
        fields.insert(format!("f{i}"), v);
        if i % 3 == 2 {
            entries.push(CompressedEntry { key: format!("k{i}:{}", cur.string()), fields: std::mem::take(&mut fields) });
        }
    }
    if !fields.is_empty() || entries.is_empty() {
        entries.push(CompressedEntry { key: "last".to_string(), fields });
    }
    let config = CompressionConfig {
        tensor_mode: if cur.flag() { Some(tensor_compress::TensorMode::TensorTrain(TTConfig { shape: vec![2, 2], max_rank: 2, tolerance: 0.01 })) } else { None },
        delta_encoding: cur.flag(),
        rle_encoding: cur.flag(),
    };
    let snap = CompressedSnapshot { header: Header::new(config, entries.len() as u64), entries };
    snap.serialize().unwrap_or_default()
}

const U32_VALUES: &[u32] = &[0, 1, 15, 16, 17, 63, 64, 65, 199, 200, 201, 255, 256, 257, 1023, 1024, 1025, 4095, 4096, 4097, 65535, 65536, 65537, (16 << 20) - 1, 16 << 20, (16 << 20) + 1, 0x7fff_ffff, 0x8000_0000, 0xffff_fffe, 0xffff_ffff];

pub fn apply(bytes: &mut Vec<u8>, keep: usize, c: &Corrupt) {
    let body = bytes.len().saturating_sub(keep);
    match c {
        Corrupt::None => {},
        Corrupt::Truncate(p) => {
            let at = keep + pick(*p, body + 1);
            bytes.truncate(at);
        },
        Corrupt::BitFlip(p, b) => {
            if body > 0 {
                let at = keep + pick(*p, body);
                bytes[at] ^= 1 << (b % 8);
            }
        },
        Corrupt::SetByte(p, v) => {
            if body > 0 {
                let at = keep + pick(*p, body);
                bytes[at] = *v;
            }
        },
        Corrupt::SetU32 { pos, val, be } => {
            if body >= 4 {
                // positions 0 and (for logs) record starts are the interesting ones: bias to the front
                let at = keep + pick(*pos, (body - 3).min(64)).min(body - 4);
                let v = U32_VALUES[usize::from(*val) % U32_VALUES.len()];
                let raw = if *be { v.to_be_bytes() } else { v.to_le_bytes() };
                bytes[at..at + 4].copy_from_slice(&raw);
            }
        },
        Corrupt::Insert(p, extra) => {
            let at = keep + pick(*p, body + 1);
            let tail = bytes.split_off(at);
            bytes.extend_from_slice(extra);
            bytes.extend_from_slice(&tail);
        },
        Corrupt::Delete(p, n) => {
            if body > 0 {
                let at = keep + pick(*p, body);
                let end = (at + usize::from(*n) + 1).min(bytes.len());
                bytes.drain(at..end);
            }
        },
        Corrupt::Splice(p) => {
            let n = pick(*p, body + 1);
            let head: Vec<u8> = bytes[keep..keep + n].to_vec();
            bytes.extend_from_slice(&head);
        },
    }
}

pub fn seed_strategy() -> BoxedStrategy<Seed> {
    let run = (prop_oneof![-3i64..4, any::<i64>()], prop_oneof![4 => 0u32..6, 2 => 6u32..300, 1 => proptest::sample::select(&[65535u32, 1 << 20, u32::MAX][..])]);
    prop_oneof![
        2 => (strat::u64_any(), strat::id_steps()).prop_map(|(start, steps)| Seed::Ids { start, steps }),
        2 => (proptest::collection::vec(run, 0..8), prop_oneof![4 => Just(Vec::new()), 1 => proptest::collection::vec(prop_oneof![0u32..9, Just(u32::MAX)], 1..4)])
            .prop_map(|(runs, extra)| Seed::Rle { runs, extra }),
        4 => (strat::bag(), proptest::collection::vec(any::<u8>(), 1..9)).prop_map(|(bag, kinds)| Seed::Csnap { bag, kinds }),
        5 => (any::<u16>(), strat::bag(), any::<u8>()).prop_map(|(variant, bag, cfg)| Seed::Frame { variant, bag, cfg }),
        5 => rt::wal_strategy(Tier::Quick).prop_map(|case| Seed::Wal { case }),
        1 => (strat::bag(), 0u8..5, any::<bool>()).prop_map(|(bag, n, compressed)| Seed::SnapV3 { bag, n, compressed }),
        1 => (0u8..6, proptest::collection::vec(any::<u8>(), 0..200)).prop_map(|(target, bytes)| Seed::Raw { target, bytes }),
    ]
    .boxed()
}

pub fn corrupt_strategy() -> BoxedStrategy<Corrupt> {
    prop_oneof![
        3 => any::<u16>().prop_map(Corrupt::Truncate),
        6 => (any::<u16>(), 0u8..8).prop_map(|(p, b)| Corrupt::BitFlip(p, b)),
        2 => (any::<u16>(), prop_oneof![any::<u8>(), Just(0u8), Just(0xffu8), Just(0x80u8)]).prop_map(|(p, v)| Corrupt::SetByte(p, v)),
        3 => (prop_oneof![2 => Just(0u16), 1 => any::<u16>()], any::<u8>(), any::<bool>()).prop_map(|(pos, val, be)| Corrupt::SetU32 { pos, val, be }),
        1 => (any::<u16>(), proptest::collection::vec(any::<u8>(), 1..9)).prop_map(|(p, e)| Corrupt::Insert(p, e)),
        1 => (any::<u16>(), 0u8..8).prop_map(|(p, n)| Corrupt::Delete(p, n)),
        1 => any::<u16>().prop_map(Corrupt::Splice),
    ]
    .boxed()
}

pub fn garbage_strategy(_t: Tier) -> BoxedStrategy<GarbageCase> {
    (seed_strategy(), prop_oneof![8 => proptest::collection::vec(corrupt_strategy(), 1..2), 2 => proptest::collection::vec(corrupt_strategy(), 2..4)])
        .prop_map(|(seed, corrupt)| GarbageCase { seed, corrupt })
        .boxed()
}

pub fn garbage_check(c: &GarbageCase, ctx: &mut CaseCtx) -> Result<(), Fail> {
    let target = c.seed.target();
    let (mut bytes, keep) = c.seed.encode();
    // the valid encoding itself must pass the oracle (a failure here is a round-trip finding)
    let mut obs0 = Obs::default();
    if !matches!(c.seed, Seed::Raw { .. }) {
        lift(oracle::run_target(target, &bytes, &mut obs0), ctx)?;
        if ctx.known_hit() {
            return Ok(());
        }
    }
    for k in &c.corrupt {
        apply(&mut bytes, keep, k);
    }
    if let Ok(p) = std::env::var("NV_C20_DUMP") {
        let _ = std::fs::write(p, &bytes); // debugging aid for replays: the corrupted input
    }
    ctx.label(format!("target:{target}"));
    for k in &c.corrupt {
        ctx.label(match k {
            Corrupt::None => "corrupt:none",
            Corrupt::Truncate(_) => "corrupt:truncate",
            Corrupt::BitFlip(..) => "corrupt:bitflip",
            Corrupt::SetByte(..) => "corrupt:setbyte",
            Corrupt::SetU32 { .. } => "corrupt:length-value",
            Corrupt::Insert(..) => "corrupt:insert",
            Corrupt::Delete(..) => "corrupt:delete",
            Corrupt::Splice(_) => "corrupt:splice",
        });
    }
    let mut obs = Obs::default();
    let r = oracle::run_target(target, &bytes, &mut obs);
    if obs.passed_prefix {
        ctx.set_nontrivial();
        ctx.label(format!("passed-prefix:{target}"));
    }
    if obs.decoded {
        ctx.label(format!("decoded-after-corruption:{target}"));
    }
    for l in obs.labels {
        if !l.starts_with("frame:decoded:") {
            ctx.label(l);
        }
    }
    lift(r, ctx)
}

// ---------------------------------------------------------------------------------------------
// seed corpus: written by `nv_c20 child gen-corpus`, committed, replayed by the quick tier

pub fn corpus_dir() -> std::path::PathBuf {
    nv_c20::root().join("fuzz_c20").join("corpus_seed")
}

/// Deterministic generation (fixed proptest seed) of small valid inputs plus a few mutated ones.
pub fn gen_corpus(_args: &[String]) -> i32 {
    use proptest::strategy::ValueTree;
    use proptest::test_runner::{Config, RngAlgorithm, TestRng, TestRunner};
    let mut runner = TestRunner::new_with_rng(Config::default(), TestRng::from_seed(RngAlgorithm::ChaCha, &[20u8; 32]));
    let strat = (seed_strategy(), corrupt_strategy());
    let dir = corpus_dir();
    let mut per_target: std::collections::BTreeMap<&str, (usize, usize)> = Default::default();
    for t in TARGETS {
        let d = dir.join(t);
        let _ = std::fs::remove_dir_all(&d);
        std::fs::create_dir_all(&d).expect("create corpus dir");
    }
    let mut tries = 0;
    while tries < 20_000 && TARGETS.iter().any(|t| per_target.get(t).map(|c| c.0 < 14 || c.1 < 4).unwrap_or(true)) {
        tries += 1;
        let (seed, corrupt) = strat.new_tree(&mut runner).expect("value").current();
        if matches!(seed, Seed::Raw { .. }) {
            continue;
        }
        let t = seed.target();
        let (mut bytes, keep) = seed.encode();
        if bytes.len() > if t == "snapv3" { 900 } else { 400 } || bytes.len() <= keep + 1 {
            continue;
        }
        let e = per_target.entry(t).or_insert((0, 0));
        let mutated = e.0 >= 14;
        if mutated {
            if e.1 >= 4 {
                continue;
            }
            apply(&mut bytes, keep, &corrupt);
            e.1 += 1;
        } else {
            e.0 += 1;
        }
        let name = format!("{}-{:016x}", if mutated { "mut" } else { "valid" }, nv_engine::fnv64(&bytes));
        std::fs::write(dir.join(t).join(name), &bytes).expect("write corpus file");
    }
    // hand-written shapes every target should start from
    let extra: &[(&str, &[u8])] = &[
        ("ids", &[]),
        ("ids", &[0x80, 0x80, 0x80, 0x80, 0x80, 0x80, 0x80, 0x80, 0x80, 0x01, 0x01]),
        ("ids", &[0xff; 12]),
        ("rle", &[]),
        ("frame", &[0x00]),
        ("frame", &[0x00, 0xff, 0xff, 0xff, 0xff]),
        ("frame", &[0x03, 0x00, 0x00, 0x00, 0x06, 0x01, 0xff, 0xff, 0xff, 0x00, 0x00]),
        ("wal", &[0x00]),
        ("wal", &[0x01, 0xff, 0xff, 0xff, 0xff, 0, 0, 0, 0]),
        ("csnap", &[]),
        ("snapv3", b"NEUM\x03\x00\x00\x00\x00\x00\x00\x00\x00\x00\x00\x00\x00\x00\x00\x00"),
        ("snapv3", b"NEUM\x03\x00\x00\x00\x01\x00\x00\x00\x00\x00\x00\x00\x00\x00\x00\x00\x28\xb5\x2f\xfd"),
        ("snapv3", b"NEUM\x04\x00\x00\x00"),
    ];
    for (t, b) in extra {
        std::fs::write(dir.join(t).join(format!("hand-{:016x}", nv_engine::fnv64(b))), b).expect("write corpus file");
    }
    for t in TARGETS {
        let n = std::fs::read_dir(dir.join(t)).map(|d| d.count()).unwrap_or(0);
        println!("corpus_seed/{t}: {n} files");
    }
    0
}

fn hex(b: &[u8]) -> String {
    b.iter().map(|x| format!("{x:02x}")).collect()
}

fn unhex(s: &str) -> Vec<u8> {
    (0..s.len() / 2).filter_map(|i| u8::from_str_radix(&s[2 * i..2 * i + 2], 16).ok()).collect()
}

fn byte_replay(case: &serde_json::Value, findings: &Findings, strict: bool) -> Result<(), Fail> {
    let target = case["target"].as_str().unwrap_or("");
    let bytes = unhex(case["hex"].as_str().unwrap_or(""));
    let mut ctx = CaseCtx::new(findings, strict);
    let mut obs = Obs::default();
    lift(oracle::run_target(target, &bytes, &mut obs), &mut ctx)
}

fn read_corpus(target: &str) -> Vec<(String, Vec<u8>)> {
    let mut v: Vec<(String, Vec<u8>)> = std::fs::read_dir(corpus_dir().join(target))
        .map(|d| {
            d.filter_map(|e| e.ok())
                .filter_map(|e| std::fs::read(e.path()).ok().map(|b| (e.file_name().to_string_lossy().into_owned(), b)))
                .collect()
        })
        .unwrap_or_default();
    v.sort();
    v
}

/// Replay of the committed seeds, plus every truncation and every single-bit flip of each.
pub fn corpus_part() -> CustomPart {
    CustomPart {
        name: "corpus",
        run: Box::new(|cfg: &RunCfg, findings: &Findings, stats: &mut PartStats| {
            let mut jobs: Vec<(&'static str, String, Vec<u8>)> = Vec::new();
            for t in TARGETS {
                for (name, b) in read_corpus(t) {
                    jobs.push((t, name, b));
                }
            }
            if jobs.is_empty() {
                stats.label("corpus:missing");
                return None;
            }
            let workers = cfg.jobs.max(1);
            let results: std::sync::Mutex<Vec<(usize, PartStats, Option<(serde_json::Value, Fail)>)>> = std::sync::Mutex::new(Vec::new());
            let next = std::sync::atomic::AtomicUsize::new(0);
            std::thread::scope(|sc| {
                for _ in 0..workers {
                    sc.spawn(|| loop {
                        let i = next.fetch_add(1, std::sync::atomic::Ordering::Relaxed);
                        if i >= jobs.len() {
                            break;
                        }
                        let (t, name, b) = &jobs[i];
                        let keep = usize::from(*t == "frame" || *t == "wal").min(b.len());
                        let mut st = PartStats::default();
                        let mut bad: Option<(serde_json::Value, Fail)> = None;
                        let mut run = |bytes: &[u8], class: &str, st: &mut PartStats| {
                            if bad.is_some() {
                                return;
                            }
                            let mut ctx = CaseCtx::new(findings, false);
                            let mut obs = Obs::default();
                            let r = std::panic::catch_unwind(std::panic::AssertUnwindSafe(|| oracle::run_target(t, bytes, &mut obs)));
                            let r = match r {
                                Ok(r) => r,
                                Err(_) => Err(oracle::OFail { sig: "panic:oracle".into(), msg: "panic outside a guarded call".into() }),
                            };
                            st.evaluations += 1;
                            st.label(&format!("{t}:{class}"));
                            if obs.passed_prefix {
                                st.nontrivial.insert(nv_engine::fnv64(bytes) ^ nv_engine::fnv64(t.as_bytes()));
                                st.label(&format!("{t}:passed-prefix"));
                            }
                            if let Err(f) = r {
                                match ctx.fail(f.sig.clone(), f.msg.clone()) {
                                    Ok(()) => st.excluded(&f.sig),
                                    Err(fl) => bad = Some((json!({"target": t, "file": name, "class": class, "hex": hex(bytes)}), fl)),
                                }
                            }
                        };
                        run(b, "seed", &mut st);
                        for cut in keep..b.len() {
                            if *t == "snapv3" && cut > 24 && cut % 4 != 0 {
                                continue;
                            }
                            run(&b[..cut], "truncation", &mut st);
                        }
                        let mut m = b.clone();
                        for pos in keep..b.len() {
                            for bit in 0..8 {
                                // restoring a router is expensive: beyond the 20-byte header of a
                                // snapshot file only one bit per byte is flipped
                                if *t == "snapv3" && pos >= 20 && bit != pos % 8 {
                                    continue;
                                }
                                m[pos] ^= 1 << bit;
                                run(&m, "bitflip", &mut st);
                                m[pos] ^= 1 << bit;
                            }
                        }
                        results.lock().unwrap().push((i, st, bad));
                    });
                }
            });
            let mut res = results.into_inner().unwrap();
            res.sort_by_key(|r| r.0);
            let mut violation = None;
            for (_, st, bad) in res {
                stats.merge(st);
                if violation.is_none() {
                    violation = bad;
                }
            }
            stats.exhaustive = false;
            stats.extra.insert("corpus_files".into(), json!(jobs.len()));
            violation.map(|(case, f)| {
                let path = nv_engine::runner::write_replay(cfg, "corpus", &f, &case);
                Violation { part: "corpus".into(), sig: f.sig, msg: f.msg, replay: path }
            })
        }),
        replay: Box::new(byte_replay),
    }
}

// ---------------------------------------------------------------------------------------------
// libFuzzer campaigns (thorough tier only)

pub fn fuzz_part() -> CustomPart {
    CustomPart {
        name: "fuzz",
        run: Box::new(|cfg: &RunCfg, findings: &Findings, stats: &mut PartStats| {
            if cfg.tier == Tier::Quick {
                stats.label("skipped:quick-tier-replays-the-seed-corpus-instead");
                return None;
            }
            let proj = nv_c20::root().join("fuzz_c20");
            // runs per target (file-backed decoders are slower); NV_FUZZ_RUNS overrides all
            let override_runs: Option<u64> = std::env::var("NV_FUZZ_RUNS").ok().and_then(|s| s.parse().ok());
            let runs_for = |t: &str| -> u64 {
                let base = match t {
                    "ids" => 2_000_000,
                    "rle" | "frame" => 1_500_000,
                    "wal" => 400_000,
                    "csnap" => 200_000,
                    _ => 60_000,
                };
                override_runs.unwrap_or(base) * cfg.scale_pct / 100
            };
            let build = std::process::Command::new("cargo")
                .args(["+nightly", "fuzz", "build", "--fuzz-dir"])
                .arg(&proj)
                .current_dir(&proj)
                .env_remove("RUSTFLAGS")
                .env_remove("CARGO_ENCODED_RUSTFLAGS")
                .env("CARGO_NET_OFFLINE", "true")
                .output();
            match build {
                Ok(o) if o.status.success() => {},
                Ok(o) => {
                    let err = String::from_utf8_lossy(&o.stderr);
                    let last: Vec<&str> = err.lines().rev().take(6).collect();
                    stats.label("skipped:fuzz-build-failed");
                    stats.extra.insert("fuzz_build_error".into(), json!(last));
                    eprintln!("nv C20 fuzz: build failed, part skipped");
                    return None;
                },
                Err(e) => {
                    stats.label("skipped:cargo-fuzz-or-nightly-unavailable");
                    stats.extra.insert("fuzz_build_error".into(), json!(e.to_string()));
                    return None;
                },
            }
            let scratch = nv_engine::scratch::Dir::new("c20fuzz");
            let outcomes: std::sync::Mutex<Vec<(usize, serde_json::Value, Vec<Vec<u8>>)>> = std::sync::Mutex::new(Vec::new());
            let passed: std::sync::Mutex<Vec<u64>> = std::sync::Mutex::new(Vec::new());
            std::thread::scope(|sc| {
                let only = std::env::var("NV_FUZZ_ONLY").ok();
                for (ti, t) in TARGETS.iter().enumerate() {
                    if only.as_deref().map(|o| o != *t).unwrap_or(false) {
                        continue;
                    }
                    let proj = &proj;
                    let scratch = &scratch;
                    let outcomes = &outcomes;
                    let passed = &passed;
                    let runs = runs_for(t);
                    sc.spawn(move || {
                        let corpus = scratch.join(&format!("corpus-{t}"));
                        let arts = scratch.join(&format!("artifacts-{t}"));
                        let tmp = scratch.join(&format!("tmp-{t}"));
                        for d in [&corpus, &arts, &tmp] {
                            let _ = std::fs::create_dir_all(d);
                        }
                        for (name, b) in read_corpus(t) {
                            let _ = std::fs::write(corpus.join(name), b);
                        }
                        let seed = (cfg.seed % 0xffff_fffe) + 1;
                        let out = std::process::Command::new("cargo")
                            .args(["+nightly", "fuzz", "run", "--fuzz-dir"])
                            .arg(proj)
                            .arg(t)
                            .arg(&corpus)
                            .arg("--")
                            .arg(format!("-runs={runs}"))
                            .arg(format!("-seed={seed}"))
                            .args(["-len_control=0", "-max_len=4096", "-rss_limit_mb=8192", "-malloc_limit_mb=8192", "-print_final_stats=1", "-max_total_time=1200"])
                            .arg(format!("-artifact_prefix={}/", arts.display()))
                            .current_dir(proj)
                            .env_remove("RUSTFLAGS")
                            .env_remove("CARGO_ENCODED_RUSTFLAGS")
                            .env("CARGO_NET_OFFLINE", "true")
                            .env("NV_SCRATCH_DIR", &tmp)
                            .env("NV_FUZZ_ARTIFACTS", &arts)
                            .env("NV_ROOT", nv_c20::root())
                            .output();
                        let mut info = json!({"target": t, "runs_requested": runs});
                        let mut crashes = Vec::new();
                        match out {
                            Ok(o) => {
                                let err = String::from_utf8_lossy(&o.stderr);
                                let done = err
                                    .lines()
                                    .find_map(|l| l.strip_prefix("stat::number_of_executed_units:").map(|v| v.trim().parse::<u64>().unwrap_or(0)))
                                    .unwrap_or(0);
                                info["executed"] = json!(done);
                                info["exit_ok"] = json!(o.status.success());
                                if let Ok(rd) = std::fs::read_dir(&arts) {
                                    for e in rd.filter_map(|e| e.ok()) {
                                        if let Ok(b) = std::fs::read(e.path()) {
                                            crashes.push(b);
                                        }
                                    }
                                }
                                if !o.status.success() && crashes.is_empty() {
                                    let last: Vec<&str> = err.lines().rev().take(5).collect();
                                    info["stderr_tail"] = json!(last);
                                }
                            },
                            Err(e) => info["error"] = json!(e.to_string()),
                        }
                        // inputs the campaign kept: re-run through the in-binary oracle (non-triviality
                        // of what libFuzzer reached; a failure here is handled like a crash artifact)
                        let mut kept = 0u64;
                        if let Ok(rd) = std::fs::read_dir(&corpus) {
                            let mut files: Vec<_> = rd.filter_map(|e| e.ok()).map(|e| e.path()).collect();
                            files.sort();
                            for p in files.into_iter().take(20_000) {
                                if let Ok(b) = std::fs::read(&p) {
                                    kept += 1;
                                    let mut obs = Obs::default();
                                    let r = oracle::run_target(t, &b, &mut obs);
                                    if obs.passed_prefix {
                                        passed.lock().unwrap().push(nv_engine::fnv64(&b) ^ nv_engine::fnv64(t.as_bytes()));
                                    }
                                    if r.is_err() {
                                        crashes.push(b);
                                    }
                                }
                            }
                        }
                        info["corpus_files_after"] = json!(kept);
                        outcomes.lock().unwrap().push((ti, info, crashes));
                    });
                }
            });
            let mut outcomes = outcomes.into_inner().unwrap();
            outcomes.sort_by_key(|o| o.0);
            stats.nontrivial.extend(passed.into_inner().unwrap());
            let mut violation = None;
            let mut infos = Vec::new();
            for (ti, info, crashes) in outcomes {
                let t = TARGETS[ti];
                let done = info["executed"].as_u64().unwrap_or(0);
                stats.evaluations += done;
                stats.label_n(&format!("fuzz:{t}:executions"), done);
                if done == 0 {
                    stats.label(&format!("skipped:fuzz-run-{t}-did-not-execute"));
                }
                for b in crashes {
                    // a crash counts only if the in-binary oracle reproduces it
                    let mut ctx = CaseCtx::new(findings, false);
                    let mut obs = Obs::default();
                    // cargo-fuzz compiles with --cfg fuzzing, under which bitcode accepts trailing
                    // bytes; the normal build rejects them. So an artifact that passes here is
                    // retried on its own prefixes (the image without the trailing garbage).
                    // An input that makes the product abort the process (an allocation nobody can
                    // serve, a stack overflow) would take this binary down with it: try it in a child
                    // first and report the abort as what it is.
                    let mut hit: Option<(Vec<u8>, oracle::OFail)> = match run_target_in_child(t, &b) {
                        Some(msg) => Some((b.clone(), oracle::OFail { sig: format!("abort:{t}"), msg })),
                        None => match oracle::run_target(t, &b, &mut obs) {
                            Ok(()) => None,
                            Err(f) => Some((b.clone(), f)),
                        },
                    };
                    if hit.is_none() {
                        let keep = usize::from(t == "frame" || t == "wal");
                        for cut in (keep..b.len()).rev() {
                            let mut o = Obs::default();
                            if let Err(f) = oracle::run_target(t, &b[..cut], &mut o) {
                                hit = Some((b[..cut].to_vec(), f));
                                stats.label(&format!("fuzz:{t}:artifact-reproduced-on-a-prefix"));
                                break;
                            }
                        }
                    }
                    match hit {
                        None => stats.label(&format!("fuzz:{t}:artifact-not-reproduced-in-binary")),
                        Some((bytes, f)) => match ctx.fail(f.sig.clone(), f.msg.clone()) {
                            Ok(()) => stats.excluded(&f.sig),
                            Err(fl) => {
                                if violation.is_none() {
                                    violation = Some((json!({"target": t, "hex": hex(&bytes), "from": "libfuzzer artifact"}), fl));
                                }
                            },
                        },
                    }
                }
                infos.push(info);
            }
            stats.extra.insert("fuzz_campaigns".into(), json!(infos));
            violation.map(|(case, f)| {
                let path = nv_engine::runner::write_replay(cfg, "fuzz", &f, &case);
                Violation { part: "fuzz".into(), sig: f.sig, msg: f.msg, replay: path }
            })
        }),
        replay: Box::new(byte_replay),
    }
}

/// Calibration aid (`nv_c20 child calibrate [cases]`): largest allocation / input-length ratio
/// bitcode shows on corrupted images of the product's containers.
pub fn calibrate(args: &[String]) -> i32 {
    use proptest::strategy::ValueTree;
    use proptest::test_runner::{Config, RngAlgorithm, TestRng, TestRunner};
    let n: usize = args.first().and_then(|s| s.parse().ok()).unwrap_or(200_000);
    let mut runner = TestRunner::new_with_rng(Config::default(), TestRng::from_seed(RngAlgorithm::ChaCha, &[7u8; 32]));
    let strat = garbage_strategy(Tier::Quick);
    let mut worst: std::collections::BTreeMap<&str, (f64, usize, usize)> = Default::default();
    for _ in 0..n {
        let c = strat.new_tree(&mut runner).expect("value").current();
        let t = c.seed.target();
        if t == "ids" {
            continue;
        }
        let (mut bytes, keep) = c.seed.encode();
        for k in &c.corrupt {
            apply(&mut bytes, keep, k);
        }
        let body = &bytes[keep.min(bytes.len())..];
        let (_, a) = nv_c20::alloc::measure(|| {
            let _ = std::panic::catch_unwind(|| match t {
                "rle" => drop(bitcode::deserialize::<tensor_compress::RleEncoded<i64>>(body)),
                "csnap" => drop(bitcode::deserialize::<tensor_compress::format::CompressedSnapshot>(body)),
                "frame" => drop(bitcode::deserialize::<tensor_chain::network::Message>(body.get(4..).unwrap_or(&[]))),
                _ => {
                    for (r, _) in oracle::wal_frames(body) {
                        drop(bitcode::deserialize::<tensor_store::wal::WalEntry>(&body[r.clone()]));
                        drop(bitcode::deserialize::<tensor_chain::raft_wal::RaftWalEntry>(&body[r.clone()]));
                        drop(bitcode::deserialize::<tensor_chain::tx_wal::TxWalEntry>(&body[r]));
                    }
                },
            });
        });
        let ratio = a as f64 / body.len().max(1) as f64;
        let e = worst.entry(t).or_insert((0.0, 0, 0));
        if ratio > e.0 && body.len() >= 16 {
            *e = (ratio, a, body.len());
        }
    }
    for (t, (r, a, l)) in worst {
        println!("{t}: worst allocation/input = {r:.0} ({a} bytes from {l} input bytes)");
    }
    0
}

/// Runs one fuzz-target input through the oracle in a child process. `Some(description)` iff the
/// child was killed by a signal (abort on an unservable allocation, stack overflow ...).
fn run_target_in_child(target: &str, bytes: &[u8]) -> Option<String> {
    use std::os::unix::process::ExitStatusExt;
    let exe = std::env::current_exe().ok()?;
    let dir = nv_engine::scratch::Dir::new("c20-artifact");
    let file = dir.join("input");
    std::fs::write(&file, bytes).ok()?;
    let out = std::process::Command::new(exe).args(["child", "run-target", target, &file.to_string_lossy()]).output().ok()?;
    out.status.signal().map(|sig| {
        let err = String::from_utf8_lossy(&out.stderr);
        let first = err.lines().find(|l| !l.trim().is_empty()).unwrap_or("").to_string();
        format!("the decoder of target {target} killed the process (signal {sig}) on a {}-byte input: {first}", bytes.len())
    })
}

/// `nv_c20 child run-target <target> <file>`: child side of [`run_target_in_child`].
pub fn run_target_child(args: &[String]) -> i32 {
    let (Some(t), Some(f)) = (args.first(), args.get(1)) else {
        println!("usage: child run-target <target> <file>");
        return 2;
    };
    let Ok(bytes) = std::fs::read(f) else { return 2 };
    let mut obs = Obs::default();
    match oracle::run_target(t, &bytes, &mut obs) {
        Ok(()) => println!("RUN-TARGET ok"),
        Err(e) => println!("RUN-TARGET fail {} :: {}", e.sig, e.msg),
    }
    0
}

/// `nv_c20 child probe`: hand-written minimal inputs for decoder defects, with the signature the
/// oracle gives each (documentation aid for known_findings.json; not part of the check).
pub fn probe(_args: &[String]) -> i32 {
    use std::collections::BTreeMap;
    use tensor_compress::format::*;
    use tensor_compress::{CompressionConfig, RleEncoded, TTCore};
    let snap_of = |v: CompressedValue| -> Vec<u8> {
        let mut fields = BTreeMap::new();
        fields.insert("f".to_string(), v);
        CompressedSnapshot { header: Header::new(CompressionConfig::default(), 1), entries: vec![CompressedEntry { key: "k".into(), fields }] }
            .serialize()
            .unwrap_or_default()
    };
    let core = |shape: (usize, usize, usize), n: usize| TTCore { data: vec![1.0; n], shape };
    let cases: Vec<(&str, &str, Vec<u8>)> = vec![
        ("sparse dimension 2^62", "csnap", snap_of(CompressedValue::VectorSparse { dimension: 1 << 62, positions: vec![], values: vec![] })),
        ("sparse dimension 2^40", "csnap", snap_of(CompressedValue::VectorSparse { dimension: 1 << 40, positions: vec![], values: vec![] })),
        ("sparse position outside dimension", "csnap", snap_of(CompressedValue::VectorSparse { dimension: 4, positions: vec![9], values: vec![1.0] })),
        ("sparse one position, two values", "csnap", snap_of(CompressedValue::VectorSparse { dimension: 4, positions: vec![1], values: vec![1.0, 2.0] })),
        ("tt shape product overflows", "csnap", snap_of(CompressedValue::VectorTT { cores: vec![core((1, 2, 1), 2), core((1, 2, 1), 2)], original_dim: 4, shape: vec![usize::MAX, 2], ranks: vec![1, 1, 1] })),
        ("tt core shape larger than its data", "csnap", snap_of(CompressedValue::VectorTT { cores: vec![core((1, 2, 2), 2), core((2, 2, 1), 4)], original_dim: 4, shape: vec![2, 2], ranks: vec![1, 2, 1] })),
        ("tt shape entry 0", "csnap", snap_of(CompressedValue::VectorTT { cores: vec![core((1, 2, 1), 2), core((1, 2, 1), 2)], original_dim: 4, shape: vec![0, 2], ranks: vec![1, 1, 1] })),
        ("tt fewer shape entries than cores", "csnap", snap_of(CompressedValue::VectorTT { cores: vec![core((1, 2, 1), 2), core((1, 2, 1), 2)], original_dim: 4, shape: vec![4], ranks: vec![1, 1, 1] })),
        ("rle run length without value", "csnap", snap_of(CompressedValue::RleInt(RleEncoded { values: vec![], run_lengths: vec![u32::MAX] }))),
        ("log prefix 0xFFFFFFFF (store)", "wal", vec![0, 0xff, 0xff, 0xff, 0xff, 0, 0, 0, 0]),
        ("log prefix 0xFFFFFFFF (raft)", "wal", vec![1, 0xff, 0xff, 0xff, 0xff, 0, 0, 0, 0]),
        ("log prefix 0xFFFFFFFF (tx)", "wal", vec![2, 0xff, 0xff, 0xff, 0xff, 0, 0, 0, 0]),
    ];
    std::panic::set_hook(Box::new(|_| {}));
    for (what, target, bytes) in cases {
        let mut obs = Obs::default();
        match oracle::run_target(target, &bytes, &mut obs) {
            Ok(()) => println!("{what}: ok {:?}", obs.labels),
            Err(f) => println!("{what}: sig={} :: {}", f.sig, f.msg),
        }
    }
    0
}

#[allow(dead_code)]
pub fn unused(_: &build::Bag, _: WalKind) {}
