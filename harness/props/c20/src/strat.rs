//! proptest strategies for the bag of primitives and the case types of the C20 parts.

use nv_c20::build::{Bag, EmbSpec};
use proptest::prelude::*;

pub const BOUNDARY_U64: &[u64] = &[
    0,
    1,
    2,
    63,
    64,
    127,
    128,
    255,
    256,
    999,
    1000,
    1001,
    16383,
    16384,
    65535,
    65536,
    65537,
    299_999,
    300_000,
    300_001,
    1 << 20,
    (1 << 20) + 1,
    10 << 20,
    (10 << 20) + 1,
    (1 << 21) - 1,
    1 << 28,
    u32::MAX as u64,
    u32::MAX as u64 + 1,
    1 << 35,
    1 << 42,
    1 << 49,
    1 << 56,
    (1 << 63) - 1,
    1 << 63,
    u64::MAX - 1,
    u64::MAX,
];

pub const SPECIAL_F32: &[u32] = &[
    0x0000_0000, // +0
    0x8000_0000, // -0
    0x3f80_0000, // 1
    0xbf80_0000, // -1
    0x7f80_0000, // +inf
    0xff80_0000, // -inf
    0x7fc0_0000, // NaN
    0x7fc0_1234, // NaN payload
    0xffc0_0001, // -NaN payload
    0x0000_0001, // smallest denormal
    0x7f7f_ffff, // MAX
    0x4b80_0000, // 2^24
    0x5f80_0000, // 2^64
    0x3f00_0000, // 0.5
    0x4974_2400, // 1e6
    0x4974_2410, // just above 1e6
];

pub fn u64_any() -> BoxedStrategy<u64> {
    prop_oneof![
        5 => 0u64..300,
        3 => proptest::sample::select(BOUNDARY_U64),
        1 => any::<u64>(),
        1 => (0u32..64, 0u64..4).prop_map(|(s, d)| (1u64 << s).wrapping_add(d).wrapping_sub(2)),
    ]
    .boxed()
}

pub fn f32_bits() -> BoxedStrategy<u32> {
    prop_oneof![
        4 => (-4000i32..4000).prop_map(|v| (v as f32 / 8.0).to_bits()),
        2 => proptest::sample::select(SPECIAL_F32),
        1 => any::<u32>(),
    ]
    .boxed()
}

/// finite values of moderate size (embeddings the validator accepts)
pub fn f32_bits_moderate() -> BoxedStrategy<u32> {
    prop_oneof![
        8 => (-4000i32..4000).prop_map(|v| (v as f32 / 8.0).to_bits()),
        1 => proptest::sample::select(SPECIAL_F32),
    ]
    .boxed()
}

pub fn string_any() -> BoxedStrategy<String> {
    prop_oneof![
        1 => Just(String::new()),
        5 => "[a-z]{1,8}",
        3 => "node-[0-9]{1,3}",
        1 => ".{0,12}",
        1 => "[ab]{250,400}",
        1 => (1usize..5).prop_map(|k| "x".repeat(255 + k - 2)),
    ]
    .boxed()
}

pub fn bytes_any() -> BoxedStrategy<Vec<u8>> {
    prop_oneof![
        4 => proptest::collection::vec(any::<u8>(), 0..24),
        2 => (any::<u8>(), 0usize..1500).prop_map(|(b, n)| vec![b; n]),
        1 => proptest::collection::vec(any::<u8>(), 200..600),
    ]
    .boxed()
}

pub fn emb_spec() -> BoxedStrategy<EmbSpec> {
    let dim = prop_oneof![
        6 => 1u32..64,
        1 => Just(0u32),
        2 => proptest::sample::select(&[65535u32, 65536, 65537, 1 << 20, u32::MAX][..]),
    ];
    (dim, proptest::collection::vec((any::<u16>(), f32_bits_moderate()), 0..6))
        .prop_map(|(dim, entries)| EmbSpec { dim, entries })
        .boxed()
}

pub fn bag() -> BoxedStrategy<Bag> {
    (
        proptest::collection::vec(u64_any(), 10..28),
        proptest::collection::vec(string_any(), 3..8),
        proptest::collection::vec(f32_bits(), 3..10),
        proptest::collection::vec(bytes_any(), 2..5),
        proptest::collection::vec(any::<bool>(), 6..14),
        proptest::collection::vec(emb_spec(), 1..4),
    )
        .prop_map(|(u, s, f, b, o, e)| Bag { u, s, f, b, o, e })
        .boxed()
}

/// steps of an ascending id list: duplicates, small and multi-byte deltas, jumps to the top
pub fn id_steps() -> BoxedStrategy<Vec<u64>> {
    let step = prop_oneof![
        2 => Just(0u64),
        4 => 1u64..127,
        3 => 128u64..70_000,
        1 => proptest::sample::select(BOUNDARY_U64),
        1 => any::<u64>(),
    ];
    proptest::collection::vec(step, 0..24).boxed()
}
