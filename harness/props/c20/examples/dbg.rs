use nv_c20::alloc::measure;
use tensor_compress::format::*;
fn main() {
    let b = std::fs::read("/dev/shm/c20dump.bin").unwrap();
    println!("{} bytes", b.len());
    let (r, a) = measure(|| bitcode::deserialize::<CompressedSnapshot>(&b));
    println!("max alloc {a}");
    match r {
        Ok(s) => {
            println!("entries {}", s.entries.len());
            for e in s.entries.iter().take(5) { println!("key len {} fields {}", e.key.len(), e.fields.len());
              for (k,v) in e.fields.iter().take(4) { let d = format!("{v:?}"); println!("  {k:?} -> {}", &d[..d.len().min(200)]); } }
        }
        Err(e) => println!("err {e}"),
    }
    println!("sizes: entry {} value {} ", std::mem::size_of::<CompressedEntry>(), std::mem::size_of::<CompressedValue>());
}
