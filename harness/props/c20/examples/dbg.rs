use tensor_compress::*;
fn main() {
    let seed: Vec<i8> = vec![0, 0, 7, 0, 0, 0, 0, 0, 0, 6, 0, 0, 0, 0, 0, 0, 0, 0, 0, 0, 0, -3, 0, -7, 0, 0, 0, 0, 3, 0, -7, 0, 0, 0, 0];
    let sd = |i: usize| f64::from(seed[i % seed.len()]) / 4.0;
    let shape = [4usize, 4]; let ranks = [1usize, 2, 1];
    let mut cores: Vec<Vec<f64>> = vec![]; let mut k0 = 0;
    for k in 0..2 { let len = ranks[k]*shape[k]*ranks[k+1]; cores.push((0..len).map(|i| sd(k0 + i*7 + k)).collect()); k0 += len; }
    println!("cores {cores:?}");
    let mut x = vec![];
    for i in 0..4 { for j in 0..4 { let mut v = 0.0; for r in 0..2 { v += cores[0][i*2 + r] * cores[1][r*4 + j]; } x.push(v as f32); } }
    println!("x {x:?}");
    let tt = tt_decompose(&x, &TTConfig{shape: shape.to_vec(), max_rank: 2, tolerance: 0.01}).unwrap();
    println!("ranks {:?}", tt.ranks);
    println!("y {:?}", tt_reconstruct(&tt));
    let m = Matrix::new(x.clone(), 4, 4).unwrap();
    let s = svd_truncated(&m, 2, 0.01).unwrap();
    println!("svd rank {} s {:?}", s.rank, s.s);
}
