#!/usr/bin/env python3
# usage: add_known.py <sig> <what>   -- add/replace one C20 entry of /verif/known_findings.json (re-read right before writing)
import json, sys, os, fcntl
path = os.environ.get("NV_KNOWN", "/verif/known_findings.json")
sig, what = sys.argv[1], sys.argv[2]
with open(path, "r+") as f:
    fcntl.flock(f, fcntl.LOCK_EX)
    doc = json.load(f)
    known = [k for k in doc["known"] if not (k["property"] == "C20" and k["sig"] == sig)]
    known.append({"property": "C20", "sig": sig, "what": what})
    doc["known"] = known
    f.seek(0); f.truncate()
    json.dump(doc, f, indent=2, ensure_ascii=False)
    f.write("\n")
print("known C20:", [k["sig"] for k in doc["known"] if k["property"] == "C20"])
