//! C05 — Graph stays structurally consistent under any operations and threads.
//!
//! * `seq`   generated sequences of node/edge create/update/delete (self-loops, parallel edges,
//!           directed and undirected) against a model edge set; after every op every read API
//!           must say exactly what the set of existing edges implies.
//! * `sched` 2–8 scripted threads over ≤ 5 shared nodes under the deterministic scheduler with the
//!           `graph.adj.rmw` yield point inside the adjacency read-modify-write; at quiescence the
//!           order-free structural invariants must hold and every edge whose creation returned Ok
//!           (and that nobody deleted) must be fully linked.
//! * `stress` real threads, barrier start, hub-heavy creates (thorough and a small quick share).

use graph_engine::{Direction, EdgeInput, GraphEngine, PropertyValue};
use nv_engine::{main_for, pick, sched, CaseCtx, CustomPart, Fail, PropDef, PropPart, Tier, Violation};
use proptest::prelude::*;
use serde::{Deserialize, Serialize};
use std::collections::{BTreeMap, BTreeSet, HashMap};
use std::sync::{Arc, Mutex};
use std::time::Duration;

#[derive(Clone, Debug, Serialize, Deserialize)]
enum Op {
    CreateNode,
    /// endpoints as indices into the node pool, edge type 0/1, directed?
    CreateEdge(u16, u16, u8, bool),
    DeleteEdge(u16),
    DeleteNode(u16),
    UpdateNode(u16, i64),
    UpdateEdge(u16, i64),
    /// batch_create_edges of (from, to, type, directed, reserved-property-name?) elements: an element
    /// with a reserved `_`-prefixed property name or a dead endpoint makes the product refuse the batch,
    /// possibly after it has created some of the earlier elements; whatever exists afterwards must be
    /// fully linked
    BatchEdges(Vec<(u16, u16, u8, bool, bool)>),
}

fn op_strategy(hub: bool) -> impl Strategy<Value = Op> {
    // hub = endpoints skewed to low indices so that lists are shared
    let ep = if hub { prop_oneof![3 => Just(0u16), 2 => any::<u16>()].boxed() } else { any::<u16>().boxed() };
    let ep2 = if hub { prop_oneof![1 => Just(0u16), 3 => any::<u16>()].boxed() } else { any::<u16>().boxed() };
    prop_oneof![
        3 => Just(Op::CreateNode),
        10 => (ep, ep2, 0u8..2, any::<bool>()).prop_map(|(a, b, t, d)| Op::CreateEdge(a, b, t, d)),
        3 => any::<u16>().prop_map(Op::DeleteEdge),
        2 => any::<u16>().prop_map(Op::DeleteNode),
        1 => (any::<u16>(), 0i64..10).prop_map(|(n, v)| Op::UpdateNode(n, v)),
        2 => (any::<u16>(), 0i64..10).prop_map(|(e, v)| Op::UpdateEdge(e, v)),
        2 => prop::collection::vec((prop_oneof![2 => Just(0u16), 3 => any::<u16>()], any::<u16>(), 0u8..2, any::<bool>(), prop::bool::weighted(0.15)), 1..6)
            .prop_map(Op::BatchEdges),
    ]
}

// ------------------------------------------------------------------ model + structural checks

#[derive(Clone, Debug, PartialEq, Eq)]
struct MEdge {
    from: u64,
    to: u64,
    ty: String,
    directed: bool,
}

#[derive(Default)]
struct Model {
    nodes: BTreeSet<u64>,
    edges: BTreeMap<u64, MEdge>,
}

impl Model {
    fn out_list(&self, n: u64) -> BTreeSet<u64> {
        self.edges.iter().filter(|(_, e)| e.from == n || (!e.directed && e.to == n)).map(|(id, _)| *id).collect()
    }
    fn in_list(&self, n: u64) -> BTreeSet<u64> {
        self.edges.iter().filter(|(_, e)| e.to == n || (!e.directed && e.from == n)).map(|(id, _)| *id).collect()
    }
    fn other(&self, id: u64, n: u64) -> u64 {
        let e = &self.edges[&id];
        if e.from == n {
            e.to
        } else {
            e.from
        }
    }
}

fn ty(t: u8) -> &'static str {
    if t % 2 == 0 {
        "knows"
    } else {
        "likes"
    }
}

/// Everything the read APIs say must be what the model edge set implies.
fn check_against_model(g: &GraphEngine, m: &Model, ctx: &mut CaseCtx, when: &str) -> Result<(), Fail> {
    // edges exist with the right endpoints
    let all: BTreeMap<u64, MEdge> = g
        .all_edges()
        .into_iter()
        .map(|e| (e.id, MEdge { from: e.from, to: e.to, ty: e.edge_type.clone(), directed: e.directed }))
        .collect();
    if all != m.edges {
        let missing: Vec<_> = m.edges.keys().filter(|k| !all.contains_key(k)).collect();
        let extra: Vec<_> = all.keys().filter(|k| !m.edges.contains_key(k)).collect();
        ctx.fail("all_edges-differs", format!("{when}: all_edges() misses {missing:?}, has extra {extra:?} (or endpoints differ)"))?;
    }
    for (id, e) in &m.edges {
        match g.get_edge(*id) {
            Ok(x) if x.from == e.from && x.to == e.to && x.directed == e.directed && x.edge_type == e.ty => {},
            other => ctx.fail("get_edge-differs", format!("{when}: get_edge({id}) = {:?}, model {e:?}", other.map(|x| (x.from, x.to, x.directed))))?,
        }
    }
    let live: BTreeSet<u64> = g.all_nodes().into_iter().map(|n| n.id).collect();
    if live != m.nodes {
        ctx.fail("all_nodes-differs", format!("{when}: all_nodes() = {live:?}, model {:?}", m.nodes))?;
    }
    for n in &m.nodes {
        if !g.node_exists(*n) {
            ctx.fail("node-missing", format!("{when}: node {n} does not exist"))?;
        }
        let exp_out = m.out_list(*n);
        let exp_in = m.in_list(*n);
        for (dir, exp, name) in [
            (Direction::Outgoing, exp_out.clone(), "Outgoing"),
            (Direction::Incoming, exp_in.clone(), "Incoming"),
            (Direction::Both, exp_out.union(&exp_in).copied().collect::<BTreeSet<u64>>(), "Both"),
        ] {
            let got: Vec<u64> = g.edges_of(*n, dir).map_err(|e| Fail::new("edges_of-error", format!("{when}: edges_of({n},{name}) failed: {e}")))?.into_iter().map(|e| e.id).collect();
            let got_set: BTreeSet<u64> = got.iter().copied().collect();
            if got_set != exp || got.len() != got_set.len() {
                let sig = if got_set.is_subset(&exp) { "edge-not-listed" } else { "listed-edge-wrong" };
                ctx.fail(format!("{sig}:edges_of-{name}"), format!("{when}: edges_of({n},{name}) = {got:?}, the existing edges imply {exp:?}"))?;
            }
        }
        let od = g.out_degree(*n).unwrap_or(usize::MAX);
        let id = g.in_degree(*n).unwrap_or(usize::MAX);
        if od != exp_out.len() || id != exp_in.len() {
            ctx.fail("degree-differs", format!("{when}: node {n}: out_degree {od} in_degree {id}, the existing edges imply {} / {}", exp_out.len(), exp_in.len()))?;
        }
        if g.degree(*n).unwrap_or(usize::MAX) != exp_out.len() + exp_in.len() {
            ctx.fail("degree-differs", format!("{when}: node {n}: degree() is not out+in"))?;
        }
        for (dir, list, name) in [(Direction::Outgoing, &exp_out, "Outgoing"), (Direction::Incoming, &exp_in, "Incoming")] {
            let exp_nb: BTreeSet<u64> = list.iter().map(|e| m.other(*e, *n)).filter(|o| o != n).collect();
            let got_nb: BTreeSet<u64> = g.neighbors(*n, None, dir, None).map_err(|e| Fail::new("neighbors-error", format!("{when}: {e}")))?.into_iter().map(|x| x.id).collect();
            if got_nb != exp_nb {
                ctx.fail(format!("neighbors-differ:{name}"), format!("{when}: neighbors({n},{name}) = {got_nb:?}, the existing edges imply {exp_nb:?}"))?;
            }
            // typed neighbours
            let exp_t: BTreeSet<u64> = list.iter().filter(|e| m.edges[*e].ty == "knows").map(|e| m.other(*e, *n)).filter(|o| o != n).collect();
            let got_t: BTreeSet<u64> = g.neighbors(*n, Some("knows"), dir, None).map(|v| v.into_iter().map(|x| x.id).collect()).unwrap_or_default();
            if got_t != exp_t {
                ctx.fail(format!("neighbors-differ:typed-{name}"), format!("{when}: neighbors({n},knows,{name}) = {got_t:?}, expected {exp_t:?}"))?;
            }
        }
    }
    // traversal from the two lowest nodes
    for start in m.nodes.iter().take(2) {
        let mut seen: BTreeSet<u64> = BTreeSet::new();
        let mut frontier = vec![*start];
        seen.insert(*start);
        while let Some(x) = frontier.pop() {
            for e in m.out_list(x) {
                let o = m.other(e, x);
                if seen.insert(o) {
                    frontier.push(o);
                }
            }
        }
        let got: BTreeSet<u64> = g.traverse(*start, Direction::Outgoing, 64, None, None).map_err(|e| Fail::new("traverse-error", format!("{when}: {e}")))?.into_iter().map(|n| n.id).collect();
        if got != seen {
            ctx.fail("traverse-differs", format!("{when}: traverse({start},Outgoing) = {got:?}, reachable over the existing edges: {seen:?}"))?;
        }
    }
    Ok(())
}

/// Order-free structural invariants read from the store alone (used at quiescence after threads).
fn check_structure(g: &GraphEngine, known_nodes: &[u64], ctx: &mut CaseCtx, when: &str) -> Result<(), Fail> {
    let edges: BTreeMap<u64, (u64, u64, bool)> = g.all_edges().into_iter().map(|e| (e.id, (e.from, e.to, e.directed))).collect();
    // both endpoints of every edge exist; every edge is listed by both endpoints
    for (id, (from, to, directed)) in &edges {
        for n in [from, to] {
            if !g.node_exists(*n) {
                ctx.fail("edge-endpoint-missing", format!("{when}: edge {id} ({from}->{to}) exists but node {n} does not"))?;
            }
        }
        let mut must: Vec<(u64, Direction, &str)> = vec![(*from, Direction::Outgoing, "outgoing"), (*to, Direction::Incoming, "incoming")];
        if !directed {
            must.push((*to, Direction::Outgoing, "outgoing"));
            must.push((*from, Direction::Incoming, "incoming"));
        }
        for (n, dir, name) in must {
            if !g.node_exists(n) {
                continue;
            }
            let listed = g.edges_of(n, dir).map(|v| v.iter().any(|e| e.id == *id)).unwrap_or(false);
            if !listed {
                ctx.fail(
                    format!("edge-not-listed:{name}"),
                    format!("{when}: edge {id} ({from}{}{to}) exists but is missing from the {name} list of node {n}", if *directed { "->" } else { "--" }),
                )?;
            }
        }
    }
    // every listed edge exists and touches the lister; degrees equal the list sizes
    let mut nodes: BTreeSet<u64> = g.all_nodes().into_iter().map(|n| n.id).collect();
    nodes.extend(known_nodes.iter().copied().filter(|n| g.node_exists(*n)));
    for n in nodes {
        let out = g.edges_of(n, Direction::Outgoing).unwrap_or_default();
        let inc = g.edges_of(n, Direction::Incoming).unwrap_or_default();
        for (list, name) in [(&out, "outgoing"), (&inc, "incoming")] {
            for e in list.iter() {
                let ok = match name {
                    "outgoing" => e.from == n || (!e.directed && e.to == n),
                    _ => e.to == n || (!e.directed && e.from == n),
                };
                if !ok {
                    ctx.fail(format!("listed-edge-wrong:{name}"), format!("{when}: node {n} lists edge {} ({}->{}) as {name}", e.id, e.from, e.to))?;
                }
            }
        }
        // degree counts raw list entries: an entry whose edge record is gone is an orphan
        let od = g.out_degree(n).unwrap_or(0);
        let idg = g.in_degree(n).unwrap_or(0);
        if od != out.len() || idg != inc.len() {
            ctx.fail("orphan-list-entry", format!("{when}: node {n}: out_degree {od} / in_degree {idg} but only {} / {} listed edges exist", out.len(), inc.len()))?;
        }
    }
    Ok(())
}

// ------------------------------------------------------------------ seq

#[derive(Clone, Debug, Serialize, Deserialize)]
struct SeqCase {
    ops: Vec<Op>,
}

fn seq_strategy(t: Tier) -> impl Strategy<Value = SeqCase> {
    let max = t.pick(45usize, 70usize);
    prop::collection::vec(op_strategy(true), 0..max).prop_map(|ops| SeqCase { ops })
}

/// A hub with 90-150 incident edges (directed both ways, undirected, self-loops, parallel), then
/// its deletion and a short tail. delete_node switches to a parallel clean-up at 100 incident edge
/// ids, which the small sequences above never reach.
fn bighub_strategy(_t: Tier) -> impl Strategy<Value = SeqCase> {
    (
        90usize..150,
        prop::collection::vec((prop_oneof![1 => Just(0u16), 12 => any::<u16>()], any::<bool>(), 0u8..2, any::<bool>()), 150),
        prop::collection::vec(op_strategy(true), 0..8),
        prop::bool::weighted(0.8),
    )
        .prop_map(|(n, es, tail, delete_hub)| {
            let mut ops = vec![Op::CreateNode, Op::CreateNode, Op::CreateNode, Op::CreateNode];
            for (x, out, ty, directed) in es.into_iter().take(n) {
                ops.push(if out { Op::CreateEdge(0, x, ty, directed) } else { Op::CreateEdge(x, 0, ty, directed) });
            }
            if delete_hub {
                ops.push(Op::DeleteNode(0));
            }
            ops.extend(tail);
            SeqCase { ops }
        })
}

fn props(v: i64) -> HashMap<String, PropertyValue> {
    let mut p = HashMap::new();
    p.insert("w".to_string(), PropertyValue::Int(v));
    p
}

/// Values 5..10 of an update operation name one of the record's structural fields instead of an
/// ordinary property (the update may be refused or ignored, but must not change the structure).
const STRUCTURAL: [&str; 5] = ["_to", "_from", "_directed", "_edge_type", "_id"];

fn update_props(v: i64, some_node: u64) -> (HashMap<String, PropertyValue>, bool) {
    if v < 5 {
        return (props(v), false);
    }
    let name = STRUCTURAL[(v as usize - 5) % STRUCTURAL.len()];
    let value = match name {
        "_directed" => PropertyValue::Bool(v % 2 == 0),
        "_edge_type" => PropertyValue::String("x".to_string()),
        _ => PropertyValue::Int(some_node as i64),
    };
    let mut p = HashMap::new();
    p.insert(name.to_string(), value);
    (p, true)
}

fn seq_check(c: &SeqCase, ctx: &mut CaseCtx) -> Result<(), Fail> {
    let g = GraphEngine::new();
    let mut m = Model::default();
    let mut pool: Vec<u64> = Vec::new(); // every node id ever created (dead ones stay: ops on them must fail)
    let mut epool: Vec<u64> = Vec::new();
    for _ in 0..2 {
        let id = g.create_node("n", props(0)).map_err(|e| Fail::new("harness", e.to_string()))?;
        m.nodes.insert(id);
        pool.push(id);
    }
    for (k, op) in c.ops.iter().enumerate() {
        let when = format!("after op {k} {op:?}");
        match op {
            Op::CreateNode => {
                let id = g.create_node("n", props(0)).map_err(|e| Fail::new("create_node-error", e.to_string()))?;
                m.nodes.insert(id);
                pool.push(id);
            },
            Op::CreateEdge(a, b, t, d) => {
                let (a, b) = (pool[pick(*a, pool.len())], pool[pick(*b, pool.len())]);
                let r = g.create_edge(a, b, ty(*t), props(1), *d);
                let ok = m.nodes.contains(&a) && m.nodes.contains(&b);
                match (r, ok) {
                    (Ok(id), true) => {
                        m.edges.insert(id, MEdge { from: a, to: b, ty: ty(*t).to_string(), directed: *d });
                        epool.push(id);
                        if a == b && !*d {
                            ctx.label("undirected self-loop");
                            ctx.set_nontrivial();
                        }
                        if m.edges.values().filter(|e| (e.from == a && e.to == b) || (e.from == b && e.to == a)).count() >= 2 {
                            ctx.label("parallel edges");
                        }
                    },
                    (Err(_), false) => {},
                    (Ok(id), false) => ctx.fail("edge-to-missing-node", format!("{when}: create_edge({a},{b}) returned {id} although an endpoint does not exist"))?,
                    (Err(e), true) => ctx.fail("create_edge-error", format!("{when}: create_edge({a},{b}) failed: {e}"))?,
                }
            },
            Op::BatchEdges(es) => {
                let inputs: Vec<EdgeInput> = es
                    .iter()
                    .map(|(a, b, t, d, reserved)| {
                        let mut p = props(1);
                        if *reserved {
                            p.insert("_w".to_string(), PropertyValue::Int(1));
                        }
                        EdgeInput::new(pool[pick(*a, pool.len())], pool[pick(*b, pool.len())], ty(*t), p, *d)
                    })
                    .collect();
                let refusable = es.iter().zip(inputs.iter()).any(|(e, i)| e.4 || !m.nodes.contains(&i.from) || !m.nodes.contains(&i.to));
                match g.batch_create_edges(inputs.clone()) {
                    Ok(r) => {
                        if r.created_ids.len() != inputs.len() {
                            ctx.fail("batch:id-count", format!("{when}: {} ids for {} edges", r.created_ids.len(), inputs.len()))?;
                        }
                        for (id, i) in r.created_ids.iter().zip(inputs.iter()) {
                            m.edges.insert(*id, MEdge { from: i.from, to: i.to, ty: i.edge_type.clone(), directed: i.directed });
                            epool.push(*id);
                        }
                        ctx.label("batch_create_edges accepted");
                    },
                    Err(e) => {
                        if !refusable {
                            ctx.fail("batch:create-error", format!("{when}: batch_create_edges of valid elements failed: {e}"))?;
                        }
                        // the refused batch may have created some of its elements (the unchanged tree keeps
                        // those before the refused one): whatever exists now is an edge like any other
                        let mut kept = 0;
                        for x in g.all_edges() {
                            if m.edges.contains_key(&x.id) {
                                continue;
                            }
                            if !inputs.iter().any(|i| i.from == x.from && i.to == x.to && i.directed == x.directed && i.edge_type == x.edge_type) {
                                ctx.fail("batch:unknown-edge", format!("{when}: edge {} ({}->{}) appeared and is none of the batch's elements", x.id, x.from, x.to))?;
                            }
                            m.edges.insert(x.id, MEdge { from: x.from, to: x.to, ty: x.edge_type.clone(), directed: x.directed });
                            epool.push(x.id);
                            kept += 1;
                        }
                        ctx.label(if kept > 0 { "batch_create_edges refused after creating some elements" } else { "batch_create_edges refused, nothing created" });
                        if kept > 0 {
                            ctx.set_nontrivial();
                        }
                    },
                }
            },
            Op::DeleteEdge(e) => {
                if epool.is_empty() {
                    continue;
                }
                let id = epool[pick(*e, epool.len())];
                let r = g.delete_edge(id);
                match (r.is_ok(), m.edges.remove(&id).is_some()) {
                    (true, true) | (false, false) => {},
                    (true, false) => ctx.fail("delete_edge-of-missing-ok", format!("{when}: delete_edge({id}) succeeded for an edge that does not exist"))?,
                    (false, true) => ctx.fail("delete_edge-error", format!("{when}: delete_edge({id}) failed: {:?}", r.err()))?,
                }
            },
            Op::DeleteNode(n) => {
                let id = pool[pick(*n, pool.len())];
                let r = g.delete_node(id);
                let existed = m.nodes.remove(&id);
                if existed {
                    let incident: Vec<u64> = m.edges.iter().filter(|(_, e)| e.from == id || e.to == id).map(|(k, _)| *k).collect();
                    if incident.len() >= 2 {
                        ctx.label("delete_node with >=2 incident edges");
                        ctx.set_nontrivial();
                    }
                    for k in incident {
                        m.edges.remove(&k);
                    }
                }
                match (r.is_ok(), existed) {
                    (true, true) | (false, false) => {},
                    (true, false) => ctx.fail("delete_node-of-missing-ok", format!("{when}: delete_node({id}) succeeded for a node that does not exist"))?,
                    (false, true) => ctx.fail("delete_node-error", format!("{when}: delete_node({id}) failed: {:?}", r.err()))?,
                }
            },
            Op::UpdateNode(n, v) => {
                let id = pool[pick(*n, pool.len())];
                let (p, structural) = update_props(*v, pool[0]);
                let r = g.update_node(id, None, p);
                if structural {
                    ctx.label("update with a structural field name");
                    ctx.set_nontrivial();
                } else if r.is_ok() != m.nodes.contains(&id) {
                    ctx.fail("update_node-result", format!("{when}: update_node({id}) ok={} but node exists={}", r.is_ok(), m.nodes.contains(&id)))?;
                }
            },
            Op::UpdateEdge(e, v) => {
                if epool.is_empty() {
                    continue;
                }
                let id = epool[pick(*e, epool.len())];
                let (p, structural) = update_props(*v, pool[pool.len() - 1]);
                let r = g.update_edge(id, p);
                if structural {
                    ctx.label("update with a structural field name");
                    ctx.set_nontrivial();
                } else if r.is_ok() != m.edges.contains_key(&id) {
                    ctx.fail("update_edge-result", format!("{when}: update_edge({id}) ok={} but edge exists={}", r.is_ok(), m.edges.contains_key(&id)))?;
                }
            },
        }
        check_against_model(&g, &m, ctx, &when)?;
        check_structure(&g, &pool, ctx, &when)?;
        if ctx.known_hit() {
            return Ok(());
        }
    }
    Ok(())
}

// ------------------------------------------------------------------ sched

#[derive(Clone, Debug, Serialize, Deserialize)]
enum TOp {
    CreateEdge(u8, u8, bool),
    /// delete the k-th edge this thread created (if any)
    DeleteOwnEdge(u8),
    /// delete an edge of the initial graph
    DeleteInitialEdge(u8),
    DeleteNode(u8),
    CreateNode,
    /// update_edge of an initial edge (k < number of initial edges) or of one this thread created
    UpdateEdge(u8),
    UpdateNode(u8),
    /// batch_create_edges of these (from, to, directed) triples
    BatchCreate(Vec<(u8, u8, bool)>),
}

#[derive(Clone, Debug, Serialize, Deserialize)]
struct SchedCase {
    nodes: u8,
    /// edges present before the threads start (from, to, directed)
    initial: Vec<(u8, u8, bool)>,
    scripts: Vec<Vec<TOp>>,
    schedule: Vec<u16>,
    /// false = create-only scripts (exact final edge set is known)
    deletes: bool,
}

fn sched_strategy(t: Tier) -> impl Strategy<Value = SchedCase> {
    let max_threads = t.pick(5usize, 8usize);
    (2u8..=5, any::<bool>()).prop_flat_map(move |(nodes, deletes)| {
        let ep = prop_oneof![3 => Just(0u8), 2 => 0..nodes];
        let ep2 = prop_oneof![1 => Just(0u8), 3 => 0..nodes];
        let top = if deletes {
            prop_oneof![
                8 => (ep.clone(), ep2.clone(), any::<bool>()).prop_map(|(a, b, d)| TOp::CreateEdge(a, b, d)),
                2 => (0u8..4).prop_map(TOp::DeleteOwnEdge),
                2 => (0u8..4).prop_map(TOp::DeleteInitialEdge),
                1 => (1..nodes).prop_map(TOp::DeleteNode),
                1 => Just(TOp::CreateNode),
                2 => (0u8..6).prop_map(TOp::UpdateEdge),
                1 => (0..nodes).prop_map(TOp::UpdateNode),
                1 => prop::collection::vec((ep.clone(), ep2.clone(), any::<bool>()), 1..4).prop_map(TOp::BatchCreate),
            ]
            .boxed()
        } else {
            (ep.clone(), ep2.clone(), any::<bool>()).prop_map(|(a, b, d)| TOp::CreateEdge(a, b, d)).boxed()
        };
        (
            Just(nodes),
            prop::collection::vec((0..nodes, 0..nodes, any::<bool>()), 0..4),
            prop::collection::vec(prop::collection::vec(top, 1..5), 2..=max_threads),
            prop::collection::vec(any::<u16>(), 0..60),
            Just(deletes),
        )
    })
    .prop_map(|(nodes, initial, scripts, schedule, deletes)| SchedCase { nodes, initial, scripts, schedule, deletes })
}

#[derive(Default)]
struct ThreadLog {
    created: Vec<(u64, u64, u64, bool)>, // (edge id, from, to, directed)
    deleted_edges: Vec<u64>,
    deleted_nodes: Vec<u64>,
}

fn sched_check(c: &SchedCase, ctx: &mut CaseCtx, site: &'static str) -> Result<(), Fail> {
    let g = Arc::new(GraphEngine::new());
    let mut nodes: Vec<u64> = Vec::new();
    for _ in 0..c.nodes {
        nodes.push(g.create_node("n", HashMap::new()).map_err(|e| Fail::new("harness", e.to_string()))?);
    }
    let mut initial_edges: Vec<(u64, u64, u64, bool)> = Vec::new();
    for (a, b, d) in &c.initial {
        let (a, b) = (nodes[*a as usize % nodes.len()], nodes[*b as usize % nodes.len()]);
        let id = g.create_edge(a, b, "init", HashMap::new(), *d).map_err(|e| Fail::new("harness", e.to_string()))?;
        initial_edges.push((id, a, b, *d));
    }
    let logs: Vec<Arc<Mutex<ThreadLog>>> = c.scripts.iter().map(|_| Arc::new(Mutex::new(ThreadLog::default()))).collect();
    let mut scripts: Vec<Box<dyn FnOnce() + Send>> = Vec::new();
    for (ti, script) in c.scripts.iter().enumerate() {
        let g = g.clone();
        let log = logs[ti].clone();
        let nodes = nodes.clone();
        let initial_edges = initial_edges.clone();
        let script = script.clone();
        scripts.push(Box::new(move || {
            for op in script {
                sched::op_boundary();
                match op {
                    TOp::CreateEdge(a, b, d) => {
                        let (a, b) = (nodes[a as usize % nodes.len()], nodes[b as usize % nodes.len()]);
                        if let Ok(id) = g.create_edge(a, b, "t", HashMap::new(), d) {
                            log.lock().unwrap().created.push((id, a, b, d));
                        }
                    },
                    TOp::DeleteOwnEdge(k) => {
                        let id = { let l = log.lock().unwrap(); l.created.get(k as usize % l.created.len().max(1)).map(|x| x.0) };
                        if let Some(id) = id {
                            if g.delete_edge(id).is_ok() {
                                log.lock().unwrap().deleted_edges.push(id);
                            }
                        }
                    },
                    TOp::DeleteInitialEdge(k) => {
                        if !initial_edges.is_empty() {
                            let id = initial_edges[k as usize % initial_edges.len()].0;
                            if g.delete_edge(id).is_ok() {
                                log.lock().unwrap().deleted_edges.push(id);
                            }
                        }
                    },
                    TOp::DeleteNode(n) => {
                        let id = nodes[n as usize % nodes.len()];
                        if g.delete_node(id).is_ok() {
                            log.lock().unwrap().deleted_nodes.push(id);
                        }
                    },
                    TOp::CreateNode => {
                        let _ = g.create_node("n", HashMap::new());
                    },
                    TOp::UpdateEdge(k) => {
                        let id = if (k as usize) < initial_edges.len() {
                            Some(initial_edges[k as usize].0)
                        } else {
                            let l = log.lock().unwrap();
                            l.created.get((k as usize - initial_edges.len()) % l.created.len().max(1)).map(|x| x.0)
                        };
                        if let Some(id) = id {
                            let _ = g.update_edge(id, HashMap::from([("w".to_string(), PropertyValue::Int(i64::from(k)))]));
                        }
                    },
                    TOp::UpdateNode(n) => {
                        let id = nodes[n as usize % nodes.len()];
                        let _ = g.update_node(id, None, HashMap::from([("w".to_string(), PropertyValue::Int(i64::from(n)))]));
                    },
                    TOp::BatchCreate(es) => {
                        let inputs: Vec<EdgeInput> = es
                            .iter()
                            .map(|(a, b, d)| EdgeInput::new(nodes[*a as usize % nodes.len()], nodes[*b as usize % nodes.len()], "t", HashMap::new(), *d))
                            .collect();
                        if let Ok(r) = g.batch_create_edges(inputs.clone()) {
                            let mut l = log.lock().unwrap();
                            for (id, e) in r.created_ids.iter().zip(inputs.iter()) {
                                l.created.push((*id, e.from, e.to, e.directed));
                            }
                        }
                    },
                }
            }
        }));
    }
    // the update windows (record read .. write-back) are scheduled together with the adjacency site
    let sites = [site, "graph.edge.update.rmw", "graph.node.update.rmw"];
    let report = sched::run(scripts, &c.schedule, &sites, Duration::from_millis(40));
    if let Some((t, msg)) = report.panics.first() {
        ctx.fail("panic-in-thread", format!("thread {t} panicked: {msg}"))?;
    }
    if report.trace.iter().any(|(_, s)| s.ends_with(".update.rmw")) {
        ctx.label("a thread was switched out between the read and the write-back of update_edge / update_node");
    }
    let overlaps = report.overlaps(site);
    if overlaps > 0 {
        ctx.label(if site == "graph.adj.rmw" { "two threads inside the adjacency RMW window" } else { "two threads about to update an adjacency list" });
        ctx.set_nontrivial();
    }
    if report.blocked_events > 0 {
        ctx.label("scheduler: granted thread blocked on a product lock");
    }
    ctx.label(if c.deletes { "scripts with deletes" } else { "create-only scripts" });
    ctx.note = Some(serde_json::json!({"yields": report.trace.len(), "overlaps": overlaps}));
    // quiescence
    // create_edge has no exclusion against a concurrent delete_node (recorded finding): every
    // structural failure of a case that runs delete_node next to other writers is keyed apart
    let with_dn = c.scripts.iter().flatten().any(|o| matches!(o, TOp::DeleteNode(_)));
    let when = if with_dn { "at quiescence (a delete_node ran concurrently)" } else { "at quiescence" };
    let mut sub = Collector { inner: ctx, suffix: if with_dn { ":with-concurrent-delete-node" } else { "" } };
    let ctx = &mut sub;
    let deleted_edges: BTreeSet<u64> = logs.iter().flat_map(|l| l.lock().unwrap().deleted_edges.clone()).collect();
    let deleted_nodes: BTreeSet<u64> = logs.iter().flat_map(|l| l.lock().unwrap().deleted_nodes.clone()).collect();
    // every edge whose creation returned Ok, that nobody deleted and whose endpoints nobody deleted, must exist fully linked
    let mut expect: Vec<(u64, u64, u64, bool)> = initial_edges.clone();
    for l in &logs {
        expect.extend(l.lock().unwrap().created.iter().copied());
    }
    for (id, from, to, directed) in &expect {
        if deleted_edges.contains(id) || deleted_nodes.contains(from) || deleted_nodes.contains(to) {
            continue;
        }
        if g.get_edge(*id).is_err() {
            ctx.fail("created-edge-vanished", format!("{when}: edge {id} ({from}->{to}) was created successfully and never deleted, but get_edge fails"))?;
            continue;
        }
        let mut must: Vec<(u64, Direction, &str)> = vec![(*from, Direction::Outgoing, "outgoing"), (*to, Direction::Incoming, "incoming")];
        if !directed {
            must.push((*to, Direction::Outgoing, "outgoing"));
            must.push((*from, Direction::Incoming, "incoming"));
        }
        for (n, dir, name) in must {
            let listed = g.edges_of(n, dir).map(|v| v.iter().any(|e| e.id == *id)).unwrap_or(false);
            if !listed {
                ctx.fail(
                    format!("edge-not-listed:{name}:concurrent"),
                    format!("{when}: edge {id} ({from}->{to}, directed={directed}) was created successfully, but node {n} does not list it as {name} ({} overlapping read-modify-writes in this schedule)", overlaps),
                )?;
            }
        }
    }
    for id in &deleted_edges {
        if g.get_edge(*id).is_ok() {
            ctx.fail("deleted-edge-exists", format!("{when}: delete_edge({id}) returned Ok but the edge still exists"))?;
        }
    }
    for id in &deleted_nodes {
        if g.get_node(*id).is_ok() {
            ctx.fail("deleted-node-exists", format!("{when}: delete_node({id}) returned Ok but the node still exists"))?;
        }
    }
    if ctx.inner.known_hit() {
        return Ok(());
    }
    let suffix = ctx.suffix;
    let mut tmp = CaseCtx::new(&EMPTY, true);
    if let Err(f) = check_structure(&g, &nodes, &mut tmp, when) {
        ctx.inner.fail(format!("{}{}", f.sig, suffix), f.msg)?;
    }
    Ok(())
}

static EMPTY: std::sync::LazyLock<nv_engine::Findings> = std::sync::LazyLock::new(nv_engine::Findings::default);

/// Adds a categorical suffix to every signature reported through it.
struct Collector<'a, 'b> {
    inner: &'a mut CaseCtx<'b>,
    suffix: &'static str,
}

impl Collector<'_, '_> {
    fn fail(&mut self, sig: impl Into<String>, msg: impl Into<String>) -> Result<(), Fail> {
        if self.inner.known_hit() {
            return Ok(());
        }
        self.inner.fail(format!("{}{}", sig.into(), self.suffix), msg)
    }
}

// ------------------------------------------------------------------ stress

fn stress_part() -> CustomPart {
    CustomPart {
        name: "stress",
        run: Box::new(|cfg, findings, stats| {
            let rounds = cfg.cases(6, 60);
            for r in 0..rounds {
                let threads = 2 + (r as usize % 7);
                let per = 40usize;
                let g = Arc::new(GraphEngine::new());
                let hub = g.create_node("hub", HashMap::new()).unwrap();
                let leaves: Vec<u64> = (0..threads).map(|_| g.create_node("leaf", HashMap::new()).unwrap()).collect();
                let barrier = Arc::new(std::sync::Barrier::new(threads));
                let hs: Vec<_> = (0..threads)
                    .map(|t| {
                        let (g, barrier, leaf) = (g.clone(), barrier.clone(), leaves[t]);
                        std::thread::spawn(move || {
                            barrier.wait();
                            let mut ids = Vec::new();
                            for k in 0..per {
                                let r = if k % 2 == 0 { g.create_edge(hub, leaf, "s", HashMap::new(), true) } else { g.create_edge(leaf, hub, "s", HashMap::new(), k % 4 == 1) };
                                if let Ok(id) = r {
                                    ids.push(id);
                                }
                            }
                            ids
                        })
                    })
                    .collect();
                let created: Vec<u64> = hs.into_iter().flat_map(|h| h.join().unwrap_or_default()).collect();
                stats.evaluations += 1;
                stats.nontrivial.insert(nv_engine::fnv64(format!("{r}-{threads}").as_bytes()));
                let mut ctx = CaseCtx::new(findings, false);
                let mut fail: Option<Fail> = None;
                let listed: BTreeSet<u64> = g.edges_of(hub, Direction::Both).unwrap_or_default().into_iter().map(|e| e.id).collect();
                let missing: Vec<u64> = created.iter().copied().filter(|id| !listed.contains(id)).collect();
                if !missing.is_empty() {
                    fail = ctx
                        .fail("edge-not-listed:stress", format!("{} of {} edges created concurrently by {threads} threads are missing from the hub's adjacency lists (e.g. {:?})", missing.len(), created.len(), &missing[..missing.len().min(5)]))
                        .err();
                }
                if fail.is_none() {
                    fail = check_structure(&g, &[], &mut ctx, "after the stress round").err();
                }
                if ctx.known_hit() {
                    stats.excluded("edge-not-listed:stress");
                }
                if stats.samples.is_empty() {
                    stats.sample(serde_json::json!({"threads": threads, "edges_per_thread": per, "created": created.len(), "listed_at_hub": listed.len()}));
                }
                if let Some(f) = fail {
                    let case = serde_json::json!({"threads": threads, "per": per, "created": created.len(), "missing": missing});
                    let path = nv_engine::runner::write_replay(cfg, "stress", &f, &case);
                    return Some(Violation { part: "stress".into(), sig: f.sig, msg: f.msg, replay: path });
                }
            }
            None
        }),
        replay: Box::new(|case, _f, _s| {
            // the failing unit of a real-thread run is the recorded outcome; re-validate it
            let missing = case["missing"].as_array().map(|a| a.len()).unwrap_or(0);
            if missing > 0 {
                Err(Fail::new("edge-not-listed:stress", format!("recorded run lost {missing} adjacency entries")))
            } else {
                Ok(())
            }
        }),
    }
}

fn main() {
    main_for(PropDef {
        id: "C05",
        level: "exploration",
        rule: "seq: 0..45 (70) node/edge create/update/delete ops incl. self-loops and parallel edges, all read APIs compared with a model edge set after every op; non-trivial = a delete_node with >=2 incident edges or an undirected self-loop. sched: 2..5 (8) scripted threads of 1..4 ops over <=5 shared nodes (hub likely) under the deterministic scheduler with the graph.adj.rmw yield point; non-trivial = a schedule in which two threads are inside the adjacency read-modify-write window at the same time (scheduler-reported). stress: real threads on one hub. distinct = distinct generated case",
        assumptions: vec![
            "the scheduler owns the interleaving only at graph.adj.rmw and at operation boundaries; races in other windows are reachable only by the stress part (probabilistic)",
            "in concurrent cases the expected edges are those whose create returned Ok and that no successful delete (edge or endpoint) touched; other claims are order-free structural invariants",
            "out_degree/in_degree count list entries: an entry whose edge record is gone counts as an orphan",
        ],
        parts: vec![
            PropPart::new("seq", 8000, 300_000, seq_strategy, seq_check).boxed(),
            // high-degree node: delete_node's parallel branch (>= 100 incident edge ids)
            PropPart::new("bighub", 96, 3_000, bighub_strategy, seq_check).shrink_iters(300).boxed(),
            // list-operation granularity: yields before each adjacency update (outside any lock): deterministic
            PropPart::new("sched", 8000, 300_000, sched_strategy, |c: &SchedCase, ctx: &mut CaseCtx| sched_check(c, ctx, "graph.adj.pre")).shrink_iters(400).boxed(),
            // inside the read-modify-write window: with the window locked, parked holders make other
            // threads block and the scheduler falls back to its grace period (slower, fewer cases)
            PropPart::new("sched_rmw", 500, 8_000, sched_strategy, |c: &SchedCase, ctx: &mut CaseCtx| sched_check(c, ctx, "graph.adj.rmw")).shrink_iters(150).boxed(),
            Box::new(stress_part()),
        ],
        children: vec![],
    });
}
