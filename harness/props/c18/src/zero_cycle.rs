//! Part `zero_cycle`: find_all_weighted_paths on tiny graphs where a zero-weight cycle lies on an optimal path.
//! Zero weights are inside the documented domain (only negative weights are rejected). The call runs in a
//! child process under an address-space limit: either it returns valid optimal walks, or the child dies
//! (allocation failure / CPU limit), which is reported as a failure of the query to answer at all.

use graph_engine::{GraphEngine, PropertyValue};
use nv_engine::{CaseCtx, CustomPart, Fail, Findings, Violation};
use serde_json::{json, Value};
use std::collections::HashMap;

/// (from, to, weight, directed) over nodes 0..n; query is node 0 -> node n-1.
struct Tiny {
    name: &'static str,
    n: usize,
    edges: &'static [(usize, usize, i64, bool)],
    optimum: i64,
    zero_cycle: bool,
}

const CASES: &[Tiny] = &[
    Tiny { name: "undirected zero-weight edge in the middle of the only path", n: 4, edges: &[(0, 1, 1, true), (1, 2, 0, false), (2, 3, 1, true)], optimum: 2, zero_cycle: true },
    Tiny { name: "zero-weight self-loop on the middle node", n: 3, edges: &[(0, 1, 1, true), (1, 1, 0, true), (1, 2, 1, true)], optimum: 2, zero_cycle: true },
    Tiny { name: "two directed zero-weight edges forming a 2-cycle", n: 4, edges: &[(0, 1, 1, true), (1, 2, 0, true), (2, 1, 0, true), (2, 3, 1, true)], optimum: 2, zero_cycle: true },
    Tiny { name: "control: the same shape with weight 1 in the middle", n: 4, edges: &[(0, 1, 1, true), (1, 2, 1, false), (2, 3, 1, true)], optimum: 3, zero_cycle: false },
];

fn build(t: &Tiny) -> (GraphEngine, Vec<u64>, Vec<(u64, usize)>) {
    let g = GraphEngine::new();
    let nodes: Vec<u64> = (0..t.n).map(|_| g.create_node("N", HashMap::new()).expect("create_node")).collect();
    let mut eids = Vec::new();
    for (k, (a, b, w, d)) in t.edges.iter().enumerate() {
        let mut p = HashMap::new();
        p.insert("w".to_string(), PropertyValue::Int(*w));
        eids.push((g.create_edge(nodes[*a], nodes[*b], "A", p, *d).expect("create_edge"), k));
    }
    (g, nodes, eids)
}

/// Child entry point: `child zero_cycle <case index>`; prints one JSON line.
pub fn child(args: &[String]) -> i32 {
    let idx: usize = args.first().and_then(|s| s.parse().ok()).unwrap_or(0);
    let Some(t) = CASES.get(idx) else { return 2 };
    // SAFETY: plain syscall wrappers with valid pointers
    unsafe {
        let lim = |bytes: u64| libc::rlimit { rlim_cur: bytes as libc::rlim_t, rlim_max: bytes as libc::rlim_t };
        libc::setrlimit(libc::RLIMIT_AS, &lim(768 << 20));
        libc::setrlimit(libc::RLIMIT_CPU, &lim(60));
        libc::setrlimit(libc::RLIMIT_CORE, &lim(0));
    }
    let (g, nodes, _) = build(t);
    let r = g.find_all_weighted_paths(nodes[0], nodes[t.n - 1], "w", None);
    match r {
        Ok(a) => {
            let paths: Vec<Value> = a.paths.iter().map(|p| json!({"nodes": p.nodes, "edges": p.edges, "total": p.total_weight})).collect();
            println!("{}", json!({"ok": true, "total": a.total_weight, "paths": paths}));
        },
        Err(e) => println!("{}", json!({"ok": false, "error": e.to_string()})),
    }
    0
}

fn check(idx: usize, ctx: &mut CaseCtx) -> Result<(), Fail> {
    let t = &CASES[idx];
    let r = nv_engine::crashkit::run_child("zero_cycle", &[idx.to_string()], &[])
        .map_err(|e| Fail::new("zero_cycle:spawn", format!("cannot run child: {e}")))?;
    if r.code != Some(0) {
        let tail: String = r.stderr.chars().rev().take(200).collect::<String>().chars().rev().collect();
        return ctx.fail(
            if t.zero_cycle { "find_all_weighted_paths:zero-weight-cycle:does-not-terminate" } else { "find_all_weighted_paths:child-died" },
            format!(
                "find_all_weighted_paths on '{}' (edges {:?}, query node 0 -> node {}): the call never returned; the child process was killed (exit code {:?}, signal {:?}) after exhausting a 768 MiB address-space / 60 s CPU limit. stderr tail: {tail}",
                t.name, t.edges, t.n - 1, r.code, r.signal
            ),
        );
    }
    let line = r.stdout.lines().last().unwrap_or("");
    let v: Value = serde_json::from_str(line).map_err(|e| Fail::new("zero_cycle:protocol", format!("bad child output {line:?}: {e}")))?;
    if v["ok"] != json!(true) {
        return ctx.fail("find_all_weighted_paths:zero-weight-cycle:error", format!("'{}': {}", t.name, v["error"]));
    }
    // the same tiny graph is rebuilt here only to learn the ids (ids are assigned sequentially from 1)
    let (_, nodes, eids) = build(t);
    if (v["total"].as_f64().unwrap_or(-1.0) - t.optimum as f64).abs() > 1e-9 {
        ctx.fail("find_all_weighted_paths:zero-weight-cycle:not-optimal", format!("'{}': total {} expected {}", t.name, v["total"], t.optimum))?;
    }
    let paths = v["paths"].as_array().cloned().unwrap_or_default();
    if paths.is_empty() {
        ctx.fail("find_all_weighted_paths:zero-weight-cycle:empty", format!("'{}': no path returned", t.name))?;
    }
    for p in &paths {
        let ns: Vec<u64> = p["nodes"].as_array().map(|a| a.iter().filter_map(Value::as_u64).collect()).unwrap_or_default();
        let es: Vec<u64> = p["edges"].as_array().map(|a| a.iter().filter_map(Value::as_u64).collect()).unwrap_or_default();
        let mut ok = ns.len() == es.len() + 1 && ns.first() == Some(&nodes[0]) && ns.last() == Some(&nodes[t.n - 1]);
        let mut sum = 0i64;
        if ok {
            for i in 0..es.len() {
                match eids.iter().find(|(id, _)| *id == es[i]) {
                    None => ok = false,
                    Some((_, k)) => {
                        let (a, b, w, d) = t.edges[*k];
                        let fwd = nodes[a] == ns[i] && nodes[b] == ns[i + 1];
                        let rev = !d && nodes[b] == ns[i] && nodes[a] == ns[i + 1];
                        ok &= fwd || rev;
                        sum += w;
                    },
                }
            }
        }
        if !ok || sum != t.optimum {
            ctx.fail("find_all_weighted_paths:zero-weight-cycle:invalid-path", format!("'{}': returned {p} (edge sum {sum}, optimum {})", t.name, t.optimum))?;
        }
    }
    Ok(())
}

pub fn part() -> CustomPart {
    CustomPart {
        name: "zero_cycle",
        run: Box::new(|cfg, findings: &Findings, stats| {
            let results: Vec<(usize, Result<(), Fail>, Vec<String>)> = std::thread::scope(|sc| {
                let hs: Vec<_> = (0..CASES.len())
                    .map(|i| {
                        sc.spawn(move || {
                            let mut ctx = CaseCtx::new(findings, false);
                            let r = check(i, &mut ctx);
                            let known: Vec<String> =
                                if ctx.known_hit() { vec!["find_all_weighted_paths:zero-weight-cycle:does-not-terminate".to_string()] } else { Vec::new() };
                            (i, r, known)
                        })
                    })
                    .collect();
                hs.into_iter().map(|h| h.join().expect("zero_cycle worker")).collect()
            });
            let mut violation = None;
            for (i, r, known) in results {
                stats.evaluations += 1;
                stats.label(if CASES[i].zero_cycle { "zero-weight cycle on the optimal path" } else { "control (no zero cycle)" });
                if CASES[i].zero_cycle {
                    stats.nontrivial.insert(nv_engine::fnv64(CASES[i].name.as_bytes()));
                    stats.sample(json!({"case": i, "name": CASES[i].name, "edges(from,to,w,directed)": format!("{:?}", CASES[i].edges)}));
                }
                for k in known {
                    stats.excluded(&k);
                }
                if let (Err(f), None) = (r, &violation) {
                    let path = nv_engine::runner::write_replay(cfg, "zero_cycle", &f, &json!({ "case": i }));
                    violation = Some(Violation { part: "zero_cycle".into(), sig: f.sig, msg: f.msg, replay: path });
                }
            }
            stats.exhaustive = false;
            violation
        }),
        replay: Box::new(|case, findings, strict| {
            let i = case["case"].as_u64().unwrap_or(0) as usize;
            if i >= CASES.len() {
                return Err(Fail::new("replay-format", "case index out of range"));
            }
            let mut ctx = CaseCtx::new(findings, strict);
            check(i, &mut ctx)
        }),
    }
}
