//! C18 — Path queries return real, optimal paths.
//!
//! Parts:
//!  * `paths`  random multigraphs (1..24 nodes, directed/undirected mixed, self-loops, parallel edges, two edge
//!             types, weights missing/0/1/equal/large/Int/Float, a boolean property for filters, optional
//!             deletes/weight updates before the queries) and 12..24 queries each: find_path,
//!             find_weighted_path, find_all_paths, find_all_weighted_paths, find_variable_paths, traverse,
//!             neighbors, astar_path, match_pattern with a variable-length edge — each checked with validity predicates against independent reference
//!             algorithms over the model edge list (BFS, Dijkstra cross-checked with Bellman-Ford, bounded
//!             DFS enumeration).
//!  * `astar`  all-directed, densely connected graphs without deliberately parallel edges and A* queries only
//!             (most with a consistent heuristic): the input class in which none of the recorded A* defects
//!             applies, so a new A* regression is not hidden behind them.
//!  * `algos`  the same graphs through connected_components, strongly_connected_components (+ condensation),
//!             minimum_spanning_tree / _forest, kcore_decomposition, count_triangles /
//!             local_clustering_coefficient, biconnected_components (articulation points, bridges, blocks)
//!             against definition-level references (BFS labelling, Kosaraju, Prim, k-core by definition,
//!             brute-force triangles, vertex / edge removal, separation-by-a-vertex classes).
//!  * `zero_cycle` find_all_weighted_paths on graphs with a zero-weight cycle on an optimal path, in a child
//!             process under an address-space limit (the enumeration must terminate).

mod algos;
mod model;
mod paths;
mod refalg;
mod zero_cycle;

use nv_engine::{main_for, PropDef, PropPart};

fn main() {
    main_for(PropDef {
        id: "C18",
        level: "exploration",
        rule: "paths/astar: a case is a random multigraph plus 12..24 queries; non-trivial = some query whose optimal path has >= 2 hops while a longer simple path between the same endpoints (same direction/filter rules) also exists, or whose weighted optimum runs over an edge that has a parallel sibling of a different weight (for find_variable_paths and variable-length match_pattern: the result holds paths of >= 2 different lengths, one of >= 2 hops; for traverse: the depth bound cuts off reachable nodes and >= 2 levels are returned). algos: non-trivial = the graph has >= 2 connected components and at least one edge. distinct = distinct generated case (hash of its JSON).",
        assumptions: vec![
            "weights are non-negative and exactly representable (multiples of 0.5, or of 0.1 below 3.0), so equal-cost ties are exact; negative, NaN and infinite weights are outside the documented domain",
            "a missing weight property counts as 1.0 for find_weighted_path / find_all_weighted_paths (documented) and as the configured default_weight for astar_path / minimum_spanning_tree",
            "undirected edges can be walked both ways under every direction setting; a directed edge can be walked forwards under Outgoing, backwards under Incoming, both ways under Both (documented for traverse/neighbors/find_variable_paths); find_path, find_weighted_path and find_all_paths have no direction parameter and are held to Outgoing, as the book documents",
            "node conditions of a TraversalFilter: start and end node are exempt (documented in the code); where the documentation leaves a corner open (traverse expanding through rejected nodes; a variable-length walk passing through its own end node) both readings are accepted (subset/superset sandwich)",
            "find_all_paths / find_all_weighted_paths / find_variable_paths: when a configured cap (max_paths, max_parents_per_node) can bind, only validity of the returned paths is checked",
            "find_all_weighted_paths is not called from part paths when a zero-weight cycle lies on an optimal path (the set of optimal walks is infinite); part zero_cycle covers that input in a child process",
            "match_pattern: only the paths bound to a variable-length edge variable are compared (simple paths from the pinned start node, hop bounds, edge type/condition, end-node pattern); the match limit is not asserted",
            "the product enumerates nodes through a randomly seeded HashSet, so results of order-dependent algorithms (biconnected_components) can differ between two runs on the same input; evaluations and class counts are reproducible, the hit counts of the two biconnected findings can differ by a few",
            "triangles are checked with TriangleConfig::undirected() only; articulation points, bridges, blocks, k-core and triangles are defined on the underlying simple undirected graph without self-loops, bridges additionally respect edge multiplicity",
        ],
        parts: vec![
            PropPart::new("paths", 24_000, 1_000_000, model::path_case_strategy, paths::check_case).shrink_iters(40_000).boxed(),
            PropPart::new("astar", 8_000, 300_000, model::astar_case_strategy, paths::check_case).shrink_iters(40_000).boxed(),
            PropPart::new("algos", 12_000, 500_000, model::algo_case_strategy, algos::check_case).shrink_iters(40_000).boxed(),
            Box::new(zero_cycle::part()),
        ],
        children: vec![("zero_cycle", Box::new(zero_cycle::child))],
    });
}
