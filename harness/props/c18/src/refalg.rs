//! Independent reference algorithms over the model edge list. Nothing here calls into graph_engine.
//! Nodes are addressed by their index in `Model::nodes` (ascending id order).

use crate::model::{MEdge, Model};
use std::collections::{BTreeMap, BTreeSet, VecDeque};

#[derive(Clone, Copy, Debug, PartialEq, Eq)]
pub enum Dir {
    Out,
    In,
    Both,
}

pub fn dir_of(d: u8) -> Dir {
    match d % 3 {
        0 => Dir::Out,
        1 => Dir::In,
        _ => Dir::Both,
    }
}

/// One usable step u -> `to` over edge `e` (index into `Model::edges`) with weight `w` (units).
#[derive(Clone, Copy, Debug)]
pub struct Arc {
    pub to: usize,
    pub e: usize,
    pub w: i64,
    /// the step follows a directed edge against its direction (only produced for `Dir::In`/`Dir::Both`)
    pub backward: bool,
}

pub type Adj = Vec<Vec<Arc>>;

/// Adjacency under a direction rule and an edge predicate.
/// Out: directed edges from -> to, undirected edges both ways. In: directed edges to -> from, undirected both
/// ways. Both: every incident edge. A self-loop yields one step.
pub fn adjacency(m: &Model, dir: Dir, edge_ok: &dyn Fn(&MEdge) -> bool, default_units: i64) -> Adj {
    let mut adj: Adj = vec![Vec::new(); m.nodes.len()];
    for (k, e) in m.edges.iter().enumerate() {
        if !edge_ok(e) {
            continue;
        }
        let (Some(a), Some(b)) = (m.idx(e.from), m.idx(e.to)) else {
            continue;
        };
        let w = e.w.units(m.scale, default_units);
        let fwd = Arc { to: b, e: k, w, backward: false };
        let rev = Arc { to: a, e: k, w, backward: e.directed };
        if a == b {
            adj[a].push(fwd);
            continue;
        }
        if !e.directed {
            adj[a].push(fwd);
            adj[b].push(rev);
        } else {
            match dir {
                Dir::Out => adj[a].push(fwd),
                Dir::In => adj[b].push(rev),
                Dir::Both => {
                    adj[a].push(fwd);
                    adj[b].push(rev);
                },
            }
        }
    }
    adj
}

/// Hop distances from `s`. A node other than `s` may be entered only if `enter(v)`; `t` (if given) may always
/// be entered. Nodes are expanded only if they were entered.
pub fn bfs(adj: &Adj, s: usize, enter: &dyn Fn(usize) -> bool, t: Option<usize>) -> Vec<Option<usize>> {
    let mut dist = vec![None; adj.len()];
    dist[s] = Some(0);
    let mut q = VecDeque::new();
    q.push_back(s);
    while let Some(u) = q.pop_front() {
        let du = dist[u].unwrap();
        for a in &adj[u] {
            if dist[a.to].is_none() && (Some(a.to) == t || enter(a.to)) {
                dist[a.to] = Some(du + 1);
                q.push_back(a.to);
            }
        }
    }
    dist
}

/// Dijkstra without a heap (O(n^2)), cross-checked against Bellman-Ford; weights are non-negative integers.
pub fn shortest_weights(adj: &Adj, s: usize) -> Vec<Option<i64>> {
    let n = adj.len();
    let mut dist: Vec<Option<i64>> = vec![None; n];
    let mut done = vec![false; n];
    dist[s] = Some(0);
    loop {
        let mut best: Option<(i64, usize)> = None;
        for v in 0..n {
            if !done[v] {
                if let Some(d) = dist[v] {
                    if best.map_or(true, |(bd, _)| d < bd) {
                        best = Some((d, v));
                    }
                }
            }
        }
        let Some((d, u)) = best else { break };
        done[u] = true;
        for a in &adj[u] {
            let nd = d + a.w;
            if dist[a.to].map_or(true, |old| nd < old) {
                dist[a.to] = Some(nd);
            }
        }
    }
    // Bellman-Ford cross-check of the oracle itself
    let mut bf: Vec<Option<i64>> = vec![None; n];
    bf[s] = Some(0);
    for _ in 0..n {
        let mut changed = false;
        for u in 0..n {
            if let Some(d) = bf[u] {
                for a in &adj[u] {
                    let nd = d + a.w;
                    if bf[a.to].map_or(true, |old| nd < old) {
                        bf[a.to] = Some(nd);
                        changed = true;
                    }
                }
            }
        }
        if !changed {
            break;
        }
    }
    assert!(bf == dist, "oracle self-check: Dijkstra and Bellman-Ford disagree");
    dist
}

pub type NodeEdgePath = (Vec<usize>, Vec<usize>);

/// All s->t paths that only use arcs with `tight(u, arc)`; the tight sub-graph must be acyclic on the part
/// explored (true for BFS levels; for weights the caller checks `tight_cycle_before` first).
/// Returns None when more than `cap` paths exist.
pub fn enumerate_tight(adj: &Adj, s: usize, t: usize, tight: &dyn Fn(usize, &Arc) -> bool, cap: usize) -> Option<Vec<NodeEdgePath>> {
    // which nodes can reach t through tight arcs (avoid exploring dead ends)
    let n = adj.len();
    let mut radj: Vec<Vec<usize>> = vec![Vec::new(); n];
    for u in 0..n {
        for a in &adj[u] {
            if tight(u, a) {
                radj[a.to].push(u);
            }
        }
    }
    let mut can = vec![false; n];
    can[t] = true;
    let mut st = vec![t];
    while let Some(v) = st.pop() {
        for &u in &radj[v] {
            if !can[u] {
                can[u] = true;
                st.push(u);
            }
        }
    }
    if !can[s] {
        return Some(Vec::new());
    }
    let mut out = Vec::new();
    let mut nodes = vec![s];
    let mut edges = Vec::new();
    fn rec(
        adj: &Adj,
        u: usize,
        t: usize,
        tight: &dyn Fn(usize, &Arc) -> bool,
        can: &[bool],
        nodes: &mut Vec<usize>,
        edges: &mut Vec<usize>,
        out: &mut Vec<NodeEdgePath>,
        cap: usize,
    ) -> bool {
        if u == t {
            if out.len() >= cap {
                return false;
            }
            out.push((nodes.clone(), edges.clone()));
            return true;
        }
        for a in &adj[u] {
            if tight(u, a) && can[a.to] {
                nodes.push(a.to);
                edges.push(a.e);
                let ok = rec(adj, a.to, t, tight, can, nodes, edges, out, cap);
                nodes.pop();
                edges.pop();
                if !ok {
                    return false;
                }
            }
        }
        true
    }
    if rec(adj, s, t, tight, &can, &mut nodes, &mut edges, &mut out, cap) {
        Some(out)
    } else {
        None
    }
}

/// Does the tight sub-graph restricted to nodes that can reach `t` contain a cycle (or tight self-loop)?
pub fn tight_cycle_before(adj: &Adj, t: usize, tight: &dyn Fn(usize, &Arc) -> bool) -> bool {
    let n = adj.len();
    let mut radj: Vec<Vec<usize>> = vec![Vec::new(); n];
    for u in 0..n {
        for a in &adj[u] {
            if tight(u, a) {
                radj[a.to].push(u);
            }
        }
    }
    let mut can = vec![false; n];
    can[t] = true;
    let mut st = vec![t];
    while let Some(v) = st.pop() {
        for &u in &radj[v] {
            if !can[u] {
                can[u] = true;
                st.push(u);
            }
        }
    }
    // Kahn on the induced sub-graph
    let mut indeg = vec![0usize; n];
    let mut cnt = 0usize;
    for u in 0..n {
        if can[u] {
            cnt += 1;
            for a in &adj[u] {
                if tight(u, a) && can[a.to] {
                    indeg[a.to] += 1;
                }
            }
        }
    }
    let mut q: Vec<usize> = (0..n).filter(|&u| can[u] && indeg[u] == 0).collect();
    let mut seen = 0usize;
    while let Some(u) = q.pop() {
        seen += 1;
        for a in &adj[u] {
            if tight(u, a) && can[a.to] {
                indeg[a.to] -= 1;
                if indeg[a.to] == 0 {
                    q.push(a.to);
                }
            }
        }
    }
    seen != cnt
}

/// Walk enumeration for variable-length paths.
pub struct Walks {
    /// (nodes, edges, strict) — strict = every interior node passes the node condition
    pub found: Vec<(Vec<usize>, Vec<usize>, bool)>,
    /// the expansion budget was exhausted; `found` is incomplete
    pub exhausted: bool,
}

/// All walks from s to t with max(lo,1)..=hi hops (the zero-hop path is the caller's business).
/// Lenient rule: interior nodes other than s and t must pass `node_ok`; `strict` records whether *all* interior
/// nodes pass. Without `cycles` no node repeats (s counts as visited).
#[allow(clippy::too_many_arguments)]
pub fn walks(adj: &Adj, s: usize, t: usize, lo: usize, hi: usize, cycles: bool, node_ok: &dyn Fn(usize) -> bool, budget: usize) -> Walks {
    struct St<'a> {
        adj: &'a Adj,
        s: usize,
        t: usize,
        lo: usize,
        hi: usize,
        cycles: bool,
        node_ok: &'a dyn Fn(usize) -> bool,
        budget: usize,
        used: usize,
        nodes: Vec<usize>,
        edges: Vec<usize>,
        visited: Vec<bool>,
        out: Walks,
    }
    fn rec(st: &mut St, u: usize, strict: bool) {
        if st.used >= st.budget {
            st.out.exhausted = true;
            return;
        }
        st.used += 1;
        for i in 0..st.adj[u].len() {
            let a = st.adj[u][i];
            let v = a.to;
            if !st.cycles && st.visited[v] {
                continue;
            }
            let exempt = v == st.s || v == st.t;
            let passes = (st.node_ok)(v);
            if !exempt && !passes {
                continue;
            }
            st.nodes.push(v);
            st.edges.push(a.e);
            if !st.cycles {
                st.visited[v] = true;
            }
            let depth = st.edges.len();
            if depth >= st.lo && v == st.t {
                st.out.found.push((st.nodes.clone(), st.edges.clone(), strict));
            }
            if depth < st.hi {
                // continuing through v makes it an interior node
                rec(st, v, strict && passes);
            }
            st.nodes.pop();
            st.edges.pop();
            if !st.cycles {
                st.visited[v] = false;
            }
        }
    }
    let mut st = St {
        adj,
        s,
        t,
        lo: lo.max(1),
        hi,
        cycles,
        node_ok,
        budget,
        used: 0,
        nodes: vec![s],
        edges: Vec::new(),
        visited: vec![false; adj.len()],
        out: Walks { found: Vec::new(), exhausted: false },
    };
    if !cycles {
        st.visited[s] = true;
    }
    if hi >= 1 && hi >= st.lo {
        rec(&mut st, s, true);
    }
    st.out
}

/// All simple paths (no node repeats, `s` counts as visited) that start at `s` and have max(lo,1)..=hi hops,
/// whatever their end node. None when the expansion budget is exhausted.
pub fn simple_paths_from(adj: &Adj, s: usize, lo: usize, hi: usize, budget: usize) -> Option<Vec<NodeEdgePath>> {
    struct St<'a> {
        adj: &'a Adj,
        lo: usize,
        hi: usize,
        budget: usize,
        used: usize,
        nodes: Vec<usize>,
        edges: Vec<usize>,
        visited: Vec<bool>,
        out: Vec<NodeEdgePath>,
    }
    fn rec(st: &mut St, u: usize) -> bool {
        if st.used >= st.budget {
            return false;
        }
        st.used += 1;
        for i in 0..st.adj[u].len() {
            let a = st.adj[u][i];
            if st.visited[a.to] {
                continue;
            }
            st.nodes.push(a.to);
            st.edges.push(a.e);
            st.visited[a.to] = true;
            let depth = st.edges.len();
            if depth >= st.lo {
                st.out.push((st.nodes.clone(), st.edges.clone()));
            }
            let ok = depth >= st.hi || rec(st, a.to);
            st.nodes.pop();
            st.edges.pop();
            st.visited[a.to] = false;
            if !ok {
                return false;
            }
        }
        true
    }
    let mut st = St { adj, lo: lo.max(1), hi, budget, used: 0, nodes: vec![s], edges: Vec::new(), visited: vec![false; adj.len()], out: Vec::new() };
    st.visited[s] = true;
    if hi >= 1 && hi >= st.lo && !rec(&mut st, s) {
        return None;
    }
    Some(st.out)
}

/// Is there a simple s->t path with more than `more_than` hops? Budgeted DFS; None = undecided.
pub fn longer_simple_path_exists(adj: &Adj, s: usize, t: usize, more_than: usize, enter: &dyn Fn(usize) -> bool, budget: usize) -> Option<bool> {
    // prune with reachability to t
    let n = adj.len();
    let mut radj: Vec<Vec<usize>> = vec![Vec::new(); n];
    for u in 0..n {
        for a in &adj[u] {
            radj[a.to].push(u);
        }
    }
    let mut can = vec![false; n];
    can[t] = true;
    let mut stack = vec![t];
    while let Some(v) = stack.pop() {
        for &u in &radj[v] {
            if !can[u] && (u == s || enter(u)) {
                can[u] = true;
                stack.push(u);
            }
        }
    }
    if !can[s] {
        return Some(false);
    }
    struct St<'a> {
        adj: &'a Adj,
        t: usize,
        more_than: usize,
        enter: &'a dyn Fn(usize) -> bool,
        can: Vec<bool>,
        visited: Vec<bool>,
        used: usize,
        budget: usize,
    }
    fn rec(st: &mut St, u: usize, depth: usize) -> Option<bool> {
        if u == st.t {
            return Some(depth > st.more_than);
        }
        if st.used >= st.budget {
            return None;
        }
        st.used += 1;
        let mut undecided = false;
        for i in 0..st.adj[u].len() {
            let v = st.adj[u][i].to;
            if st.visited[v] || !st.can[v] || !(v == st.t || (st.enter)(v)) {
                continue;
            }
            st.visited[v] = true;
            let r = rec(st, v, depth + 1);
            st.visited[v] = false;
            match r {
                Some(true) => return Some(true),
                None => undecided = true,
                Some(false) => {},
            }
        }
        if undecided {
            None
        } else {
            Some(false)
        }
    }
    let mut st = St { adj, t, more_than, enter, can, visited: vec![false; n], used: 0, budget };
    st.visited[s] = true;
    rec(&mut st, s, 0)
}

// ------------------------------------------------------------------ whole-graph references

/// Component label per node for an undirected simple view: label = smallest index in the component.
pub fn components(n: usize, und: &[BTreeSet<usize>], removed: Option<usize>) -> Vec<Option<usize>> {
    let mut lab: Vec<Option<usize>> = vec![None; n];
    for s in 0..n {
        if Some(s) == removed || lab[s].is_some() {
            continue;
        }
        lab[s] = Some(s);
        let mut q = VecDeque::new();
        q.push_back(s);
        while let Some(u) = q.pop_front() {
            for &v in &und[u] {
                if Some(v) != removed && lab[v].is_none() {
                    lab[v] = Some(s);
                    q.push_back(v);
                }
            }
        }
    }
    lab
}

pub fn count_components(lab: &[Option<usize>]) -> usize {
    lab.iter().flatten().collect::<BTreeSet<_>>().len()
}

/// Simple undirected neighbour sets (no self-loops, parallel edges collapsed).
pub fn undirected_simple(m: &Model, edge_ok: &dyn Fn(&MEdge) -> bool) -> Vec<BTreeSet<usize>> {
    let mut und = vec![BTreeSet::new(); m.nodes.len()];
    for e in &m.edges {
        if !edge_ok(e) {
            continue;
        }
        if let (Some(a), Some(b)) = (m.idx(e.from), m.idx(e.to)) {
            if a != b {
                und[a].insert(b);
                und[b].insert(a);
            }
        }
    }
    und
}

/// Kosaraju: SCC label per node (label = order of discovery in the second pass).
pub fn kosaraju(adj: &Adj) -> Vec<usize> {
    let n = adj.len();
    let mut order = Vec::with_capacity(n);
    let mut seen = vec![false; n];
    for s in 0..n {
        if seen[s] {
            continue;
        }
        // iterative post-order
        let mut st: Vec<(usize, usize)> = vec![(s, 0)];
        seen[s] = true;
        while let Some((u, i)) = st.pop() {
            if i < adj[u].len() {
                st.push((u, i + 1));
                let v = adj[u][i].to;
                if !seen[v] {
                    seen[v] = true;
                    st.push((v, 0));
                }
            } else {
                order.push(u);
            }
        }
    }
    let mut radj: Vec<Vec<usize>> = vec![Vec::new(); n];
    for u in 0..n {
        for a in &adj[u] {
            radj[a.to].push(u);
        }
    }
    let mut lab = vec![usize::MAX; n];
    let mut c = 0;
    for &s in order.iter().rev() {
        if lab[s] != usize::MAX {
            continue;
        }
        lab[s] = c;
        let mut st = vec![s];
        while let Some(u) = st.pop() {
            for &v in &radj[u] {
                if lab[v] == usize::MAX {
                    lab[v] = c;
                    st.push(v);
                }
            }
        }
        c += 1;
    }
    lab
}

/// Prim per component on the cheapest edge between each node pair; returns the total weight (units) of a
/// minimum spanning forest.
pub fn prim_forest_weight(n: usize, m: &Model, default_units: i64) -> i64 {
    let mut best: BTreeMap<(usize, usize), i64> = BTreeMap::new();
    for e in &m.edges {
        if let (Some(a), Some(b)) = (m.idx(e.from), m.idx(e.to)) {
            if a != b {
                let k = (a.min(b), a.max(b));
                let w = e.w.units(m.scale, default_units);
                let en = best.entry(k).or_insert(w);
                if w < *en {
                    *en = w;
                }
            }
        }
    }
    let wt = |a: usize, b: usize| best.get(&(a.min(b), a.max(b))).copied();
    let mut in_tree = vec![false; n];
    let mut total = 0i64;
    for root in 0..n {
        if in_tree[root] {
            continue;
        }
        in_tree[root] = true;
        let mut key: Vec<Option<i64>> = (0..n).map(|v| if in_tree[v] { None } else { wt(root, v) }).collect();
        loop {
            let mut pick: Option<(i64, usize)> = None;
            for v in 0..n {
                if !in_tree[v] {
                    if let Some(k) = key[v] {
                        if pick.map_or(true, |(pk, _)| k < pk) {
                            pick = Some((k, v));
                        }
                    }
                }
            }
            let Some((k, v)) = pick else { break };
            in_tree[v] = true;
            total += k;
            for x in 0..n {
                if !in_tree[x] {
                    if let Some(w) = wt(v, x) {
                        if key[x].map_or(true, |old| w < old) {
                            key[x] = Some(w);
                        }
                    }
                }
            }
        }
    }
    total
}

/// Core numbers straight from the definition: v is in the k-core iff it survives repeatedly deleting nodes of
/// degree < k.
pub fn core_numbers(und: &[BTreeSet<usize>]) -> Vec<usize> {
    let n = und.len();
    let mut core = vec![0usize; n];
    let maxdeg = und.iter().map(|s| s.len()).max().unwrap_or(0);
    for k in 1..=maxdeg {
        let mut alive = vec![true; n];
        loop {
            let mut changed = false;
            for v in 0..n {
                if alive[v] && und[v].iter().filter(|&&x| alive[x]).count() < k {
                    alive[v] = false;
                    changed = true;
                }
            }
            if !changed {
                break;
            }
        }
        for v in 0..n {
            if alive[v] {
                core[v] = k;
            }
        }
    }
    core
}

/// Brute-force triangles on the simple undirected view: total and per node.
pub fn triangles(und: &[BTreeSet<usize>]) -> (usize, Vec<usize>) {
    let n = und.len();
    let mut per = vec![0usize; n];
    let mut total = 0;
    for a in 0..n {
        for b in a + 1..n {
            if !und[a].contains(&b) {
                continue;
            }
            for c in b + 1..n {
                if und[a].contains(&c) && und[b].contains(&c) {
                    total += 1;
                    per[a] += 1;
                    per[b] += 1;
                    per[c] += 1;
                }
            }
        }
    }
    (total, per)
}

/// Articulation points by vertex removal.
pub fn articulation_points(und: &[BTreeSet<usize>]) -> BTreeSet<usize> {
    let n = und.len();
    let base = count_components(&components(n, und, None));
    let mut out = BTreeSet::new();
    for v in 0..n {
        // removing v removes one node; it is a cut vertex iff the remaining nodes fall into more components
        // than before (an isolated v lowers the count by one, never raises it)
        let c = count_components(&components(n, und, Some(v)));
        if c > base {
            out.insert(v);
        }
    }
    out
}

/// Blocks (biconnected components) as a partition of the simple edge set: two edges are in the same block iff
/// no single vertex separates them. Key of an edge = for every vertex v the component (in G - v) of an endpoint
/// that survives.
pub fn blocks(und: &[BTreeSet<usize>]) -> BTreeMap<Vec<usize>, BTreeSet<(usize, usize)>> {
    let n = und.len();
    let labs: Vec<Vec<Option<usize>>> = (0..n).map(|v| components(n, und, Some(v))).collect();
    let mut out: BTreeMap<Vec<usize>, BTreeSet<(usize, usize)>> = BTreeMap::new();
    for a in 0..n {
        for &b in &und[a] {
            if a < b {
                let key: Vec<usize> = (0..n)
                    .map(|v| {
                        let end = if v == a { b } else { a };
                        labs[v][end].unwrap_or(usize::MAX)
                    })
                    .collect();
                out.entry(key).or_default().insert((a, b));
            }
        }
    }
    out
}
