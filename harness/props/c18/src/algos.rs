//! Part `algos`: component, SCC, spanning-tree, core-number, triangle and biconnectivity algorithms against
//! their textbook definitions computed independently on the model.

use crate::model::*;
use crate::paths::{graph_labels, ty_ok, ty_opt};
use crate::refalg::{self, Dir};
use graph_engine::algorithms::{BiconnectedConfig, KCoreConfig, MstConfig, SccConfig, TriangleConfig};
use graph_engine::{CommunityConfig, GraphEngine};
use nv_engine::{pick, CaseCtx, Fail};
use std::collections::{BTreeMap, BTreeSet};

fn close_f(a: f64, b: f64) -> bool {
    (a - b).abs() <= 1e-9 * b.abs().max(1.0)
}

/// Canonical form of a partition given as node -> label: node -> smallest node of its class.
fn canon<L: Ord + Copy>(labels: &BTreeMap<u64, L>) -> BTreeMap<u64, u64> {
    let mut least: BTreeMap<L, u64> = BTreeMap::new();
    for (n, l) in labels {
        let e = least.entry(*l).or_insert(*n);
        if *n < *e {
            *e = *n;
        }
    }
    labels.iter().map(|(n, l)| (*n, least[l])).collect()
}

pub fn check_case(c: &AlgoCase, ctx: &mut CaseCtx) -> Result<(), Fail> {
    let (eng, m) = build(&c.g, ctx)?;
    graph_labels(&m, ctx);
    let n = m.nodes.len();
    let und_all = refalg::undirected_simple(&m, &|_| true);
    let comps_all = refalg::count_components(&refalg::components(n, &und_all, None));
    if comps_all >= 2 && !m.edges.is_empty() {
        ctx.set_nontrivial();
    }
    if c.ty % 3 != 0 {
        ctx.label("algos: restricted to one edge type");
    }
    components(&eng, &m, c.ty, ctx)?;
    scc(&eng, &m, c.ty, ctx)?;
    mst(&eng, &m, c.defw, c.forest, ctx)?;
    kcore(&eng, &m, c.ty, ctx)?;
    triangles(&eng, &m, c.ty, c.probe, ctx)?;
    // the product enumerates nodes through a randomly seeded HashSet, so the DFS root order of
    // biconnected_components differs from call to call; a correct result does not depend on it. Three calls
    // make an order-dependent wrong answer (and its replay) much more likely to show.
    for _ in 0..3 {
        biconnected(&eng, &m, c.ty, ctx)?;
    }
    Ok(())
}

fn key_check(api: &str, m: &Model, keys: BTreeSet<u64>, ctx: &mut CaseCtx) -> Result<bool, Fail> {
    let want: BTreeSet<u64> = m.nodes.iter().copied().collect();
    if keys != want {
        ctx.fail(format!("{api}:node-set"), format!("{api} covers nodes {keys:?}, the graph has {want:?}"))?;
        return Ok(false);
    }
    Ok(true)
}

fn components(eng: &GraphEngine, m: &Model, ty: u8, ctx: &mut CaseCtx) -> Result<(), Fail> {
    let cfg = ty_opt(ty).map(|t| CommunityConfig::new().edge_type(t));
    let r = match eng.connected_components(cfg) {
        Ok(r) => r,
        Err(e) => return ctx.fail("components:unexpected-error", format!("connected_components = Err({e})")),
    };
    let n = m.nodes.len();
    let und = refalg::undirected_simple(m, &|e| ty_ok(e, ty));
    let lab = refalg::components(n, &und, None);
    let want: BTreeMap<u64, u64> = (0..n).map(|v| (m.nodes[v], m.nodes[lab[v].unwrap()])).collect();
    let got: BTreeMap<u64, u64> = r.communities.iter().map(|(k, v)| (*k, *v)).collect();
    if !key_check("connected_components", m, got.keys().copied().collect(), ctx)? {
        return Ok(());
    }
    if canon(&got) != canon(&want) {
        ctx.fail(
            "components:partition",
            format!("connected_components(type {:?}) partition {:?} differs from the weakly connected components {:?}", ty_opt(ty), canon(&got), canon(&want)),
        )?;
    }
    let count = refalg::count_components(&lab);
    if r.community_count != count {
        ctx.fail("components:count", format!("connected_components reports {} components, there are {count}", r.community_count))?;
    }
    let mut from_members: BTreeMap<u64, u64> = BTreeMap::new();
    for (root, list) in &r.members {
        for x in list {
            if from_members.insert(*x, *root).is_some() {
                ctx.fail("components:members", format!("node {x} is listed in two member lists"))?;
            }
        }
    }
    if from_members != got {
        ctx.fail("components:members", format!("members {from_members:?} disagree with communities {got:?}"))?;
    }
    if count >= 2 {
        ctx.label("components: >=2");
    }
    Ok(())
}

fn scc(eng: &GraphEngine, m: &Model, ty: u8, ctx: &mut CaseCtx) -> Result<(), Fail> {
    let mut cfg = SccConfig::new().with_condensation();
    if let Some(t) = ty_opt(ty) {
        cfg = cfg.edge_type(t);
    }
    let r = match eng.strongly_connected_components(&cfg) {
        Ok(r) => r,
        Err(e) => return ctx.fail("scc:unexpected-error", format!("strongly_connected_components = Err({e})")),
    };
    let n = m.nodes.len();
    let adj = refalg::adjacency(m, Dir::Out, &|e| ty_ok(e, ty), m.scale);
    let lab = refalg::kosaraju(&adj);
    let want: BTreeMap<u64, usize> = (0..n).map(|v| (m.nodes[v], lab[v])).collect();
    let got: BTreeMap<u64, usize> = r.components.iter().map(|(k, v)| (*k, *v)).collect();
    if !key_check("strongly_connected_components", m, got.keys().copied().collect(), ctx)? {
        return Ok(());
    }
    if canon(&got) != canon(&want) {
        ctx.fail(
            "scc:partition",
            format!("strongly_connected_components(type {:?}) partition {:?} differs from Kosaraju's {:?}", ty_opt(ty), canon(&got), canon(&want)),
        )?;
        return Ok(());
    }
    let count = lab.iter().collect::<BTreeSet<_>>().len();
    if r.component_count != count || r.members.len() != count {
        ctx.fail("scc:count", format!("component_count {} / members {} but there are {count} SCCs", r.component_count, r.members.len()))?;
        return Ok(());
    }
    for (i, mem) in r.members.iter().enumerate() {
        let a: BTreeSet<u64> = mem.iter().copied().collect();
        let b: BTreeSet<u64> = got.iter().filter(|(_, c)| **c == i).map(|(k, _)| *k).collect();
        if a != b || a.len() != mem.len() {
            ctx.fail("scc:members", format!("members[{i}] = {mem:?} but components maps {b:?} to {i}"))?;
        }
    }
    // condensation
    let mut want_edges: BTreeSet<(usize, usize)> = BTreeSet::new();
    for u in 0..n {
        for a in &adj[u] {
            let (cu, cv) = (got[&m.nodes[u]], got[&m.nodes[a.to]]);
            if cu != cv {
                want_edges.insert((cu, cv));
            }
        }
    }
    let got_edges: BTreeSet<(usize, usize)> = r.condensation_edges.iter().copied().collect();
    if got_edges != want_edges || got_edges.len() != r.condensation_edges.len() {
        ctx.fail("scc:condensation", format!("condensation edges {:?}, expected {want_edges:?}", r.condensation_edges))?;
    }
    let mut pos = vec![usize::MAX; count];
    for (i, c) in r.topological_order.iter().enumerate() {
        if *c >= count || pos[*c] != usize::MAX {
            ctx.fail("scc:topological-order", format!("topological_order {:?} is not a permutation of 0..{count}", r.topological_order))?;
            return Ok(());
        }
        pos[*c] = i;
    }
    if r.topological_order.len() != count {
        ctx.fail("scc:topological-order", format!("topological_order {:?} misses components (count {count})", r.topological_order))?;
        return Ok(());
    }
    for (a, b) in &want_edges {
        if pos[*a] >= pos[*b] {
            ctx.fail("scc:topological-order", format!("condensation edge {a}->{b} but order {:?}", r.topological_order))?;
        }
    }
    if count < n && count >= 2 {
        ctx.label("scc: a non-trivial SCC next to others");
    }
    Ok(())
}

fn mst(eng: &GraphEngine, m: &Model, defw: u8, forest: bool, ctx: &mut CaseCtx) -> Result<(), Fail> {
    let (dw, half) = default_weight(defw);
    let default_units = half * m.scale / 2;
    let cfg = MstConfig::new(WPROP).default_weight(dw).compute_forest(forest);
    let r = match eng.minimum_spanning_tree(&cfg) {
        Ok(r) => r,
        Err(e) => return ctx.fail("mst:unexpected-error", format!("minimum_spanning_tree = Err({e})")),
    };
    let n = m.nodes.len();
    let und = refalg::undirected_simple(m, &|_| true);
    let lab = refalg::components(n, &und, None);
    let ncomp = refalg::count_components(&lab);
    let call = format!("minimum_spanning_tree(default {dw}, forest {forest})");
    let got_nodes: BTreeSet<u64> = r.nodes.iter().copied().collect();
    if got_nodes.len() != r.nodes.len() || !key_check("minimum_spanning_tree", m, got_nodes, ctx)? {
        return ctx.fail("mst:node-set", format!("{call}: nodes {:?}", r.nodes));
    }
    check_tree_edges(m, &r.edges, default_units, &call, ctx)?;
    if r.edges.len() != n - ncomp {
        ctx.fail("mst:not-spanning", format!("{call} has {} edges; {n} nodes in {ncomp} components need {}", r.edges.len(), n - ncomp))?;
    }
    if r.tree_count != ncomp {
        ctx.fail("mst:tree-count", format!("{call} reports {} trees, the graph has {ncomp} components", r.tree_count))?;
    }
    let sum: i64 = r.edges.iter().filter_map(|e| m.edge(e.edge_id)).map(|e| e.w.units(m.scale, default_units)).sum();
    if !close_f(r.total_weight, sum as f64 / m.scale as f64) {
        ctx.fail("mst:total-mismatch", format!("{call} reports total {} but its edges sum to {}", r.total_weight, sum as f64 / m.scale as f64))?;
    }
    let best = refalg::prim_forest_weight(n, m, default_units);
    if sum != best {
        ctx.fail(
            "mst:not-minimum",
            format!("{call} weighs {} but a spanning forest of weight {} exists; edges {:?}", sum as f64 / m.scale as f64, best as f64 / m.scale as f64, r.edges),
        )?;
    }
    // minimum_spanning_forest: one result per component, default weight 1.0
    let fr = match eng.minimum_spanning_forest(WPROP) {
        Ok(r) => r,
        Err(e) => return ctx.fail("mst:unexpected-error", format!("minimum_spanning_forest = Err({e})")),
    };
    let mut seen: BTreeSet<u64> = BTreeSet::new();
    let mut total_units = 0i64;
    if fr.len() != ncomp {
        ctx.fail("msf:tree-count", format!("minimum_spanning_forest returned {} trees for {ncomp} components", fr.len()))?;
    }
    for tr in &fr {
        let ns: BTreeSet<u64> = tr.nodes.iter().copied().collect();
        let comp_labels: BTreeSet<Option<usize>> = ns.iter().map(|x| m.idx(*x).and_then(|i| lab[i])).collect();
        if ns.is_empty() || comp_labels.len() != 1 || comp_labels.contains(&None) {
            ctx.fail("msf:component", format!("minimum_spanning_forest tree with nodes {:?} is not one component", tr.nodes))?;
            continue;
        }
        for x in &ns {
            if !seen.insert(*x) {
                ctx.fail("msf:component", format!("node {x} appears in two trees"))?;
            }
        }
        check_tree_edges(m, &tr.edges, m.scale, "minimum_spanning_forest", ctx)?;
        if tr.edges.len() + 1 != ns.len() || tr.edges.iter().any(|e| !ns.contains(&e.from) || !ns.contains(&e.to)) {
            ctx.fail("msf:not-spanning", format!("tree on nodes {:?} has edges {:?}", tr.nodes, tr.edges))?;
        }
        let s: i64 = tr.edges.iter().filter_map(|e| m.edge(e.edge_id)).map(|e| e.w.units(m.scale, m.scale)).sum();
        if !close_f(tr.total_weight, s as f64 / m.scale as f64) {
            ctx.fail("msf:total-mismatch", format!("tree on {:?} reports {} but sums to {}", tr.nodes, tr.total_weight, s as f64 / m.scale as f64))?;
        }
        total_units += s;
    }
    if seen.len() != n {
        ctx.fail("msf:component", format!("minimum_spanning_forest covers {} of {n} nodes", seen.len()))?;
    }
    let best1 = refalg::prim_forest_weight(n, m, m.scale);
    if total_units != best1 {
        ctx.fail("msf:not-minimum", format!("minimum_spanning_forest weighs {} but {} is possible", total_units as f64 / m.scale as f64, best1 as f64 / m.scale as f64))?;
    }
    if r.edges.len() >= 2 {
        ctx.label("mst: >=2 tree edges");
    }
    // was there a real choice: some non-tree edge with a different weight than a tree edge
    if m.edges.len() > r.edges.len() + m.edges.iter().filter(|e| e.from == e.to).count() {
        ctx.label("mst: graph has non-tree edges (a choice was made)");
    }
    Ok(())
}

fn check_tree_edges(m: &Model, edges: &[graph_engine::algorithms::MstEdge], default_units: i64, call: &str, ctx: &mut CaseCtx) -> Result<(), Fail> {
    // every reported edge is a real edge with its real endpoints and weight, and the set is acyclic
    let mut parent: BTreeMap<u64, u64> = m.nodes.iter().map(|x| (*x, *x)).collect();
    fn find(p: &mut BTreeMap<u64, u64>, x: u64) -> u64 {
        let mut r = x;
        while p[&r] != r {
            r = p[&r];
        }
        let mut c = x;
        while p[&c] != r {
            let nx = p[&c];
            p.insert(c, r);
            c = nx;
        }
        r
    }
    let mut ids = BTreeSet::new();
    for e in edges {
        let Some(me) = m.edge(e.edge_id) else {
            ctx.fail("mst:bad-edge", format!("{call} lists edge {} which is not in the current graph", e.edge_id))?;
            continue;
        };
        if !ids.insert(e.edge_id) {
            ctx.fail("mst:bad-edge", format!("{call} lists edge {} twice", e.edge_id))?;
        }
        if (me.from, me.to) != (e.from, e.to) {
            ctx.fail("mst:bad-edge", format!("{call} lists edge {} as {}->{}; it joins {}->{}", e.edge_id, e.from, e.to, me.from, me.to))?;
            continue;
        }
        let w = me.w.units(m.scale, default_units) as f64 / m.scale as f64;
        if !close_f(e.weight, w) {
            ctx.fail("mst:bad-edge", format!("{call} lists edge {} with weight {}, it weighs {w}", e.edge_id, e.weight))?;
        }
        let (a, b) = (find(&mut parent, e.from), find(&mut parent, e.to));
        if a == b {
            ctx.fail("mst:cycle", format!("{call}: edge {} ({}-{}) closes a cycle", e.edge_id, e.from, e.to))?;
        } else {
            parent.insert(a, b);
        }
    }
    Ok(())
}

fn kcore(eng: &GraphEngine, m: &Model, ty: u8, ctx: &mut CaseCtx) -> Result<(), Fail> {
    let mut cfg = KCoreConfig::new();
    if let Some(t) = ty_opt(ty) {
        cfg = cfg.edge_type(t);
    }
    let r = match eng.kcore_decomposition(&cfg) {
        Ok(r) => r,
        Err(e) => return ctx.fail("kcore:unexpected-error", format!("kcore_decomposition = Err({e})")),
    };
    let und = refalg::undirected_simple(m, &|e| ty_ok(e, ty));
    let core = refalg::core_numbers(&und);
    let want: BTreeMap<u64, usize> = (0..m.nodes.len()).map(|v| (m.nodes[v], core[v])).collect();
    let got: BTreeMap<u64, usize> = r.core_numbers.iter().map(|(k, v)| (*k, *v)).collect();
    if !key_check("kcore_decomposition", m, got.keys().copied().collect(), ctx)? {
        return Ok(());
    }
    if got != want {
        ctx.fail("kcore:core-numbers", format!("kcore_decomposition(type {:?}) = {got:?}, by definition {want:?}", ty_opt(ty)))?;
        return Ok(());
    }
    let deg = core.iter().copied().max().unwrap_or(0);
    if r.degeneracy != deg {
        ctx.fail("kcore:degeneracy", format!("degeneracy {} but the largest core number is {deg}", r.degeneracy))?;
    }
    let mut from_cores: BTreeMap<u64, usize> = BTreeMap::new();
    for (k, list) in &r.cores {
        for x in list {
            if from_cores.insert(*x, *k).is_some() {
                ctx.fail("kcore:cores", format!("node {x} is in two shells"))?;
            }
        }
    }
    if from_cores != got {
        ctx.fail("kcore:cores", format!("cores {from_cores:?} disagree with core_numbers {got:?}"))?;
    }
    if deg >= 2 && core.iter().any(|c| *c < deg) {
        ctx.label("kcore: degeneracy >= 2 with lower shells");
    }
    Ok(())
}

fn triangles(eng: &GraphEngine, m: &Model, ty: u8, probe: u16, ctx: &mut CaseCtx) -> Result<(), Fail> {
    let mut cfg = TriangleConfig::new().undirected();
    if let Some(t) = ty_opt(ty) {
        cfg = cfg.edge_type(t);
    }
    let n = m.nodes.len();
    let und = refalg::undirected_simple(m, &|e| ty_ok(e, ty));
    let (total, per) = refalg::triangles(&und);
    if total >= 1 {
        ctx.label("triangles: >=1");
    }
    // single-node API first (independent code path in the product)
    let v = pick(probe, n);
    let possible = |v: usize| und[v].len() * und[v].len().saturating_sub(1) / 2;
    let want_local = |v: usize| if und[v].len() < 2 { 0.0 } else { per[v] as f64 / possible(v) as f64 };
    match eng.local_clustering_coefficient(m.nodes[v], &cfg) {
        Ok(c) => {
            if !close_f(c, want_local(v)) {
                ctx.fail(
                    "triangles:local-coefficient",
                    format!("local_clustering_coefficient({}) = {c}, expected {} ({} triangles, degree {})", m.nodes[v], want_local(v), per[v], und[v].len()),
                )?;
            }
        },
        Err(e) => ctx.fail("triangles:unexpected-error", format!("local_clustering_coefficient = Err({e})"))?,
    }
    let r = match eng.count_triangles(&cfg) {
        Ok(r) => r,
        Err(e) => return ctx.fail("triangles:unexpected-error", format!("count_triangles = Err({e})")),
    };
    if r.triangle_count != total {
        let sig = if r.triangle_count > total { "triangles:count:overcount" } else { "triangles:count:undercount" };
        ctx.fail(sig, format!("count_triangles(type {:?}) = {} but the graph has {total} triangles (per node {:?})", ty_opt(ty), r.triangle_count, per))?;
        return Ok(());
    }
    let want: BTreeMap<u64, usize> = (0..n).map(|v| (m.nodes[v], per[v])).collect();
    let got: BTreeMap<u64, usize> = r.node_triangles.iter().map(|(k, v)| (*k, *v)).collect();
    if got != want {
        ctx.fail("triangles:per-node", format!("node_triangles {got:?}, expected {want:?}"))?;
        return Ok(());
    }
    for v in 0..n {
        let c = r.local_clustering.get(&m.nodes[v]).copied();
        if !c.map_or(false, |c| close_f(c, want_local(v))) {
            ctx.fail("triangles:clustering", format!("local_clustering[{}] = {c:?}, expected {}", m.nodes[v], want_local(v)))?;
        }
    }
    let triplets: usize = (0..n).filter(|v| und[*v].len() >= 2).map(possible).sum();
    let want_global = if triplets > 0 { (3 * total) as f64 / triplets as f64 } else { 0.0 };
    if !close_f(r.global_clustering, want_global) {
        ctx.fail("triangles:clustering", format!("global_clustering {} expected {want_global}", r.global_clustering))?;
    }
    Ok(())
}

fn biconnected(eng: &GraphEngine, m: &Model, ty: u8, ctx: &mut CaseCtx) -> Result<(), Fail> {
    let mut cfg = BiconnectedConfig::new();
    if let Some(t) = ty_opt(ty) {
        cfg = cfg.edge_type(t);
    }
    let r = match eng.biconnected_components(&cfg) {
        Ok(r) => r,
        Err(e) => return ctx.fail("biconnected:unexpected-error", format!("biconnected_components = Err({e})")),
    };
    let n = m.nodes.len();
    let und = refalg::undirected_simple(m, &|e| ty_ok(e, ty));
    // articulation points
    let want_ap: BTreeSet<u64> = refalg::articulation_points(&und).into_iter().map(|v| m.nodes[v]).collect();
    let got_ap: BTreeSet<u64> = r.articulation_points.iter().copied().collect();
    if got_ap.len() != r.articulation_points.len() || got_ap != want_ap {
        let sig = if got_ap.is_subset(&want_ap) { "articulation:missing" } else { "articulation:extra" };
        ctx.fail(sig, format!("articulation_points(type {:?}) = {:?}, by vertex removal {want_ap:?}", ty_opt(ty), r.articulation_points))?;
    }
    if !want_ap.is_empty() {
        ctx.label("biconnected: graph has articulation points");
    }
    // bridges, multigraph aware: a pair joined by two or more edges is never a bridge
    let mut mult: BTreeMap<(usize, usize), usize> = BTreeMap::new();
    for e in &m.edges {
        if ty_ok(e, ty) {
            if let (Some(a), Some(b)) = (m.idx(e.from), m.idx(e.to)) {
                if a != b {
                    *mult.entry((a.min(b), a.max(b))).or_insert(0) += 1;
                }
            }
        }
    }
    let base = refalg::count_components(&refalg::components(n, &und, None));
    let mut simple_bridges: BTreeSet<(u64, u64)> = BTreeSet::new();
    let mut true_bridges: BTreeSet<(u64, u64)> = BTreeSet::new();
    for ((a, b), k) in &mult {
        let mut cut = und.clone();
        cut[*a].remove(b);
        cut[*b].remove(a);
        if refalg::count_components(&refalg::components(n, &cut, None)) > base {
            let pair = (m.nodes[*a].min(m.nodes[*b]), m.nodes[*a].max(m.nodes[*b]));
            simple_bridges.insert(pair);
            if *k == 1 {
                true_bridges.insert(pair);
            }
        }
    }
    let got_br: BTreeSet<(u64, u64)> = r.bridges.iter().map(|(a, b)| (*a.min(b), *a.max(b))).collect();
    if got_br.len() != r.bridges.len() {
        ctx.fail("bridges:duplicate", format!("bridges lists a pair twice: {:?}", r.bridges))?;
    }
    if got_br != true_bridges {
        let sig = if got_br == simple_bridges {
            ctx.label("bridges: pair joined by parallel edges reported as a bridge");
            "bridges:parallel-edges-reported-as-bridge"
        } else if got_br.is_subset(&simple_bridges) {
            "bridges:missing"
        } else {
            "bridges:extra"
        };
        ctx.fail(sig, format!("bridges(type {:?}) = {got_br:?}; by edge removal on the multigraph {true_bridges:?} (ignoring multiplicity {simple_bridges:?})", ty_opt(ty)))?;
    }
    if !true_bridges.is_empty() {
        ctx.label("biconnected: graph has bridges");
    }
    // blocks as a partition of the simple edge set
    let want_blocks: BTreeSet<BTreeSet<(u64, u64)>> = refalg::blocks(&und)
        .into_values()
        .map(|s| s.into_iter().map(|(a, b)| (m.nodes[a].min(m.nodes[b]), m.nodes[a].max(m.nodes[b]))).collect())
        .collect();
    let got_blocks: BTreeSet<BTreeSet<(u64, u64)>> = r.components.iter().map(|s| s.iter().copied().collect()).collect();
    if r.component_count != r.components.len() {
        ctx.fail("biconnected:count", format!("component_count {} but {} components listed", r.component_count, r.components.len()))?;
    }
    if got_blocks != want_blocks || got_blocks.len() != r.components.len() {
        let all_edges: BTreeSet<(u64, u64)> = want_blocks.iter().flatten().copied().collect();
        let got_edges: BTreeSet<(u64, u64)> = got_blocks.iter().flatten().copied().collect();
        let edge_comps = {
            let lab = refalg::components(n, &und, None);
            (0..n).filter(|v| !und[*v].is_empty()).filter_map(|v| lab[v]).collect::<BTreeSet<_>>().len()
        };
        let mut sig = String::from("biconnected:components");
        if got_edges != all_edges {
            sig.push_str(if got_edges.is_subset(&all_edges) { ":edge-missing" } else { ":edge-invented" });
        } else if edge_comps >= 2 {
            sig.push_str(":graph-disconnected");
        }
        ctx.fail(sig, format!("biconnected_components(type {:?}) = {got_blocks:?}, the blocks are {want_blocks:?}", ty_opt(ty)))?;
    }
    if want_blocks.len() >= 2 {
        ctx.label("biconnected: >=2 blocks");
    }
    Ok(())
}
