//! Case types, proptest strategies, and the construction of the system under test (a real
//! `GraphEngine`) together with the reference model (a plain edge list).

use graph_engine::{GraphEngine, PropertyValue};
use nv_engine::{pick, CaseCtx, Fail, Tier};
use proptest::prelude::*;
use serde::{Deserialize, Serialize};
use std::collections::{BTreeMap, HashMap};

pub const WPROP: &str = "w";
pub const FLAG: &str = "ok";

// ------------------------------------------------------------------ generated case

#[derive(Clone, Debug, Serialize, Deserialize)]
pub struct ESpec {
    pub a: u16,
    pub b: u16,
    /// 0 = self-loop on `a`; 1 = parallel to the previous edge; 2 = antiparallel to the previous edge;
    /// anything else = plain (a, b)
    pub kind: u8,
    pub directed: bool,
    /// edge type 0 = "A", 1 = "B"
    pub ty: u8,
    /// index into the weight palette of the graph
    pub w: u8,
    /// boolean property "ok": 0 missing, 1 true, 2 false
    pub flag: u8,
}

#[derive(Clone, Debug, Serialize, Deserialize)]
pub enum Mutn {
    DelEdge(u16),
    DelNode(u16),
    SetW(u16, u8),
}

#[derive(Clone, Debug, Serialize, Deserialize)]
pub struct GraphSpec {
    pub n: u8,
    /// per created node: boolean property "ok": 0 missing, 1 true, 2 false
    pub nflags: Vec<u8>,
    /// weight palette: 0 dyadic mixed (incl. large), 1 all edges equal, 2 decimal tenths, 3 zeros and ones
    pub wmode: u8,
    /// palette index used for every edge when wmode == 1
    pub weq: u8,
    /// 0 per-edge directed flag, 1 all directed, 2 all undirected
    pub alldir: u8,
    /// 0 random endpoints; 1 the first n-1 edges form a random spanning tree (edge k joins node k+1 to an
    /// earlier node); 2 the first n-1 edges form the chain 0-1-2-…; later edges are random
    #[serde(default)]
    pub shape: u8,
    /// true: the "parallel to the previous edge" kinds are disabled (parallel edges then only arise by chance)
    #[serde(default)]
    pub nopar: bool,
    pub edges: Vec<ESpec>,
    pub muts: Vec<Mutn>,
}

#[derive(Clone, Copy, Debug, Serialize, Deserialize, PartialEq, Eq)]
pub struct Filt {
    /// edge condition: 0 none, 1 ok == true, 2 ok != true, 3 ok == false, 4 w <= 2, 5 w > 1.0
    pub e: u8,
    /// node condition: 0 none, 1 ok == true, 2 ok != true, 3 ok == false
    pub n: u8,
}

#[derive(Clone, Debug, Serialize, Deserialize)]
pub enum Q {
    Path { s: u16, t: u16, f: Filt },
    WPath { s: u16, t: u16 },
    AllPaths { s: u16, t: u16, cap: u8 },
    AllWPaths { s: u16, t: u16, cap: u8 },
    Var { s: u16, t: u16, min: u8, max: u8, dir: u8, types: u8, cycles: bool, f: Filt, maxp: u8 },
    Trav { s: u16, dir: u8, depth: u8, ty: u8, f: Filt },
    Neigh { s: u16, dir: u8, ty: u8, f: Filt },
    AStar { s: u16, t: u16, dir: u8, ty: u8, weighted: bool, defw: u8, heur: u8, hseed: u16 },
    /// match_pattern (a {i: s})-[p:type*min..max {edge cond}]-(b): endk 0 any end node, 1 end node ok == true,
    /// 2 end node pinned to t; lim 0 default limit, 1 -> 1, 2 -> 3
    Match { s: u16, t: u16, endk: u8, min: u8, max: u8, dir: u8, ty: u8, fe: u8, lim: u8 },
    /// every (start, end) pair of a small graph (<= 8 nodes): which 0 find_path, 1 find_weighted_path,
    /// 2 find_all_paths, 3 astar_path (outgoing, weighted, no heuristic)
    Sweep { which: u8, f: Filt },
}

#[derive(Clone, Debug, Serialize, Deserialize)]
pub struct PathCase {
    pub g: GraphSpec,
    pub qs: Vec<Q>,
}

#[derive(Clone, Debug, Serialize, Deserialize)]
pub struct AlgoCase {
    pub g: GraphSpec,
    /// edge type restriction for the algorithms that accept one: 0 none, 1 "A", 2 "B"
    pub ty: u8,
    pub defw: u8,
    pub forest: bool,
    pub probe: u16,
}

// ------------------------------------------------------------------ weights

/// A weight as stored: missing, an Int, or a Float given in exact units of 1/scale.
#[derive(Clone, Copy, Debug, PartialEq, Eq)]
pub enum Wt {
    Missing,
    Int(i64),
    FloatUnits(i64),
}

pub fn scale_of(wmode: u8) -> i64 {
    match wmode {
        2 => 10,
        _ => 2,
    }
}

const PAL_DYADIC: [Wt; 14] = [
    Wt::Missing,
    Wt::Int(0),
    Wt::Int(1),
    Wt::Int(2),
    Wt::Int(3),
    Wt::Int(7),
    Wt::FloatUnits(1),         // 0.5
    Wt::FloatUnits(3),         // 1.5
    Wt::FloatUnits(5),         // 2.5
    Wt::FloatUnits(2),         // 1.0
    Wt::Int(1_000_000),        // large
    Wt::FloatUnits(2_000_001), // 1000000.5
    Wt::FloatUnits(0),         // 0.0
    Wt::Int(1),
];
const PAL_TENTHS: [Wt; 12] = [
    Wt::Missing,
    Wt::Int(0),
    Wt::Int(1),
    Wt::Int(2),
    Wt::FloatUnits(1),  // 0.1
    Wt::FloatUnits(2),  // 0.2
    Wt::FloatUnits(3),  // 0.3
    Wt::FloatUnits(7),  // 0.7
    Wt::FloatUnits(11), // 1.1
    Wt::FloatUnits(25), // 2.5
    Wt::FloatUnits(0),  // 0.0
    Wt::Int(3),
];
const PAL_ZERO_ONE: [Wt; 6] = [Wt::Int(0), Wt::Int(1), Wt::FloatUnits(0), Wt::FloatUnits(2), Wt::Missing, Wt::Int(0)];

pub fn weight_from(wmode: u8, weq: u8, w: u8) -> Wt {
    match wmode {
        1 => PAL_DYADIC[1 + (weq as usize) % (PAL_DYADIC.len() - 1)],
        2 => PAL_TENTHS[(w as usize) % PAL_TENTHS.len()],
        3 => PAL_ZERO_ONE[(w as usize) % PAL_ZERO_ONE.len()],
        _ => PAL_DYADIC[(w as usize) % PAL_DYADIC.len()],
    }
}

impl Wt {
    /// effective weight in units of 1/scale; `default_units` applies when the property is missing
    pub fn units(self, scale: i64, default_units: i64) -> i64 {
        match self {
            Wt::Missing => default_units,
            Wt::Int(v) => v * scale,
            Wt::FloatUnits(u) => u,
        }
    }
    pub fn to_prop(self, scale: i64) -> Option<PropertyValue> {
        match self {
            Wt::Missing => None,
            Wt::Int(v) => Some(PropertyValue::Int(v)),
            Wt::FloatUnits(u) => Some(PropertyValue::Float(u as f64 / scale as f64)),
        }
    }
}

/// default weights offered to A* / MST (in half units so they are exact in both scales)
pub fn default_weight(defw: u8) -> (f64, i64 /* numerator over 2 */) {
    match defw % 3 {
        0 => (1.0, 2),
        1 => (0.5, 1),
        _ => (2.0, 4),
    }
}

// ------------------------------------------------------------------ reference model

#[derive(Clone, Debug)]
pub struct MEdge {
    pub id: u64,
    pub from: u64,
    pub to: u64,
    pub directed: bool,
    pub ty: u8,
    pub w: Wt,
    pub flag: u8,
}

pub struct Model {
    pub scale: i64,
    /// alive node ids, ascending
    pub nodes: Vec<u64>,
    /// every node id ever created (index = creation order)
    pub created: Vec<u64>,
    pub nflag: BTreeMap<u64, u8>,
    /// alive edges in creation order
    pub edges: Vec<MEdge>,
    pub had_mutation: bool,
}

impl Model {
    pub fn idx(&self, id: u64) -> Option<usize> {
        self.nodes.binary_search(&id).ok()
    }
    pub fn alive(&self, id: u64) -> bool {
        self.idx(id).is_some()
    }
    pub fn edge(&self, id: u64) -> Option<&MEdge> {
        self.edges.iter().find(|e| e.id == id)
    }
    pub fn node_id_of(&self, i: u16) -> u64 {
        self.created[pick(i, self.created.len())]
    }
}

pub fn type_name(ty: u8) -> &'static str {
    if ty % 2 == 0 {
        "A"
    } else {
        "B"
    }
}

/// Build the real engine and the model from the same spec.
pub fn build(g: &GraphSpec, ctx: &mut CaseCtx) -> Result<(GraphEngine, Model), Fail> {
    let engine = GraphEngine::new();
    let scale = scale_of(g.wmode);
    let n = g.n.max(1) as usize;
    let mut m = Model {
        scale,
        nodes: Vec::new(),
        created: Vec::new(),
        nflag: BTreeMap::new(),
        edges: Vec::new(),
        had_mutation: false,
    };
    for i in 0..n {
        let flag = g.nflags.get(i).copied().unwrap_or(0) % 3;
        let mut props = HashMap::new();
        if flag != 0 {
            props.insert(FLAG.to_string(), PropertyValue::Bool(flag == 1));
        }
        props.insert("i".to_string(), PropertyValue::Int(i as i64));
        let id = match engine.create_node("N", props) {
            Ok(id) => id,
            Err(e) => return Err(Fail::new("build:create_node", format!("create_node failed: {e}"))),
        };
        if m.created.contains(&id) {
            ctx.fail("build:duplicate-node-id", format!("create_node returned id {id} twice"))?;
        }
        m.created.push(id);
        m.nodes.push(id);
        m.nflag.insert(id, flag);
    }
    m.nodes.sort_unstable();
    let mut prev: Option<(u64, u64)> = None;
    for (k, s) in g.edges.iter().enumerate() {
        let backbone = g.shape % 3 != 0 && k + 1 < n;
        let kind = if g.nopar && (1..=3).contains(&(s.kind % 32)) { 31 } else { s.kind % 32 };
        let (from, to) = match (kind, prev) {
            _ if backbone => {
                let other = if g.shape % 3 == 1 { pick(s.a, k + 1) } else { k };
                // orientation of the backbone edge from the low bit of b
                if s.b & 1 == 0 {
                    (m.created[other], m.created[k + 1])
                } else {
                    (m.created[k + 1], m.created[other])
                }
            },
            (0, _) => {
                let a = m.created[pick(s.a, n)];
                (a, a)
            },
            (1 | 2, Some(p)) => p,
            (3, Some((a, b))) => (b, a),
            _ => (m.created[pick(s.a, n)], m.created[pick(s.b, n)]),
        };
        prev = Some((from, to));
        let directed = match g.alldir % 3 {
            1 => true,
            2 => false,
            _ => s.directed,
        };
        let w = weight_from(g.wmode % 4, g.weq, s.w);
        let flag = s.flag % 3;
        let mut props = HashMap::new();
        if let Some(p) = w.to_prop(scale) {
            props.insert(WPROP.to_string(), p);
        }
        if flag != 0 {
            props.insert(FLAG.to_string(), PropertyValue::Bool(flag == 1));
        }
        let id = match engine.create_edge(from, to, type_name(s.ty), props, directed) {
            Ok(id) => id,
            Err(e) => return Err(Fail::new("build:create_edge", format!("create_edge({from},{to}) failed: {e}"))),
        };
        if m.edges.iter().any(|e| e.id == id) {
            ctx.fail("build:duplicate-edge-id", format!("create_edge returned id {id} twice"))?;
        }
        m.edges.push(MEdge { id, from, to, directed, ty: s.ty % 2, w, flag });
    }
    for mu in &g.muts {
        match mu {
            Mutn::DelEdge(i) => {
                if m.edges.is_empty() {
                    ctx.label("build: mutation skipped (nothing to delete/update)");
                    continue;
                }
                let k = pick(*i, m.edges.len());
                let id = m.edges[k].id;
                if let Err(e) = engine.delete_edge(id) {
                    ctx.fail("build:delete_edge", format!("delete_edge({id}) failed: {e}"))?;
                }
                m.edges.remove(k);
                m.had_mutation = true;
            },
            Mutn::DelNode(i) => {
                if m.nodes.len() <= 1 {
                    ctx.label("build: mutation skipped (nothing to delete/update)");
                    continue;
                }
                let k = pick(*i, m.nodes.len());
                let id = m.nodes[k];
                if let Err(e) = engine.delete_node(id) {
                    ctx.fail("build:delete_node", format!("delete_node({id}) failed: {e}"))?;
                }
                m.nodes.remove(k);
                m.edges.retain(|e| e.from != id && e.to != id);
                m.had_mutation = true;
            },
            Mutn::SetW(i, w) => {
                if m.edges.is_empty() {
                    ctx.label("build: mutation skipped (nothing to delete/update)");
                    continue;
                }
                let k = pick(*i, m.edges.len());
                let id = m.edges[k].id;
                let nw = weight_from(g.wmode % 4, g.weq, *w);
                let mut props = HashMap::new();
                // Null removes the property (documented on update_edge)
                props.insert(WPROP.to_string(), nw.to_prop(scale).unwrap_or(PropertyValue::Null));
                if let Err(e) = engine.update_edge(id, props) {
                    ctx.fail("build:update_edge", format!("update_edge({id}) failed: {e}"))?;
                }
                m.edges[k].w = nw;
                m.had_mutation = true;
            },
        }
    }
    Ok((engine, m))
}

// ------------------------------------------------------------------ strategies

fn espec() -> impl Strategy<Value = ESpec> {
    (any::<u16>(), any::<u16>(), 0u8..32, any::<bool>(), 0u8..2, 0u8..14, 0u8..3).prop_map(|(a, b, kind, directed, ty, w, flag)| ESpec {
        a,
        b,
        kind,
        directed,
        // type "A" three times out of four so that type-restricted queries keep a usable graph
        ty: if ty == 1 && (a ^ b) & 1 == 0 { 0 } else { ty },
        w,
        flag,
    })
}

fn mutn() -> impl Strategy<Value = Mutn> {
    prop_oneof![
        3 => any::<u16>().prop_map(Mutn::DelEdge),
        1 => any::<u16>().prop_map(Mutn::DelNode),
        3 => (any::<u16>(), 0u8..14).prop_map(|(i, w)| Mutn::SetW(i, w)),
    ]
}

pub fn graph_strategy(_t: Tier) -> impl Strategy<Value = GraphSpec> {
    let n = prop_oneof![3 => 1u8..=6, 4 => 5u8..=12, 3 => 10u8..=24];
    (n, 0u8..6, prop_oneof![2 => Just(0u8), 2 => Just(1u8), 1 => Just(2u8)]).prop_flat_map(|(n, dens, shape)| {
        let nn = n as usize;
        let (min_m, max_m) = if shape == 0 {
            (
                0,
                match dens {
                    0 => nn / 2,
                    1 => nn,
                    2 => nn + nn / 2,
                    3 => 2 * nn + 2,
                    4 => (3 * nn).min(60),
                    _ => nn + 1,
                },
            )
        } else {
            let extra = match dens {
                0 => 0,
                1 => 1,
                2 => nn / 3,
                3 => nn / 2 + 1,
                4 => nn,
                _ => (2 * nn).min(40),
            };
            (nn - 1, nn - 1 + extra)
        };
        let muts = prop_oneof![3 => Just(Vec::new()), 2 => prop::collection::vec(mutn(), 1..=4)];
        (
            Just(n),
            prop::collection::vec(0u8..3, nn),
            prop_oneof![4 => Just(0u8), 2 => Just(1u8), 2 => Just(2u8), 2 => Just(3u8)],
            0u8..13,
            prop_oneof![3 => Just(0u8), 2 => Just(1u8), 1 => Just(2u8)],
            (Just(shape), prop_oneof![3 => Just(false), 2 => Just(true)]),
            prop::collection::vec(espec(), min_m..=max_m),
            muts,
        )
            .prop_map(|(n, nflags, wmode, weq, alldir, (shape, nopar), edges, muts)| GraphSpec { n, nflags, wmode, weq, alldir, shape, nopar, edges, muts })
    })
}

fn filt() -> impl Strategy<Value = Filt> {
    prop_oneof![
        5 => Just(Filt { e: 0, n: 0 }),
        3 => (1u8..=5).prop_map(|e| Filt { e, n: 0 }),
        2 => (1u8..=3).prop_map(|n| Filt { e: 0, n }),
        1 => (1u8..=5, 1u8..=3).prop_map(|(e, n)| Filt { e, n }),
    ]
}

fn query() -> impl Strategy<Value = Q> {
    let st = || (any::<u16>(), any::<u16>());
    prop_oneof![
        5 => (st(), filt()).prop_map(|((s, t), f)| Q::Path { s, t, f }),
        5 => st().prop_map(|(s, t)| Q::WPath { s, t }),
        3 => (st(), prop_oneof![4 => Just(0u8), 1 => 1u8..4]).prop_map(|((s, t), cap)| Q::AllPaths { s, t, cap }),
        3 => (st(), prop_oneof![4 => Just(0u8), 1 => 1u8..4]).prop_map(|((s, t), cap)| Q::AllWPaths { s, t, cap }),
        5 => (st(), 0u8..=3, 0u8..=5, 0u8..3, prop_oneof![3 => Just(0u8), 2 => 1u8..=4], any::<bool>(), filt(), prop_oneof![5 => Just(0u8), 1 => 1u8..4])
            .prop_map(|((s, t), min, max, dir, types, cycles, f, maxp)| Q::Var { s, t, min, max, dir, types, cycles, f, maxp }),
        3 => (any::<u16>(), 0u8..3, 0u8..=5, 0u8..3, filt()).prop_map(|(s, dir, depth, ty, f)| Q::Trav { s, dir, depth, ty, f }),
        2 => (any::<u16>(), 0u8..3, 0u8..3, filt()).prop_map(|(s, dir, ty, f)| Q::Neigh { s, dir, ty, f }),
        4 => (st(), 0u8..3, prop_oneof![3 => Just(0u8), 1 => 1u8..3], prop_oneof![4 => Just(true), 1 => Just(false)], 0u8..3, 0u8..4, any::<u16>())
            .prop_map(|((s, t), dir, ty, weighted, defw, heur, hseed)| Q::AStar { s, t, dir, ty, weighted, defw, heur, hseed }),
        1 => (0u8..4, filt()).prop_map(|(which, f)| Q::Sweep { which, f }),
        3 => (st(), 0u8..3, 0u8..=3, 0u8..=5, 0u8..3, prop_oneof![3 => Just(0u8), 1 => 1u8..3], prop_oneof![3 => Just(0u8), 1 => 1u8..=5], prop_oneof![5 => Just(0u8), 1 => 1u8..3])
            .prop_map(|((s, t), endk, min, max, dir, ty, fe, lim)| Q::Match { s, t, endk, min, max, dir, ty, fe, lim }),
    ]
}

pub fn path_case_strategy(t: Tier) -> impl Strategy<Value = PathCase> {
    (graph_strategy(t), prop::collection::vec(query(), 1..=28)).prop_map(|(g, qs)| PathCase { g, qs })
}

pub fn algo_case_strategy(t: Tier) -> impl Strategy<Value = AlgoCase> {
    (graph_strategy(t), prop_oneof![3 => Just(0u8), 1 => 1u8..3], 0u8..3, any::<bool>(), any::<u16>())
        .prop_map(|(g, ty, defw, forest, probe)| AlgoCase { g, ty, defw, forest, probe })
}

/// Profile for the `astar` part: all-directed graphs on a forward-oriented backbone with many extra edges and
/// no deliberately parallel edges, so that most A* queries fall in the class where none of the recorded A*
/// defects applies, the target is reachable over several hops and alternative routes exist.
pub fn astar_case_strategy(_t: Tier) -> impl Strategy<Value = PathCase> {
    (5u8..=20, 1u8..=2).prop_flat_map(|(n, shape)| {
        let nn = n as usize;
        let q = (any::<u16>(), any::<u16>(), 0u8..2, prop_oneof![5 => Just(0u8), 1 => 1u8..3], prop_oneof![6 => Just(true), 1 => Just(false)], 0u8..3, prop_oneof![1 => Just(0u8), 2 => Just(1u8), 2 => Just(2u8), 1 => Just(3u8)], any::<u16>())
            .prop_map(|(s, t, dir, ty, weighted, defw, heur, hseed)| Q::AStar { s, t, dir, ty, weighted, defw, heur, hseed });
        (
            prop::collection::vec(0u8..3, nn),
            prop_oneof![4 => Just(0u8), 1 => Just(1u8), 2 => Just(2u8), 1 => Just(3u8)],
            0u8..13,
            prop::collection::vec(espec(), (nn - 1 + nn / 2)..=(nn - 1 + nn + nn / 2)),
            prop::collection::vec(q, 6..=14),
        )
            .prop_map(move |(nflags, wmode, weq, mut edges, qs)| {
                for e in edges.iter_mut().take(nn - 1) {
                    e.b &= !1; // backbone edges point from the earlier to the later node
                }
                PathCase { g: GraphSpec { n, nflags, wmode, weq, alldir: 1, shape, nopar: true, edges, muts: Vec::new() }, qs }
            })
    })
}
