//! Part `paths`: path queries, traversals, variable-length matches and A* against the reference.

use crate::model::*;
use crate::refalg::{self, Adj, Arc, Dir};
use graph_engine::algorithms::{AStarConfig, HeuristicFn};
use graph_engine::{AllPathsConfig, CompareOp, Direction, EdgePattern, GraphEngine, GraphError, NodePattern, PathPattern, Pattern, PropertyValue, TraversalFilter, VariableLengthConfig};
use nv_engine::{CaseCtx, Fail};
use std::collections::{BTreeMap, BTreeSet};

pub fn direction_of(d: u8) -> Direction {
    match d % 3 {
        0 => Direction::Outgoing,
        1 => Direction::Incoming,
        _ => Direction::Both,
    }
}

pub fn efilt_ok(e: &MEdge, fe: u8, scale: i64) -> bool {
    match fe {
        0 => true,
        1 => e.flag == 1,
        2 => e.flag != 1,
        3 => e.flag == 2,
        4 => e.w != Wt::Missing && e.w.units(scale, 0) <= 2 * scale,
        _ => e.w != Wt::Missing && e.w.units(scale, 0) > scale,
    }
}

pub fn nfilt_ok(flag: u8, fnn: u8) -> bool {
    match fnn {
        0 => true,
        1 => flag == 1,
        2 => flag != 1,
        _ => flag == 2,
    }
}

pub fn to_filter(f: Filt) -> Option<TraversalFilter> {
    if f.e == 0 && f.n == 0 {
        return None;
    }
    let mut t = TraversalFilter::new();
    t = match f.e {
        0 => t,
        1 => t.edge_eq(FLAG, PropertyValue::Bool(true)),
        2 => t.edge_ne(FLAG, PropertyValue::Bool(true)),
        3 => t.edge_eq(FLAG, PropertyValue::Bool(false)),
        4 => t.edge_where(WPROP, CompareOp::Le, PropertyValue::Int(2)),
        _ => t.edge_where(WPROP, CompareOp::Gt, PropertyValue::Float(1.0)),
    };
    t = match f.n {
        0 => t,
        1 => t.node_eq(FLAG, PropertyValue::Bool(true)),
        2 => t.node_ne(FLAG, PropertyValue::Bool(true)),
        _ => t.node_eq(FLAG, PropertyValue::Bool(false)),
    };
    Some(t)
}

/// edge type restriction of single-type APIs: 0 none, 1 "A", 2 "B"
pub fn ty_opt(ty: u8) -> Option<&'static str> {
    match ty % 3 {
        0 => None,
        1 => Some("A"),
        _ => Some("B"),
    }
}
pub fn ty_ok(e: &MEdge, ty: u8) -> bool {
    match ty % 3 {
        0 => true,
        1 => e.ty == 0,
        _ => e.ty == 1,
    }
}

fn close(total: f64, units: i64, scale: i64) -> bool {
    let r = units as f64 / scale as f64;
    (total - r).abs() <= 1e-9 * r.abs().max(1.0)
}

#[derive(Debug, Clone, Copy, PartialEq, Eq)]
enum StepKind {
    Undirected,
    Forward,
    Backward,
    /// directed self-loop: forward and backward coincide
    Loop,
}

/// Is `edge_id` an alive edge joining u -> v, and in which orientation?
fn step_kind(m: &Model, edge_id: u64, u: u64, v: u64) -> Result<(usize, StepKind), String> {
    let Some(k) = m.edges.iter().position(|e| e.id == edge_id) else {
        return Err(format!("edge {edge_id} does not exist in the current graph"));
    };
    let e = &m.edges[k];
    if e.from == u && e.to == v {
        if u == v {
            return Ok((k, if e.directed { StepKind::Loop } else { StepKind::Undirected }));
        }
        return Ok((k, if e.directed { StepKind::Forward } else { StepKind::Undirected }));
    }
    if e.from == v && e.to == u {
        return Ok((k, if e.directed { StepKind::Backward } else { StepKind::Undirected }));
    }
    Err(format!("edge {edge_id} joins {}->{} but the path steps {u}->{v}", e.from, e.to))
}

struct WalkInfo {
    eidx: Vec<usize>,
    kinds: Vec<StepKind>,
}

/// Structural validity: nodes/edges lengths, endpoints, every node alive, every step over an alive edge
/// joining the two nodes.
fn walk_structure(m: &Model, nodes: &[u64], edges: &[u64], s: u64, t: u64) -> Result<WalkInfo, String> {
    if nodes.len() != edges.len() + 1 {
        return Err(format!("{} nodes but {} edges", nodes.len(), edges.len()));
    }
    if nodes.first() != Some(&s) || nodes.last() != Some(&t) {
        return Err(format!("path runs {:?}..{:?}, requested {s}..{t}", nodes.first(), nodes.last()));
    }
    for n in nodes {
        if !m.alive(*n) {
            return Err(format!("node {n} is not in the current graph"));
        }
    }
    let mut info = WalkInfo { eidx: Vec::new(), kinds: Vec::new() };
    for i in 0..edges.len() {
        let (k, kind) = step_kind(m, edges[i], nodes[i], nodes[i + 1])?;
        info.eidx.push(k);
        info.kinds.push(kind);
    }
    Ok(info)
}

fn kind_allowed(kind: StepKind, dir: Dir) -> bool {
    match (kind, dir) {
        (StepKind::Undirected | StepKind::Loop, _) => true,
        (StepKind::Forward, Dir::Out | Dir::Both) => true,
        (StepKind::Backward, Dir::In | Dir::Both) => true,
        _ => false,
    }
}

fn ids_of(m: &Model, p: &refalg::NodeEdgePath) -> (Vec<u64>, Vec<u64>) {
    (p.0.iter().map(|&i| m.nodes[i]).collect(), p.1.iter().map(|&k| m.edges[k].id).collect())
}

fn expect_node_not_found<T: std::fmt::Debug>(api: &str, r: Result<T, GraphError>, m: &Model, s: u64, t: Option<u64>, ctx: &mut CaseCtx) -> Result<(), Fail> {
    let want = if !m.alive(s) { s } else { t.unwrap_or(s) };
    match r {
        Err(GraphError::NodeNotFound(x)) if x == want => Ok(()),
        other => ctx.fail(format!("{api}:node-not-found"), format!("{api} on deleted node {want}: expected NodeNotFound({want}), got {other:?}")),
    }
}

/// Does some step of the path have a usable parallel sibling of a different weight?
fn parallel_diff_on(adj: &Adj, nodes: &[usize], eidx: &[usize]) -> bool {
    for i in 0..eidx.len() {
        let (u, v) = (nodes[i], nodes[i + 1]);
        let w = adj[u].iter().find(|a| a.e == eidx[i] && a.to == v).map(|a| a.w);
        if let Some(w) = w {
            if adj[u].iter().any(|a| a.to == v && a.e != eidx[i] && a.w != w) {
                return true;
            }
        }
    }
    false
}

pub struct QOut {
    pub nontrivial: bool,
}

fn nontrivial_hops(adj: &Adj, s: usize, t: usize, opt: usize, enter: &dyn Fn(usize) -> bool) -> bool {
    opt >= 2 && refalg::longer_simple_path_exists(adj, s, t, opt, enter, 20_000) == Some(true)
}

pub fn check_case(c: &PathCase, ctx: &mut CaseCtx) -> Result<(), Fail> {
    let (eng, m) = build(&c.g, ctx)?;
    graph_labels(&m, ctx);
    let mut any_nt = false;
    for q in &c.qs {
        let out = check_query(&eng, &m, q, ctx)?;
        any_nt |= out.nontrivial;
    }
    if any_nt {
        ctx.set_nontrivial();
    }
    Ok(())
}

pub fn graph_labels(m: &Model, ctx: &mut CaseCtx) {
    let und = refalg::undirected_simple(m, &|_| true);
    let comps = refalg::count_components(&refalg::components(m.nodes.len(), &und, None));
    if comps >= 2 {
        ctx.label("graph: >=2 components");
    }
    if m.edges.iter().any(|e| e.from == e.to) {
        ctx.label("graph: self-loop");
    }
    let mut par = false;
    let mut pardiff = false;
    for (i, a) in m.edges.iter().enumerate() {
        for b in &m.edges[i + 1..] {
            if (a.from == b.from && a.to == b.to) || (a.from == b.to && a.to == b.from) {
                par = true;
                if a.w.units(m.scale, m.scale) != b.w.units(m.scale, m.scale) {
                    pardiff = true;
                }
            }
        }
    }
    if par {
        ctx.label("graph: parallel edges");
    }
    if pardiff {
        ctx.label("graph: parallel edges of different weight");
    }
    if m.edges.iter().any(|e| e.directed) && m.edges.iter().any(|e| !e.directed) {
        ctx.label("graph: directed and undirected mixed");
    }
    if m.had_mutation {
        ctx.label("graph: edges/nodes deleted or weights updated before the queries");
    }
    if m.edges.iter().any(|e| e.w.units(m.scale, m.scale) == 0) {
        ctx.label("graph: zero weight");
    }
    if m.edges.iter().any(|e| e.w.units(m.scale, m.scale) >= 1_000_000 * m.scale) {
        ctx.label("graph: large weight");
    }
    if m.edges.iter().any(|e| e.w == Wt::Missing) {
        ctx.label("graph: missing weight property");
    }
    if m.edges.iter().any(|e| matches!(e.w, Wt::Int(_))) && m.edges.iter().any(|e| matches!(e.w, Wt::FloatUnits(_))) {
        ctx.label("graph: Int and Float weights mixed");
    }
    ctx.label(match m.nodes.len() {
        0..=4 => "graph: 1-4 nodes",
        5..=12 => "graph: 5-12 nodes",
        _ => "graph: 13-24 nodes",
    });
}

fn check_query(eng: &GraphEngine, m: &Model, q: &Q, ctx: &mut CaseCtx) -> Result<QOut, Fail> {
    match q {
        Q::Path { s, t, f } => q_path(eng, m, m.node_id_of(*s), m.node_id_of(*t), *f, ctx),
        Q::WPath { s, t } => q_wpath(eng, m, m.node_id_of(*s), m.node_id_of(*t), ctx),
        Q::AllPaths { s, t, cap } => q_allpaths(eng, m, m.node_id_of(*s), m.node_id_of(*t), *cap, ctx),
        Q::AllWPaths { s, t, cap } => q_allwpaths(eng, m, m.node_id_of(*s), m.node_id_of(*t), *cap, ctx),
        Q::Var { s, t, min, max, dir, types, cycles, f, maxp } => {
            q_var(eng, m, m.node_id_of(*s), m.node_id_of(*t), *min as usize, *max as usize, *dir, *types, *cycles, *f, *maxp, ctx)
        },
        Q::Trav { s, dir, depth, ty, f } => q_trav(eng, m, m.node_id_of(*s), *dir, *depth as usize, *ty, *f, ctx),
        Q::Neigh { s, dir, ty, f } => q_neigh(eng, m, m.node_id_of(*s), *dir, *ty, *f, ctx),
        Q::AStar { s, t, dir, ty, weighted, defw, heur, hseed } => {
            q_astar(eng, m, m.node_id_of(*s), m.node_id_of(*t), *dir, *ty, *weighted, *defw, *heur, *hseed, ctx)
        },
        Q::Sweep { which, f } => {
            if m.nodes.len() > 8 {
                ctx.label("sweep: skipped (more than 8 nodes)");
                return Ok(TRIVIAL);
            }
            ctx.label("sweep: every (start, end) pair of a small graph");
            let mut nt = false;
            for &a in &m.nodes {
                for &b in &m.nodes {
                    let o = match which % 4 {
                        0 => q_path(eng, m, a, b, *f, ctx)?,
                        1 => q_wpath(eng, m, a, b, ctx)?,
                        2 => q_allpaths(eng, m, a, b, 0, ctx)?,
                        _ => q_astar(eng, m, a, b, 0, 0, true, 0, 0, 0, ctx)?,
                    };
                    nt |= o.nontrivial;
                }
            }
            Ok(QOut { nontrivial: nt })
        },
        Q::Match { s, t, endk, min, max, dir, ty, fe, lim } => {
            q_match(eng, m, nv_engine::pick(*s, m.created.len()), nv_engine::pick(*t, m.created.len()), *endk, *min as usize, *max as usize, *dir, *ty, *fe, *lim, ctx)
        },
    }
}

const TRIVIAL: QOut = QOut { nontrivial: false };

// ------------------------------------------------------------------ find_path

fn q_path(eng: &GraphEngine, m: &Model, sid: u64, tid: u64, f: Filt, ctx: &mut CaseCtx) -> Result<QOut, Fail> {
    ctx.label("q: find_path");
    let filter = to_filter(f);
    let res = eng.find_path(sid, tid, filter.as_ref());
    if !m.alive(sid) || !m.alive(tid) {
        ctx.label("q: deleted endpoint -> NodeNotFound");
        expect_node_not_found("find_path", res, m, sid, Some(tid), ctx)?;
        return Ok(TRIVIAL);
    }
    let (s, t) = (m.idx(sid).unwrap(), m.idx(tid).unwrap());
    let scale = m.scale;
    let edge_ok = |e: &MEdge| efilt_ok(e, f.e, scale);
    let node_ok = |v: usize| nfilt_ok(m.nflag[&m.nodes[v]], f.n);
    if f.e != 0 || f.n != 0 {
        ctx.label("find_path: with filter");
    }
    if sid == tid {
        ctx.label("q: start == end");
        match &res {
            Ok(p) if p.nodes == vec![sid] && p.edges.is_empty() => {},
            other => ctx.fail("find_path:same-node", format!("find_path({sid},{sid}) = {other:?}, expected the zero-hop path"))?,
        }
        return Ok(TRIVIAL);
    }
    let strict = refalg::adjacency(m, Dir::Out, &edge_ok, scale);
    let loose = refalg::adjacency(m, Dir::Both, &edge_ok, scale);
    let d_strict = refalg::bfs(&strict, s, &node_ok, Some(t))[t];
    let d_loose = refalg::bfs(&loose, s, &node_ok, Some(t))[t];
    let mut nt = false;
    match res {
        Ok(p) => {
            let info = match walk_structure(m, &p.nodes, &p.edges, sid, tid) {
                Ok(i) => i,
                Err(e) => {
                    ctx.fail("find_path:not-a-walk", format!("find_path({sid},{tid}) returned {p:?}: {e}"))?;
                    return Ok(TRIVIAL);
                },
            };
            for k in &info.eidx {
                if !edge_ok(&m.edges[*k]) {
                    ctx.fail("find_path:edge-filter-ignored", format!("find_path({sid},{tid},{f:?}) uses edge {} which fails the edge condition; path {p:?}", m.edges[*k].id))?;
                }
            }
            for n in &p.nodes[1..p.nodes.len() - 1] {
                if !nfilt_ok(m.nflag[n], f.n) {
                    ctx.fail("find_path:node-filter-ignored", format!("find_path({sid},{tid},{f:?}) passes through node {n} which fails the node condition; path {p:?}"))?;
                }
            }
            let hops = p.edges.len();
            let backward = info.kinds.iter().any(|k| *k == StepKind::Backward);
            if backward {
                ctx.label("find_path: returned path walks a directed edge backwards");
                ctx.fail(
                    "find_path:directed-edge-traversed-backwards",
                    format!(
                        "find_path({sid},{tid}) returned {p:?}, which follows a directed edge against its direction (direction-respecting distance: {d_strict:?})"
                    ),
                )?;
                // continue behind the known finding: under the direction-blind reading it must still be shortest
                if Some(hops) != d_loose {
                    ctx.fail("find_path:not-shortest", format!("find_path({sid},{tid}) returned {hops} hops {p:?}; direction-blind optimum is {d_loose:?}"))?;
                }
                nt = nontrivial_hops(&loose, s, t, hops, &node_ok);
            } else {
                if Some(hops) != d_strict {
                    ctx.fail("find_path:not-shortest", format!("find_path({sid},{tid},{f:?}) returned {hops} hops {p:?}; the optimum is {d_strict:?}"))?;
                }
                nt = nontrivial_hops(&strict, s, t, hops, &node_ok);
                if hops >= 2 {
                    ctx.label("find_path: optimum >= 2 hops (direction respected)");
                }
            }
        },
        Err(GraphError::PathNotFound) => {
            ctx.label("q: no path");
            if d_strict.is_some() {
                ctx.fail("find_path:missed-path", format!("find_path({sid},{tid},{f:?}) = PathNotFound but a {d_strict:?}-hop path exists"))?;
            }
        },
        Err(e) => ctx.fail("find_path:unexpected-error", format!("find_path({sid},{tid}) = Err({e})"))?,
    }
    Ok(QOut { nontrivial: nt })
}

// ------------------------------------------------------------------ find_weighted_path

fn q_wpath(eng: &GraphEngine, m: &Model, sid: u64, tid: u64, ctx: &mut CaseCtx) -> Result<QOut, Fail> {
    ctx.label("q: find_weighted_path");
    let res = eng.find_weighted_path(sid, tid, WPROP);
    if !m.alive(sid) || !m.alive(tid) {
        expect_node_not_found("find_weighted_path", res, m, sid, Some(tid), ctx)?;
        return Ok(TRIVIAL);
    }
    let (s, t) = (m.idx(sid).unwrap(), m.idx(tid).unwrap());
    if sid == tid {
        match &res {
            Ok(p) if p.nodes == vec![sid] && p.edges.is_empty() && p.total_weight == 0.0 => {},
            other => ctx.fail("find_weighted_path:same-node", format!("find_weighted_path({sid},{sid}) = {other:?}"))?,
        }
        return Ok(TRIVIAL);
    }
    let adj = refalg::adjacency(m, Dir::Out, &|_| true, m.scale);
    let dist = refalg::shortest_weights(&adj, s);
    let mut nt = false;
    match res {
        Ok(p) => {
            let info = match walk_structure(m, &p.nodes, &p.edges, sid, tid) {
                Ok(i) => i,
                Err(e) => {
                    ctx.fail("find_weighted_path:not-a-walk", format!("find_weighted_path({sid},{tid}) returned {p:?}: {e}"))?;
                    return Ok(TRIVIAL);
                },
            };
            if let Some(i) = info.kinds.iter().position(|k| !kind_allowed(*k, Dir::Out)) {
                ctx.fail("find_weighted_path:direction", format!("find_weighted_path({sid},{tid}) step {i} follows a directed edge backwards: {p:?}"))?;
            }
            let sum: i64 = info.eidx.iter().map(|k| m.edges[*k].w.units(m.scale, m.scale)).sum();
            if !close(p.total_weight, sum, m.scale) {
                ctx.fail(
                    "find_weighted_path:total-mismatch",
                    format!("find_weighted_path({sid},{tid}) reports total {} but its edges sum to {}; {p:?}", p.total_weight, sum as f64 / m.scale as f64),
                )?;
            }
            match dist[t] {
                None => ctx.fail("find_weighted_path:phantom-path", format!("find_weighted_path({sid},{tid}) returned {p:?} but {tid} is unreachable"))?,
                Some(d) => {
                    if !close(p.total_weight, d, m.scale) {
                        ctx.fail(
                            "find_weighted_path:not-optimal",
                            format!("find_weighted_path({sid},{tid}) total {} via {p:?}; the optimum is {}", p.total_weight, d as f64 / m.scale as f64),
                        )?;
                    }
                },
            }
            let nidx: Vec<usize> = p.nodes.iter().map(|n| m.idx(*n).unwrap()).collect();
            let pd = parallel_diff_on(&adj, &nidx, &info.eidx);
            if pd {
                ctx.label("weighted: parallel edge of different weight on the optimum");
            }
            if info.eidx.iter().any(|k| m.edges[*k].w.units(m.scale, m.scale) == 0) {
                ctx.label("weighted: zero-weight edge on the optimum");
            }
            let hops_opt = refalg::bfs(&adj, s, &|_| true, None)[t].unwrap_or(0);
            if p.edges.len() > hops_opt {
                ctx.label("weighted: optimum has more hops than the fewest-hop path");
            }
            nt = pd || nontrivial_hops(&adj, s, t, p.edges.len(), &|_| true);
        },
        Err(GraphError::PathNotFound) => {
            ctx.label("q: no path");
            if let Some(d) = dist[t] {
                ctx.fail("find_weighted_path:missed-path", format!("find_weighted_path({sid},{tid}) = PathNotFound but a path of weight {} exists", d as f64 / m.scale as f64))?;
            }
        },
        Err(e) => ctx.fail("find_weighted_path:unexpected-error", format!("find_weighted_path({sid},{tid}) = Err({e})"))?,
    }
    Ok(QOut { nontrivial: nt })
}

// ------------------------------------------------------------------ find_all_paths / find_all_weighted_paths

fn caps(cap: u8) -> (Option<AllPathsConfig>, usize, usize) {
    match cap % 4 {
        0 => (None, 1000, 100),
        1 => (Some(AllPathsConfig { max_paths: 3, max_parents_per_node: 100 }), 3, 100),
        2 => (Some(AllPathsConfig { max_paths: 1000, max_parents_per_node: 1 }), 1000, 1),
        _ => (Some(AllPathsConfig { max_paths: 2, max_parents_per_node: 2 }), 2, 2),
    }
}

/// Compare a returned list of optimal paths with the reference set. `exact` = no configured cap can have
/// dropped a path, so the result must be the whole set; otherwise only validity is checked.
fn compare_path_sets(
    api: &str,
    m: &Model,
    got: &[(Vec<u64>, Vec<u64>)],
    reference: Option<&Vec<refalg::NodeEdgePath>>,
    exact: bool,
    call: &str,
    ctx: &mut CaseCtx,
) -> Result<(), Fail> {
    let got_set: BTreeSet<&(Vec<u64>, Vec<u64>)> = got.iter().collect();
    if got.is_empty() {
        ctx.fail(format!("{api}:empty"), format!("{call} returned Ok with no path"))?;
    }
    match reference {
        Some(r) => {
            let ref_set: BTreeSet<(Vec<u64>, Vec<u64>)> = r.iter().map(|p| ids_of(m, p)).collect();
            for p in &got_set {
                if !ref_set.contains(*p) {
                    ctx.fail(format!("{api}:not-an-optimal-path"), format!("{call} returned {p:?}, which is not one of the {} optimal paths", ref_set.len()))?;
                }
            }
            if exact {
                for p in &ref_set {
                    if !got_set.contains(p) {
                        ctx.fail(format!("{api}:missing-path"), format!("{call} returned {} paths but omits the optimal path {p:?}", got.len()))?;
                    }
                }
            } else {
                ctx.label(format!("{api}: a configured cap applies (validity only)"));
            }
        },
        None => {
            ctx.label(format!("{api}: reference set too large (validity only)"));
        },
    }
    Ok(())
}

fn q_allpaths(eng: &GraphEngine, m: &Model, sid: u64, tid: u64, cap: u8, ctx: &mut CaseCtx) -> Result<QOut, Fail> {
    ctx.label("q: find_all_paths");
    let (cfg, max_paths, max_parents) = caps(cap);
    let res = eng.find_all_paths(sid, tid, cfg);
    if !m.alive(sid) || !m.alive(tid) {
        expect_node_not_found("find_all_paths", res, m, sid, Some(tid), ctx)?;
        return Ok(TRIVIAL);
    }
    let (s, t) = (m.idx(sid).unwrap(), m.idx(tid).unwrap());
    let call = format!("find_all_paths({sid},{tid},cap{})", cap % 4);
    if sid == tid {
        match &res {
            Ok(a) if a.hop_count == 0 && a.paths.len() == 1 && a.paths[0].nodes == vec![sid] && a.paths[0].edges.is_empty() => {},
            other => ctx.fail("find_all_paths:same-node", format!("{call} = {other:?}"))?,
        }
        return Ok(TRIVIAL);
    }
    let adj = refalg::adjacency(m, Dir::Out, &|_| true, m.scale);
    let dist = refalg::bfs(&adj, s, &|_| true, None);
    let mut nt = false;
    match res {
        Ok(a) => {
            let Some(d) = dist[t] else {
                ctx.fail("find_all_paths:phantom-path", format!("{call} = {a:?} but {tid} is unreachable"))?;
                return Ok(TRIVIAL);
            };
            if a.hop_count != d {
                ctx.fail("find_all_paths:hop-count", format!("{call} reports hop_count {} but the shortest distance is {d}", a.hop_count))?;
            }
            for p in &a.paths {
                match walk_structure(m, &p.nodes, &p.edges, sid, tid) {
                    Err(e) => ctx.fail("find_all_paths:not-a-walk", format!("{call} returned {p:?}: {e}"))?,
                    Ok(info) => {
                        if info.kinds.iter().any(|k| !kind_allowed(*k, Dir::Out)) {
                            ctx.fail("find_all_paths:direction", format!("{call} returned {p:?}, which follows a directed edge backwards"))?;
                        }
                    },
                }
            }
            let tight = |u: usize, a: &Arc| dist[u].is_some() && dist[a.to] == dist[u].map(|x| x + 1);
            let reference = refalg::enumerate_tight(&adj, s, t, &tight, 20_000);
            let mut indeg = vec![0usize; adj.len()];
            for u in 0..adj.len() {
                for a in &adj[u] {
                    if tight(u, a) {
                        indeg[a.to] += 1;
                    }
                }
            }
            let parents_capped = indeg.iter().any(|c| *c > max_parents);
            let got: Vec<(Vec<u64>, Vec<u64>)> = a.paths.iter().map(|p| (p.nodes.clone(), p.edges.clone())).collect();
            let distinct: BTreeSet<&(Vec<u64>, Vec<u64>)> = got.iter().collect();
            if distinct.len() != got.len() {
                ctx.fail("find_all_paths:duplicate-path", format!("{call} returned {} paths of which only {} are distinct: {got:?}", got.len(), distinct.len()))?;
            }
            if got.len() > max_paths {
                ctx.fail("find_all_paths:cap-exceeded", format!("{call} returned {} paths, max_paths = {max_paths}", got.len()))?;
            }
            let exact = !parents_capped && reference.as_ref().map_or(false, |r| r.len() <= max_paths);
            compare_path_sets("find_all_paths", m, &got, reference.as_ref(), exact, &call, ctx)?;
            if reference.as_ref().map_or(false, |r| r.len() >= 2) {
                ctx.label("find_all_paths: >=2 shortest paths");
            }
            nt = nontrivial_hops(&adj, s, t, d, &|_| true);
        },
        Err(GraphError::PathNotFound) => {
            ctx.label("q: no path");
            if dist[t].is_some() {
                ctx.fail("find_all_paths:missed-path", format!("{call} = PathNotFound but the distance is {:?}", dist[t]))?;
            }
        },
        Err(e) => ctx.fail("find_all_paths:unexpected-error", format!("{call} = Err({e})"))?,
    }
    Ok(QOut { nontrivial: nt })
}

fn q_allwpaths(eng: &GraphEngine, m: &Model, sid: u64, tid: u64, cap: u8, ctx: &mut CaseCtx) -> Result<QOut, Fail> {
    ctx.label("q: find_all_weighted_paths");
    let (cfg, max_paths, max_parents) = caps(cap);
    let call = format!("find_all_weighted_paths({sid},{tid},cap{})", cap % 4);
    if !m.alive(sid) || !m.alive(tid) {
        let res = eng.find_all_weighted_paths(sid, tid, WPROP, cfg);
        expect_node_not_found("find_all_weighted_paths", res, m, sid, Some(tid), ctx)?;
        return Ok(TRIVIAL);
    }
    let (s, t) = (m.idx(sid).unwrap(), m.idx(tid).unwrap());
    let adj = refalg::adjacency(m, Dir::Out, &|_| true, m.scale);
    let dist = refalg::shortest_weights(&adj, s);
    let tight = |u: usize, a: &Arc| match (dist[u], dist[a.to]) {
        (Some(du), Some(dv)) => du + a.w == dv,
        _ => false,
    };
    if sid != tid && dist[t].is_some() && refalg::tight_cycle_before(&adj, t, &tight) {
        // A zero-weight cycle among optimal paths: the set of optimal walks is infinite and the product's
        // enumeration does not terminate on such inputs (part `zero_cycle` demonstrates that in a child
        // process); calling it here would hang the whole run.
        ctx.label("find_all_weighted_paths: skipped, zero-weight cycle on an optimal path");
        return Ok(TRIVIAL);
    }
    let res = eng.find_all_weighted_paths(sid, tid, WPROP, cfg);
    if sid == tid {
        match &res {
            Ok(a) if a.total_weight == 0.0 && a.paths.len() == 1 && a.paths[0].nodes == vec![sid] && a.paths[0].edges.is_empty() => {},
            other => ctx.fail("find_all_weighted_paths:same-node", format!("{call} = {other:?}"))?,
        }
        return Ok(TRIVIAL);
    }
    let mut nt = false;
    match res {
        Ok(a) => {
            let Some(d) = dist[t] else {
                ctx.fail("find_all_weighted_paths:phantom-path", format!("{call} = {a:?} but {tid} is unreachable"))?;
                return Ok(TRIVIAL);
            };
            if !close(a.total_weight, d, m.scale) {
                ctx.fail(
                    "find_all_weighted_paths:not-optimal",
                    format!("{call} reports total {} but the optimum is {}", a.total_weight, d as f64 / m.scale as f64),
                )?;
            }
            for p in &a.paths {
                match walk_structure(m, &p.nodes, &p.edges, sid, tid) {
                    Err(e) => ctx.fail("find_all_weighted_paths:not-a-walk", format!("{call} returned {p:?}: {e}"))?,
                    Ok(info) => {
                        if info.kinds.iter().any(|k| !kind_allowed(*k, Dir::Out)) {
                            ctx.fail("find_all_weighted_paths:direction", format!("{call} returned {p:?}, which follows a directed edge backwards"))?;
                        }
                        let sum: i64 = info.eidx.iter().map(|k| m.edges[*k].w.units(m.scale, m.scale)).sum();
                        if !close(p.total_weight, sum, m.scale) || sum != d {
                            ctx.fail(
                                "find_all_weighted_paths:path-weight",
                                format!("{call} returned {p:?} whose edges sum to {} (optimum {})", sum as f64 / m.scale as f64, d as f64 / m.scale as f64),
                            )?;
                        }
                    },
                }
            }
            let reference = refalg::enumerate_tight(&adj, s, t, &tight, 20_000);
            let mut indeg = vec![0usize; adj.len()];
            for u in 0..adj.len() {
                for a in &adj[u] {
                    if tight(u, a) {
                        indeg[a.to] += 1;
                    }
                }
            }
            // duplicates (see the duplicate-path finding) count against both caps, so a cap is treated as
            // possibly binding from half its nominal value on
            let parents_capped = indeg.iter().any(|c| 2 * *c > max_parents);
            let got: Vec<(Vec<u64>, Vec<u64>)> = a.paths.iter().map(|p| (p.nodes.clone(), p.edges.clone())).collect();
            let distinct: BTreeSet<(Vec<u64>, Vec<u64>)> = got.iter().cloned().collect();
            let has_dups = distinct.len() != got.len();
            if has_dups {
                ctx.label("find_all_weighted_paths: duplicate paths in the result");
                ctx.fail(
                    "find_all_weighted_paths:duplicate-path",
                    format!("{call} returned {} paths of which only {} are distinct: {got:?}", got.len(), distinct.len()),
                )?;
            }
            if got.len() > max_paths {
                ctx.fail("find_all_weighted_paths:cap-exceeded", format!("{call} returned {} paths, max_paths = {max_paths}", got.len()))?;
            }
            // fewer than max_paths returned => enumeration was not cut short
            let exact = !parents_capped && (got.len() < max_paths || (!has_dups && reference.as_ref().map_or(false, |r| r.len() <= max_paths)));
            let dedup: Vec<(Vec<u64>, Vec<u64>)> = distinct.into_iter().collect();
            compare_path_sets("find_all_weighted_paths", m, &dedup, reference.as_ref(), exact, &call, ctx)?;
            if reference.as_ref().map_or(false, |r| r.len() >= 2) {
                ctx.label("find_all_weighted_paths: >=2 optimal paths");
            }
            nt = nontrivial_hops(&adj, s, t, a.paths.first().map_or(0, |p| p.edges.len()), &|_| true);
        },
        Err(GraphError::PathNotFound) => {
            ctx.label("q: no path");
            if dist[t].is_some() {
                ctx.fail("find_all_weighted_paths:missed-path", format!("{call} = PathNotFound but the optimum is {:?}", dist[t]))?;
            }
        },
        Err(e) => ctx.fail("find_all_weighted_paths:unexpected-error", format!("{call} = Err({e})"))?,
    }
    Ok(QOut { nontrivial: nt })
}

// ------------------------------------------------------------------ find_variable_paths

#[allow(clippy::too_many_arguments)]
fn q_var(
    eng: &GraphEngine,
    m: &Model,
    sid: u64,
    tid: u64,
    min: usize,
    max: usize,
    dir: u8,
    types: u8,
    cycles: bool,
    f: Filt,
    maxp: u8,
    ctx: &mut CaseCtx,
) -> Result<QOut, Fail> {
    ctx.label("q: find_variable_paths");
    let max_paths = match maxp % 4 {
        0 => 1000usize,
        1 => 1,
        2 => 3,
        _ => 10,
    };
    let mut cfg = VariableLengthConfig::with_hops(min, max).direction(direction_of(dir)).allow_cycles(cycles);
    cfg = match types % 5 {
        0 => cfg,
        1 => cfg.edge_type("A"),
        2 => cfg.edge_type("B"),
        3 => cfg.edge_types(&["A", "B"]),
        _ => cfg.edge_types(&[]),
    };
    if maxp % 4 != 0 {
        cfg = cfg.max_paths(max_paths);
    }
    if let Some(tf) = to_filter(f) {
        cfg = cfg.with_filter(tf);
    }
    let call = format!("find_variable_paths({sid},{tid},hops {min}..={max},dir {},types {},cycles {cycles},{f:?},max_paths {max_paths})", dir % 3, types % 5);
    if !m.alive(sid) || !m.alive(tid) {
        let res = eng.find_variable_paths(sid, tid, cfg);
        expect_node_not_found("find_variable_paths", res, m, sid, Some(tid), ctx)?;
        return Ok(TRIVIAL);
    }
    let (s, t) = (m.idx(sid).unwrap(), m.idx(tid).unwrap());
    let scale = m.scale;
    let type_ok = |e: &MEdge| match types % 5 {
        0 | 3 => true,
        1 => e.ty == 0,
        2 => e.ty == 1,
        _ => false,
    };
    let edge_ok = |e: &MEdge| type_ok(e) && efilt_ok(e, f.e, scale);
    let node_ok = |v: usize| nfilt_ok(m.nflag[&m.nodes[v]], f.n);
    let d = refalg::dir_of(dir);
    let adj = refalg::adjacency(m, d, &edge_ok, scale);
    let w = refalg::walks(&adj, s, t, min, max, cycles, &node_ok, 30_000);
    if w.exhausted {
        ctx.label("find_variable_paths: skipped, enumeration too large");
        return Ok(TRIVIAL);
    }
    let res = eng.find_variable_paths(sid, tid, cfg);
    let vp = match res {
        Ok(v) => v,
        Err(e) => {
            ctx.fail("find_variable_paths:unexpected-error", format!("{call} = Err({e})"))?;
            return Ok(TRIVIAL);
        },
    };
    let mut lenient: BTreeSet<(Vec<u64>, Vec<u64>)> = BTreeSet::new();
    let mut strict: BTreeSet<(Vec<u64>, Vec<u64>)> = BTreeSet::new();
    if sid == tid && min == 0 {
        lenient.insert((vec![sid], vec![]));
        strict.insert((vec![sid], vec![]));
    }
    for (nodes, edges, st) in &w.found {
        let p = ids_of(m, &(nodes.clone(), edges.clone()));
        if *st {
            strict.insert(p.clone());
        }
        lenient.insert(p);
    }
    let got: Vec<(Vec<u64>, Vec<u64>)> = vp.paths.iter().map(|p| (p.nodes.clone(), p.edges.clone())).collect();
    let got_set: BTreeSet<&(Vec<u64>, Vec<u64>)> = got.iter().collect();
    if got_set.len() != got.len() {
        ctx.label("find_variable_paths: duplicate paths in the result");
        let loop_both = d == Dir::Both
            && got.iter().any(|p| p.1.iter().any(|e| m.edge(*e).map_or(false, |me| me.directed && me.from == me.to)));
        let sig = if loop_both { "find_variable_paths:duplicate-path:directed-self-loop-direction-both" } else { "find_variable_paths:duplicate-path" };
        ctx.fail(sig, format!("{call} returned {} paths of which only {} are distinct", got.len(), got_set.len()))?;
    }
    if got.len() > max_paths {
        ctx.fail("find_variable_paths:cap-exceeded", format!("{call} returned {} paths", got.len()))?;
    }
    for p in &got_set {
        if !lenient.contains(*p) {
            let hops = p.1.len();
            let sig = if hops < min || hops > max {
                "find_variable_paths:hop-bounds"
            } else if walk_structure(m, &p.0, &p.1, sid, tid).is_err() {
                "find_variable_paths:not-a-walk"
            } else {
                "find_variable_paths:invalid-path"
            };
            ctx.fail(sig, format!("{call} returned {p:?} ({hops} hops), which is not a qualifying path (reference has {} paths)", lenient.len()))?;
        }
    }
    // duplicates use up max_paths too: exact comparison only when even the duplicated count stays below the cap
    let truncated = got.len() >= max_paths || lenient.len() >= max_paths;
    if !truncated {
        for p in &strict {
            if !got_set.contains(p) {
                ctx.fail(
                    "find_variable_paths:missing-path",
                    format!("{call} returned {} paths but omits {p:?} ({} hops); reference has {} paths", got.len(), p.1.len(), strict.len()),
                )?;
            }
        }
    } else {
        ctx.label("find_variable_paths: max_paths reached (validity only)");
    }
    // statistics
    if vp.stats.paths_found != vp.paths.len() {
        ctx.fail("find_variable_paths:stats", format!("{call}: stats.paths_found = {} but {} paths returned", vp.stats.paths_found, vp.paths.len()))?;
    }
    let lens: Vec<usize> = vp.paths.iter().map(|p| p.edges.len()).collect();
    if vp.stats.min_length != lens.iter().min().copied() || vp.stats.max_length != lens.iter().max().copied() {
        ctx.fail(
            "find_variable_paths:stats",
            format!("{call}: stats min/max length = {:?}/{:?} but returned lengths span {:?}..{:?}", vp.stats.min_length, vp.stats.max_length, lens.iter().min(), lens.iter().max()),
        )?;
    }
    if !lenient.is_empty() {
        ctx.label("find_variable_paths: non-empty result");
    }
    if cycles && lenient.iter().any(|p| p.0.iter().collect::<BTreeSet<_>>().len() < p.0.len()) {
        ctx.label("find_variable_paths: result contains a walk that repeats a node");
    }
    if strict.len() != lenient.len() {
        ctx.label("find_variable_paths: node condition leaves an ambiguous corner (sandwich check)");
    }
    // does the lower bound actually exclude something / the upper bound cut something?
    let lens: BTreeSet<usize> = lenient.iter().map(|p| p.1.len()).collect();
    let nt = lens.len() >= 2 && lens.iter().any(|l| *l >= 2);
    if min >= 1 {
        let below = refalg::walks(&adj, s, t, 0, min.saturating_sub(1).max(1), cycles, &node_ok, 5_000);
        if min >= 2 && !below.found.is_empty() && !lenient.is_empty() {
            ctx.label("find_variable_paths: lower hop bound excludes an existing shorter path");
        }
    }
    Ok(QOut { nontrivial: nt })
}

// ------------------------------------------------------------------ traverse / neighbors

#[allow(clippy::too_many_arguments)]
fn q_trav(eng: &GraphEngine, m: &Model, sid: u64, dir: u8, depth: usize, ty: u8, f: Filt, ctx: &mut CaseCtx) -> Result<QOut, Fail> {
    ctx.label("q: traverse");
    let filter = to_filter(f);
    let res = eng.traverse(sid, direction_of(dir), depth, ty_opt(ty), filter.as_ref());
    let call = format!("traverse({sid},dir {},depth {depth},type {:?},{f:?})", dir % 3, ty_opt(ty));
    if !m.alive(sid) {
        expect_node_not_found("traverse", res, m, sid, None, ctx)?;
        return Ok(TRIVIAL);
    }
    let s = m.idx(sid).unwrap();
    let scale = m.scale;
    let edge_ok = |e: &MEdge| ty_ok(e, ty) && efilt_ok(e, f.e, scale);
    let node_ok = |v: usize| nfilt_ok(m.nflag[&m.nodes[v]], f.n);
    let adj = refalg::adjacency(m, refalg::dir_of(dir), &edge_ok, scale);
    // lenient: nodes failing the node condition are left out of the result but still expanded;
    // strict: they are not expanded either. The documentation does not say which, so both are accepted.
    let d_len = refalg::bfs(&adj, s, &|_| true, None);
    let d_str = refalg::bfs(&adj, s, &node_ok, None);
    let lenient: BTreeSet<u64> = (0..adj.len()).filter(|&v| v == s || (d_len[v].map_or(false, |d| d <= depth) && node_ok(v))).map(|v| m.nodes[v]).collect();
    let strict: BTreeSet<u64> = (0..adj.len()).filter(|&v| v == s || d_str[v].map_or(false, |d| d <= depth)).map(|v| m.nodes[v]).collect();
    let nodes = match res {
        Ok(n) => n,
        Err(e) => {
            ctx.fail("traverse:unexpected-error", format!("{call} = Err({e})"))?;
            return Ok(TRIVIAL);
        },
    };
    let got: Vec<u64> = nodes.iter().map(|n| n.id).collect();
    let got_set: BTreeSet<u64> = got.iter().copied().collect();
    if got_set.len() != got.len() {
        ctx.fail("traverse:duplicate-node", format!("{call} returned a node twice: {got:?}"))?;
    }
    for n in &got_set {
        if !lenient.contains(n) {
            let why = match m.idx(*n) {
                None => "it is not in the current graph".to_string(),
                Some(v) => format!("its distance is {:?}, condition passes: {}", d_len[v], node_ok(v)),
            };
            ctx.fail("traverse:extra-node", format!("{call} returned node {n} but {why}; result {got:?}"))?;
        }
    }
    for n in &strict {
        if !got_set.contains(n) {
            ctx.fail("traverse:missing-node", format!("{call} omits node {n} (distance {:?}); result {got:?}", d_str[m.idx(*n).unwrap()]))?;
        }
    }
    if f.n == 0 {
        // documented: level order, start node first
        let mut last = 0usize;
        for (i, n) in got.iter().enumerate() {
            let dn = d_len[m.idx(*n).unwrap()].unwrap_or(usize::MAX);
            if (i == 0 && *n != sid) || dn < last {
                ctx.fail("traverse:level-order", format!("{call} is not in level order: {got:?}"))?;
                break;
            }
            last = dn;
        }
    }
    let beyond = (0..adj.len()).any(|v| d_len[v].map_or(false, |d| d > depth));
    if beyond {
        ctx.label("traverse: depth bound cuts off reachable nodes");
    }
    if strict != lenient {
        ctx.label("traverse: node condition leaves an ambiguous corner (sandwich check)");
    }
    let maxd = (0..adj.len()).filter_map(|v| d_len[v]).filter(|d| *d <= depth).max().unwrap_or(0);
    Ok(QOut { nontrivial: beyond && maxd >= 2 })
}

fn q_neigh(eng: &GraphEngine, m: &Model, sid: u64, dir: u8, ty: u8, f: Filt, ctx: &mut CaseCtx) -> Result<QOut, Fail> {
    ctx.label("q: neighbors");
    let filter = to_filter(f);
    let res = eng.neighbors(sid, ty_opt(ty), direction_of(dir), filter.as_ref());
    let call = format!("neighbors({sid},type {:?},dir {},{f:?})", ty_opt(ty), dir % 3);
    if !m.alive(sid) {
        expect_node_not_found("neighbors", res, m, sid, None, ctx)?;
        return Ok(TRIVIAL);
    }
    let s = m.idx(sid).unwrap();
    let scale = m.scale;
    let edge_ok = |e: &MEdge| ty_ok(e, ty) && efilt_ok(e, f.e, scale);
    let adj = refalg::adjacency(m, refalg::dir_of(dir), &edge_ok, scale);
    let want: BTreeSet<u64> = adj[s].iter().map(|a| a.to).filter(|v| *v != s && nfilt_ok(m.nflag[&m.nodes[*v]], f.n)).map(|v| m.nodes[v]).collect();
    match res {
        Ok(ns) => {
            let got: Vec<u64> = ns.iter().map(|n| n.id).collect();
            let got_set: BTreeSet<u64> = got.iter().copied().collect();
            if got_set.len() != got.len() {
                ctx.fail("neighbors:duplicate-node", format!("{call} = {got:?}"))?;
            }
            if got_set != want {
                let sig = if got_set.is_superset(&want) { "neighbors:extra-node" } else { "neighbors:missing-node" };
                ctx.fail(sig, format!("{call} = {got:?}, expected {want:?}"))?;
            }
        },
        Err(e) => ctx.fail("neighbors:unexpected-error", format!("{call} = Err({e})"))?,
    }
    Ok(TRIVIAL)
}

// ------------------------------------------------------------------ A*

#[allow(clippy::too_many_arguments)]
fn q_astar(
    eng: &GraphEngine,
    m: &Model,
    sid: u64,
    tid: u64,
    dir: u8,
    ty: u8,
    weighted: bool,
    defw: u8,
    heur: u8,
    hseed: u16,
    ctx: &mut CaseCtx,
) -> Result<QOut, Fail> {
    ctx.label("q: astar_path");
    let (dw, half) = default_weight(defw);
    let default_units = half * m.scale / 2;
    let d = refalg::dir_of(dir);
    let call = format!("astar_path({sid},{tid},dir {},type {:?},weighted {weighted},default {dw},heuristic {})", dir % 3, ty_opt(ty), heur % 4);
    let mk_cfg = |h: Option<HeuristicFn>| {
        let mut cfg = AStarConfig::new().direction(direction_of(dir)).default_weight(dw);
        cfg = if weighted { cfg.weight_property(WPROP) } else { cfg.unweighted() };
        if let Some(t) = ty_opt(ty) {
            cfg = cfg.edge_type(t);
        }
        if let Some(h) = h {
            cfg = cfg.heuristic(h);
        }
        cfg
    };
    if !m.alive(sid) || !m.alive(tid) {
        // also for start == end: a "path" made of a node that does not exist is no walk in the graph
        if sid == tid {
            ctx.label("q: astar_path from a deleted node to itself");
        }
        match eng.astar_path(sid, tid, &mk_cfg(None)) {
            Ok(r) if r.path.is_none() => {},
            other => ctx.fail("astar:deleted-node", format!("{call} on a deleted node = {other:?}"))?,
        }
        return Ok(TRIVIAL);
    }
    let (s, t) = (m.idx(sid).unwrap(), m.idx(tid).unwrap());
    let edge_ok = |e: &MEdge| ty_ok(e, ty);
    let mut adj = refalg::adjacency(m, d, &edge_ok, default_units);
    if !weighted {
        for l in adj.iter_mut() {
            for a in l.iter_mut() {
                a.w = default_units;
            }
        }
    }
    // A* never steps over a self-loop (neighbors() excludes the node itself); irrelevant for costs >= 0
    let dist = refalg::shortest_weights(&adj, s);
    // distance to the target: Dijkstra on the reversed arcs
    let n = adj.len();
    let mut radj: Adj = vec![Vec::new(); n];
    for u in 0..n {
        for a in &adj[u] {
            radj[a.to].push(Arc { to: u, e: a.e, w: a.w, backward: a.backward });
        }
    }
    let rdist = refalg::shortest_weights(&radj, t);
    // heuristic in quarter units: h4 = factor4 * rdist, factor4 in {0,1,2,4}
    let factor4 = |v: usize| -> i64 {
        match heur % 4 {
            0 => 0,
            1 => 4,
            2 => 2,
            _ => [0, 1, 2, 4, 4, 0][(nv_engine::mix(u64::from(hseed) ^ (m.nodes[v] << 20)) % 6) as usize],
        }
    };
    let h4: Vec<i64> = (0..n).map(|v| rdist[v].map_or(0, |r| r * factor4(v))).collect();
    let consistent = (0..n).all(|u| adj[u].iter().all(|a| h4[u] <= 4 * a.w + h4[a.to]));
    let heuristic: Option<HeuristicFn> = if heur % 4 == 0 {
        None
    } else {
        let map: BTreeMap<u64, f64> = (0..n).map(|v| (m.nodes[v], h4[v] as f64 / (4.0 * m.scale as f64))).collect();
        Some(Box::new(move |node, _target, _g| map.get(&node).copied().unwrap_or(0.0)))
    };
    // categorical features of the input used in failure signatures
    // only the part of the graph the search can reach from the start matters
    let reach = refalg::bfs(&adj, s, &|_| true, None);
    let parallel_diff = (0..n).any(|u| reach[u].is_some() && adj[u].iter().any(|a| adj[u].iter().any(|b| b.to == a.to && b.e != a.e && b.w != a.w && a.to != u)));
    let unpriceable = m.edges.iter().any(|e| {
        edge_ok(e)
            && e.from != e.to
            && (m.idx(e.from).map_or(false, |i| reach[i].is_some()) || m.idx(e.to).map_or(false, |i| reach[i].is_some()))
            && match d {
                Dir::Out | Dir::In => !e.directed,
                Dir::Both => e.directed,
            }
    });
    let feature = if parallel_diff {
        "+parallel-edges-of-different-weight"
    } else if unpriceable {
        "+undirected-edge-or-direction-both"
    } else if !consistent {
        "+admissible-inconsistent-heuristic"
    } else {
        ""
    };
    if feature.is_empty() {
        ctx.label("astar: plain input (directed edges, no differing parallels, consistent heuristic)");
    }
    if !consistent {
        ctx.label("astar: admissible but inconsistent heuristic");
    }
    let res = eng.astar_path(sid, tid, &mk_cfg(heuristic));
    let r = match res {
        Ok(r) => r,
        Err(e) => {
            ctx.fail("astar:unexpected-error", format!("{call} = Err({e})"))?;
            return Ok(TRIVIAL);
        },
    };
    let mut nt = false;
    match (&r.path, dist[t]) {
        (None, None) => {
            ctx.label("q: no path");
        },
        (None, Some(dd)) => ctx.fail(format!("astar:missed-path{feature}"), format!("{call} found no path but one of weight {} exists", dd as f64 / m.scale as f64))?,
        (Some(p), None) => ctx.fail(format!("astar:phantom-path{feature}"), format!("{call} = {p:?} but {tid} is unreachable"))?,
        (Some(p), Some(dd)) => {
            if sid == tid {
                if !(p.nodes == vec![sid] && p.edges.is_empty() && p.total_weight == 0.0) {
                    ctx.fail("astar:same-node", format!("{call} = {p:?}"))?;
                }
                return Ok(TRIVIAL);
            }
            let info = match walk_structure(m, &p.nodes, &p.edges, sid, tid) {
                Ok(i) => i,
                Err(e) => {
                    ctx.fail(format!("astar:bad-edge{}", if unpriceable { "+undirected-edge-or-direction-both" } else { "" }), format!("{call} returned {p:?}: {e}"))?;
                    return Ok(TRIVIAL);
                },
            };
            if let Some(i) = info.kinds.iter().position(|k| !kind_allowed(*k, d)) {
                ctx.fail("astar:direction", format!("{call} step {i} uses a directed edge against the requested direction: {p:?}"))?;
            }
            if let Some(k) = info.eidx.iter().find(|k| !edge_ok(&m.edges[**k])) {
                ctx.fail("astar:edge-type", format!("{call} uses edge {} of the wrong type: {p:?}", m.edges[*k].id))?;
            }
            let sum: i64 = info.eidx.iter().map(|k| if weighted { m.edges[*k].w.units(m.scale, default_units) } else { default_units }).sum();
            if !close(p.total_weight, sum, m.scale) {
                ctx.fail(
                    format!("astar:weight-sum{feature}"),
                    format!("{call} reports total {} but its edges sum to {}: {p:?}", p.total_weight, sum as f64 / m.scale as f64),
                )?;
                // only reached when the signature is a recorded finding: the totals below would repeat it
                return Ok(TRIVIAL);
            }
            if !close(p.total_weight, dd, m.scale) {
                ctx.fail(
                    format!("astar:suboptimal{feature}"),
                    format!("{call} returned total {} via {p:?}; the optimum is {}", p.total_weight, dd as f64 / m.scale as f64),
                )?;
            }
            nt = nontrivial_hops(&adj, s, t, p.edges.len(), &|_| true);
            if nt && feature.is_empty() {
                ctx.label("astar: plain input, optimum >= 2 hops and a longer alternative exists");
                if heur % 4 != 0 {
                    ctx.label("astar: plain input, >= 2 hops, alternative, with a heuristic");
                }
            }
        },
    }
    Ok(QOut { nontrivial: nt })
}

// ------------------------------------------------------------------ match_pattern with a variable-length edge

#[allow(clippy::too_many_arguments)]
fn q_match(
    eng: &GraphEngine,
    m: &Model,
    si: usize,
    ti: usize,
    endk: u8,
    min: usize,
    max: usize,
    dir: u8,
    ty: u8,
    fe: u8,
    lim: u8,
    ctx: &mut CaseCtx,
) -> Result<QOut, Fail> {
    ctx.label("q: match_pattern (variable length)");
    let (sid, tid) = (m.created[si], m.created[ti]);
    let limit = match lim % 3 {
        0 => 1000usize,
        1 => 1,
        _ => 3,
    };
    let start = NodePattern::new().variable("a").where_eq("i", PropertyValue::Int(si as i64));
    let mut ep = EdgePattern::new().variable("p").direction(direction_of(dir)).variable_length(min, max);
    if let Some(t) = ty_opt(ty) {
        ep = ep.edge_type(t);
    }
    ep = match fe {
        0 => ep,
        1 => ep.where_eq(FLAG, PropertyValue::Bool(true)),
        2 => ep.where_cond(FLAG, CompareOp::Ne, PropertyValue::Bool(true)),
        3 => ep.where_eq(FLAG, PropertyValue::Bool(false)),
        4 => ep.where_cond(WPROP, CompareOp::Le, PropertyValue::Int(2)),
        _ => ep.where_cond(WPROP, CompareOp::Gt, PropertyValue::Float(1.0)),
    };
    let end = match endk % 3 {
        0 => NodePattern::new().variable("b"),
        1 => NodePattern::new().variable("b").where_eq(FLAG, PropertyValue::Bool(true)),
        _ => NodePattern::new().variable("b").where_eq("i", PropertyValue::Int(ti as i64)),
    };
    let mut pat = Pattern::new(PathPattern::new(start, ep, end));
    if lim % 3 != 0 {
        pat = pat.limit(limit);
    }
    let call = format!(
        "match_pattern((a i={si} [node {sid}])-[p type {:?} *{min}..{max} dir {} edge-cond {fe}]-(b end-kind {} [node {tid}]), limit {limit})",
        ty_opt(ty),
        dir % 3,
        endk % 3
    );
    let scale = m.scale;
    let edge_ok = |e: &MEdge| ty_ok(e, ty) && efilt_ok(e, fe, scale);
    let end_ok = |v: u64| match endk % 3 {
        0 => true,
        1 => m.nflag[&v] == 1,
        _ => v == tid,
    };
    let d = refalg::dir_of(dir);
    let mut want: BTreeSet<(Vec<u64>, Vec<u64>)> = BTreeSet::new();
    if let Some(s) = m.idx(sid) {
        let adj = refalg::adjacency(m, d, &edge_ok, scale);
        let Some(all) = refalg::simple_paths_from(&adj, s, min, max.min(20), 30_000) else {
            ctx.label("match_pattern: skipped, enumeration too large");
            return Ok(TRIVIAL);
        };
        if min == 0 && end_ok(sid) {
            want.insert((vec![sid], vec![]));
        }
        for p in &all {
            let ids = ids_of(m, p);
            if end_ok(*ids.0.last().unwrap()) {
                want.insert(ids);
            }
        }
    }
    let r = match eng.match_pattern(&pat) {
        Ok(r) => r,
        Err(e) => {
            ctx.fail("match_pattern:unexpected-error", format!("{call} = Err({e})"))?;
            return Ok(TRIVIAL);
        },
    };
    let mut got: Vec<(Vec<u64>, Vec<u64>)> = Vec::new();
    for mt in &r.matches {
        let Some(p) = mt.get_path("p") else {
            ctx.fail("match_pattern:binding", format!("{call}: a match has no path bound to p: {:?}", mt.bindings.keys().collect::<Vec<_>>()))?;
            continue;
        };
        let (a, b) = (mt.get_node("a").map(|n| n.id), mt.get_node("b").map(|n| n.id));
        if a != Some(sid) || b != p.nodes.last().copied() || p.nodes.first() != Some(&sid) {
            ctx.fail("match_pattern:binding", format!("{call}: bindings a={a:?} b={b:?} do not agree with the bound path {p:?}"))?;
        }
        got.push((p.nodes.clone(), p.edges.clone()));
    }
    let got_set: BTreeSet<&(Vec<u64>, Vec<u64>)> = got.iter().collect();
    if got_set.len() != got.len() {
        ctx.fail("match_pattern:duplicate-match", format!("{call} returned {} matches of which only {} are distinct", got.len(), got_set.len()))?;
    }
    if got.len() > limit {
        // the match limit is not part of this property (observed: the result can exceed `limit` by up to the
        // degree of the last expanded node); counted, not asserted
        ctx.label("match_pattern: more matches than the limit returned (not asserted here)");
    }
    for p in &got_set {
        if !want.contains(*p) {
            let hops = p.1.len();
            let sig = if hops < min || hops > max {
                "match_pattern:hop-bounds"
            } else if walk_structure(m, &p.0, &p.1, sid, *p.0.last().unwrap_or(&sid)).is_err() {
                "match_pattern:not-a-walk"
            } else {
                "match_pattern:invalid-path"
            };
            ctx.fail(sig, format!("{call} bound p = {p:?} ({hops} hops), which is not a qualifying path (reference has {} paths)", want.len()))?;
        }
    }
    if got.len() < limit && want.len() < limit {
        for p in &want {
            if !got_set.contains(p) {
                // categorical feature: a path over the same node sequence (other parallel edges) was returned
                let twin = got_set.iter().any(|g| g.0 == p.0);
                let sig = if twin { "match_pattern:missing-path:parallel-edge-twin-returned" } else { "match_pattern:missing-path" };
                ctx.fail(sig, format!("{call} returned {} matches but omits {p:?} ({} hops); reference has {} paths", got.len(), p.1.len(), want.len()))?;
                break;
            }
        }
    } else {
        ctx.label("match_pattern: limit reached (validity only)");
    }
    if !want.is_empty() {
        ctx.label("match_pattern: non-empty result");
    }
    let lens: BTreeSet<usize> = want.iter().map(|p| p.1.len()).collect();
    Ok(QOut { nontrivial: lens.len() >= 2 && lens.iter().any(|l| *l >= 2) })
}
