//! Lock expiry ("... and the locks disappear when the first one ends or times out").
//!
//! Wall clock is used in the sound direction only: after sleeping past the configured lock timeout
//! the lock must be gone and the other statement must go through. Nothing is asserted to still hold
//! at a wall-clock instant (a refusal *before* the sleep is observed and counted, never required).
//!
//! `RelationalConfig::lock_timeout_secs` has a granularity of one second, so there are two regimes:
//! timeout 0 s (a lock is expired once more than 0 ms passed; no first attempt, so counts stay
//! deterministic) and timeout 1 s with a 1.3 s sleep (first attempt observed).

use crate::gen::*;
use crate::model::*;
use crate::run::*;
use nv_engine::{CaseCtx, Fail};
use relational_engine::{Condition, RelationalError, Value};
use std::time::Duration;

pub fn exp_check(case: &ExpCase, ctx: &mut CaseCtx, timeout_secs: u64, sleep_ms: u64, first_attempt: bool) -> Result<(), Fail> {
    let mut run = Run::new(timeout_secs, false);
    // both tables get the same indexes and the same rows (hence the same row ids)
    run.setup(&[case.idx, case.idx], &[case.seed.clone(), case.seed.clone()], ctx)?;
    let eng_t = run.eng.begin_transaction();
    run.m.txs.push(MTx::new(eng_t));
    const TABLE: &str = TABLES[0];
    let ut = usize::from(case.u_other_table);
    let utable = TABLES[ut];

    // first transaction: takes row locks on everything it matches
    let ids_t = run.m.tabs[0].matching(&case.t_cond);
    let cond_t = to_condition(&run.m.tabs[0], &case.t_cond);
    let r = if case.t_delete {
        run.eng.tx_delete(eng_t, TABLE, cond_t.clone())
    } else {
        run.eng.tx_update(eng_t, TABLE, cond_t.clone(), sets_map(&case.t_sets))
    };
    match r {
        Ok(n) if n == ids_t.len() => {},
        other => {
            return Err(Fail::new("expiry:first-tx-stmt", format!("first statement {cond_t:?} on an unlocked table returned {other:?}, model matches {ids_t:?}")));
        },
    }
    if case.t_delete {
        run.m.apply_delete(Some(0), 0, &ids_t);
    } else {
        run.m.apply_update(Some(0), 0, &ids_t, &norm_sets(&case.t_sets));
    }

    // second statement (another transaction or a non-transactional call), on the in-place image
    let ids_u = run.m.tabs[ut].matching(&case.u_cond);
    let (bh, brows) = run.m.tabs[ut].blockers(None, &ids_u);
    let cond_u = to_condition(&run.m.tabs[ut], &case.u_cond);
    let eng_u = if case.u_plain { None } else { Some(run.eng.begin_transaction()) };
    let kind = match (case.u_plain, case.u_delete) {
        (false, false) => "tx_update",
        (false, true) => "tx_delete",
        (true, false) => "update",
        (true, true) => "delete",
    };
    let issue = |run: &Run| -> Result<usize, RelationalError> {
        match (eng_u, case.u_delete) {
            (Some(u), false) => run.eng.tx_update(u, utable, cond_u.clone(), sets_map(&case.u_sets)),
            (Some(u), true) => run.eng.tx_delete(u, utable, cond_u.clone()),
            (None, false) => run.eng.update(utable, cond_u.clone(), sets_map(&case.u_sets)),
            (None, true) => run.eng.delete_rows(utable, cond_u.clone()),
        }
    };
    ctx.label(format!("second:{kind}"));
    ctx.label(if ut == 1 {
        "overlap:none(other-table-same-row-ids)"
    } else if bh.is_empty() {
        "overlap:none"
    } else {
        "overlap:yes"
    });

    let mut done = false;
    if bh.is_empty() || first_attempt {
        match issue(&run) {
            Ok(n) => {
                if bh.is_empty() {
                    if n != ids_u.len() {
                        ctx.fail("expiry:count", format!("{kind}({cond_u:?}) affected {n} rows, model matches {ids_u:?}"))?;
                    }
                } else {
                    // the lock was already past its deadline (possible, never wrong)
                    ctx.label("first-attempt:lock-already-expired");
                }
                done = true;
            },
            Err(RelationalError::LockConflict { .. }) if !bh.is_empty() => {
                ctx.label("first-attempt:conflict");
                ctx.set_nontrivial();
            },
            Err(e) => {
                ctx.fail(
                    format!("expiry:{kind}:first-attempt-error"),
                    format!("{kind}({cond_u:?}) returned {e:?}; rows locked by the first transaction among the matched: {brows:?}"),
                )?;
                return Ok(());
            },
        }
    }

    if !done {
        std::thread::sleep(Duration::from_millis(sleep_ms));
        let tm = run.eng.tx_manager();
        for id in run.m.tabs[0].locks.keys() {
            if tm.is_row_locked(TABLE, *id) || tm.row_lock_holder(TABLE, *id).is_some() {
                ctx.fail(
                    "expiry:still-locked-after-timeout",
                    format!("row {id}: is_row_locked/row_lock_holder still report a lock {sleep_ms} ms after it was taken (timeout {timeout_secs} s)"),
                )?;
            }
        }
        match issue(&run) {
            Ok(n) if n == ids_u.len() => ctx.label("after-timeout:ok"),
            Ok(n) => ctx.fail("expiry:count", format!("{kind}({cond_u:?}) affected {n} rows after the timeout, model matches {ids_u:?}"))?,
            Err(e) => {
                let k = if matches!(e, RelationalError::LockConflict { .. }) { "conflict-after-timeout" } else { "error-after-timeout" };
                ctx.fail(
                    format!("expiry:{kind}:{k}"),
                    format!("{kind}({cond_u:?}) {sleep_ms} ms after the lock was taken (timeout {timeout_secs} s) returned {e:?}"),
                )?;
                return Ok(());
            },
        }
    }
    if ctx.known_hit() {
        return Ok(());
    }

    // the table now carries both transactions' effects in place
    if case.u_delete {
        run.m.apply_delete(None, ut, &ids_u);
    } else {
        run.m.apply_update(None, ut, &ids_u, &norm_sets(&case.u_sets));
    }
    for t in 0..NTABS {
        let rows = run.eng.select(TABLES[t], relational_engine::Condition::True).map_err(|e| Fail::new("expiry:scan-err", format!("{e:?}")))?;
        let mut got: Vec<u64> = rows.iter().map(|r| r.id).collect();
        got.sort_unstable();
        let want = run.m.tabs[t].matching(&Cond::True);
        if got != want {
            ctx.fail("expiry:scan-after-takeover", format!("rows of {} after both statements: {got:?}, expected {want:?}", TABLES[t]))?;
        }
    }

    // Takeover exclusion: the second transaction took over rows whose locks had expired and now holds
    // them with fresh locks. Ending the FIRST transaction (whose lock list may still name those rows)
    // must not release them: a third transaction touching one of the rows must be refused. The
    // harness clock is used only to SKIP this assertion when the case stalled for half the lock
    // timeout (the second transaction's own locks might legitimately have expired by then).
    let mut first_ended = false;
    if let (Some(_u), false, false, true) = (eng_u, case.u_delete, bh.is_empty(), ut == 0 && timeout_secs >= 1 && !done_before_sleep(done, first_attempt)) {
        if let Some(row) = ids_u.first().copied() {
            let t_taken = std::time::Instant::now();
            let end_first = if case.t_delete { run.eng.rollback(eng_t) } else { run.eng.commit(eng_t) };
            if let Err(e) = end_first {
                ctx.fail("expiry:end-first", format!("ending the transaction whose locks expired failed: {e:?}"))?;
            }
            first_ended = true;
            if case.t_delete {
                // the first transaction's delete is undone: model follows only for ids it touched and
                // the second one did not re-touch; keep the comparison to the lock question only
            }
            let c = run.eng.begin_transaction();
            let cond_c = Condition::Eq("_id".to_string(), Value::Int(row as i64));
            let r = run.eng.tx_update(c, utable, cond_c, sets_map(&case.u_sets));
            let fresh = t_taken.elapsed() < Duration::from_millis(timeout_secs * 500);
            match r {
                Err(RelationalError::LockConflict { .. }) => ctx.label("takeover:third-tx-refused"),
                Ok(n) if fresh && n > 0 => {
                    ctx.fail(
                        "expiry:takeover-lock-released-by-old-holder",
                        format!("a third transaction updated row {row}, which the second transaction modified and still holds with a fresh lock, right after the first (expired) holder ended: Ok({n})"),
                    )?;
                },
                Ok(_) => ctx.label("takeover:skipped(stalled or no row)"),
                Err(e) => ctx.fail("expiry:third-tx-error", format!("{e:?}"))?,
            }
            let _ = run.eng.rollback(c);
        }
    }
    if ctx.known_hit() {
        return Ok(());
    }

    // both finish normally (an expired lock does not end its transaction); nothing may be left
    if let Some(u) = eng_u {
        if let Err(e) = run.eng.commit(u) {
            ctx.fail("expiry:commit-second", format!("{e:?}"))?;
        }
    }
    if !first_ended {
        if let Err(e) = run.eng.commit(eng_t) {
            ctx.fail("expiry:commit-first", format!("commit of the transaction whose locks expired failed: {e:?}"))?;
        }
    }
    let left = run.eng.tx_manager().active_lock_count();
    if left != 0 {
        ctx.fail("expiry:locks-left-at-end", format!("{left} row locks left after both transactions committed"))?;
    }
    Ok(())
}

/// True when the second statement already went through before the sleep (no takeover happened).
fn done_before_sleep(_done: bool, _first_attempt: bool) -> bool {
    false
}
