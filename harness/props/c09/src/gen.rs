//! Case types and generators. Every random choice is a proptest strategy.
//!
//! Two tables `t` and `w` of the same shape `(a Int, b Int NULL, s String)`; the system column `_id` is
//! column 3. Most statements address `t`; `w` hands out the same row ids, so locks and undo entries of
//! one table must not leak into the other. Small value domains on purpose: statements of different
//! transactions must overlap.

use proptest::prelude::*;
use serde::{Deserialize, Serialize};

pub const NCOLS: usize = 4; // a, b, s, _id
pub const NTABS: usize = 2;
pub const TABLES: [&str; NTABS] = ["t", "w"];
pub const COL_NAMES: [&str; NCOLS] = ["a", "b", "s", "_id"];
pub const STRS: [&str; 3] = ["p", "q", "r"];
pub const A_MAX: i64 = 3; // a in 0..=3
pub const B_MAX: i64 = 2; // b in NULL, 0..=2

/// Column values of one row.
#[derive(Clone, Debug, Serialize, Deserialize, PartialEq, Eq, PartialOrd, Ord)]
pub struct Vals {
    pub a: i64,
    pub b: Option<i64>,
    pub s: u8,
}

#[derive(Clone, Copy, Debug, Serialize, Deserialize, PartialEq, Eq)]
pub enum Cmp {
    Eq,
    Ne,
    Lt,
    Le,
    Gt,
    Ge,
}

#[derive(Clone, Debug, Serialize, Deserialize)]
pub enum Cond {
    True,
    A(Cmp, i64),
    B(Cmp, Option<i64>),
    S(Cmp, u8),
    /// `_id <cmp> k` with k = 1 + pick(i, max_id + 1) resolved against the ids handed out so far
    Id(Cmp, u16),
    And(Box<Cond>, Box<Cond>),
    Or(Box<Cond>, Box<Cond>),
}

/// Assignment to the nullable column (no nested Option: JSON `null` must round-trip through the replay file).
#[derive(Clone, Copy, Debug, Serialize, Deserialize, PartialEq, Eq)]
pub enum SetB {
    Keep,
    Null,
    To(i64),
}

impl SetB {
    pub fn value(self) -> Option<Option<i64>> {
        match self {
            SetB::Keep => None,
            SetB::Null => Some(None),
            SetB::To(v) => Some(Some(v)),
        }
    }
}

/// Assignments of an UPDATE (at least one is set; an empty mask is read as `a := a_val`).
#[derive(Clone, Debug, Serialize, Deserialize)]
pub struct Sets {
    pub a: Option<i64>,
    pub b: SetB,
    pub s: Option<u8>,
}

#[derive(Clone, Debug, Serialize, Deserialize)]
pub enum Stmt {
    Insert(Vals),
    Update(Cond, Sets),
    Delete(Cond),
}

#[derive(Clone, Debug, Serialize, Deserialize)]
pub enum Op {
    Begin,
    /// statement of the live transaction pick(h, live) on table `tb`
    Tx { h: u16, tb: u8, stmt: Stmt },
    TxSelect { h: u16, tb: u8, cond: Cond },
    Commit { h: u16 },
    Rollback { h: u16 },
    /// non-transactional statement (the engine runs it as an internal one-statement transaction)
    Plain { tb: u8, stmt: Stmt },
    Select { tb: u8, cond: Cond },
    /// call `kind` (0 insert 1 update 2 delete 3 select 4 commit 5 rollback) on a finished handle
    /// (or on an id that was never handed out when nothing is finished yet)
    UseFinished { h: u16, kind: u8 },
    /// create the index if absent, drop it if present; kind 0 = hash, 1 = btree
    ToggleIndex { tb: u8, col: u8, btree: bool },
}

#[derive(Clone, Debug, Serialize, Deserialize)]
pub struct Case {
    /// per table and column (a, b, s, _id): bit 0 = hash index, bit 1 = btree index, created before the seed rows
    pub idx: [[u8; NCOLS]; NTABS],
    pub seed: [Vec<Vals>; NTABS],
    /// allow index DDL while a transaction with pending changes is open (separate signature family)
    pub ddl_live: bool,
    pub ops: Vec<Op>,
    /// how the transactions still open at the end are finished (true = commit)
    pub finish: [bool; 4],
}

// ------------------------------------------------------------------ strategies

pub fn vals() -> impl Strategy<Value = Vals> {
    (0..=A_MAX, prop_oneof![1 => Just(None), 4 => (0..=B_MAX).prop_map(Some)], 0u8..3)
        .prop_map(|(a, b, s)| Vals { a, b, s })
}

fn cmp() -> impl Strategy<Value = Cmp> {
    prop_oneof![
        4 => Just(Cmp::Eq),
        1 => Just(Cmp::Ne),
        2 => Just(Cmp::Lt),
        2 => Just(Cmp::Le),
        2 => Just(Cmp::Gt),
        2 => Just(Cmp::Ge),
    ]
}

fn leaf() -> BoxedStrategy<Cond> {
    prop_oneof![
        2 => Just(Cond::True),
        5 => (cmp(), 0..=A_MAX).prop_map(|(c, v)| Cond::A(c, v)),
        3 => (cmp(), prop_oneof![1 => Just(None), 6 => (0..=B_MAX).prop_map(Some)]).prop_map(|(c, v)| Cond::B(c, v)),
        3 => (cmp(), 0u8..3).prop_map(|(c, v)| Cond::S(c, v)),
        5 => (cmp(), any::<u16>()).prop_map(|(c, v)| Cond::Id(c, v)),
    ]
    .boxed()
}

pub fn cond() -> BoxedStrategy<Cond> {
    prop_oneof![
        7 => leaf(),
        2 => (leaf(), leaf()).prop_map(|(x, y)| Cond::And(Box::new(x), Box::new(y))),
        1 => (leaf(), leaf()).prop_map(|(x, y)| Cond::Or(Box::new(x), Box::new(y))),
    ]
    .boxed()
}

pub fn sets() -> impl Strategy<Value = Sets> {
    (1u8..8, 0..=A_MAX, prop_oneof![1 => Just(None), 4 => (0..=B_MAX).prop_map(Some)], 0u8..3).prop_map(|(m, a, b, s)| Sets {
        a: (m & 1 != 0).then_some(a),
        b: match (m & 2 != 0, b) {
            (false, _) => SetB::Keep,
            (true, None) => SetB::Null,
            (true, Some(v)) => SetB::To(v),
        },
        s: (m & 4 != 0).then_some(s),
    })
}

pub fn stmt() -> BoxedStrategy<Stmt> {
    prop_oneof![
        3 => vals().prop_map(Stmt::Insert),
        6 => (cond(), sets()).prop_map(|(c, s)| Stmt::Update(c, s)),
        3 => cond().prop_map(Stmt::Delete),
    ]
    .boxed()
}

/// table of a statement: `t` three times out of four
fn tb() -> impl Strategy<Value = u8> {
    prop_oneof![3 => Just(0u8), 1 => Just(1u8)]
}

fn op() -> BoxedStrategy<Op> {
    prop_oneof![
        6 => Just(Op::Begin),
        24 => (any::<u16>(), tb(), stmt()).prop_map(|(h, tb, stmt)| Op::Tx { h, tb, stmt }),
        2 => (any::<u16>(), tb(), cond()).prop_map(|(h, tb, cond)| Op::TxSelect { h, tb, cond }),
        4 => any::<u16>().prop_map(|h| Op::Commit { h }),
        7 => any::<u16>().prop_map(|h| Op::Rollback { h }),
        8 => (tb(), stmt()).prop_map(|(tb, stmt)| Op::Plain { tb, stmt }),
        1 => (tb(), cond()).prop_map(|(tb, cond)| Op::Select { tb, cond }),
        2 => (any::<u16>(), 0u8..6).prop_map(|(h, kind)| Op::UseFinished { h, kind }),
        3 => (tb(), 0u8..NCOLS as u8, any::<bool>()).prop_map(|(tb, col, btree)| Op::ToggleIndex { tb, col, btree }),
    ]
    .boxed()
}

fn idx_cfg() -> impl Strategy<Value = [u8; NCOLS]> {
    // every column draws none / hash / btree / both; `a` is indexed more often than not
    (
        prop_oneof![1 => Just(0u8), 3 => Just(1u8), 3 => Just(2u8), 3 => Just(3u8)],
        prop_oneof![3 => Just(0u8), 2 => Just(1u8), 2 => Just(2u8), 2 => Just(3u8)],
        prop_oneof![4 => Just(0u8), 2 => Just(1u8), 2 => Just(2u8), 1 => Just(3u8)],
        prop_oneof![4 => Just(0u8), 2 => Just(1u8), 2 => Just(2u8), 1 => Just(3u8)],
    )
        .prop_map(|(a, b, s, i)| [a, b, s, i])
}

pub fn case_strategy(max_ops: usize) -> impl Strategy<Value = Case> {
    (
        (idx_cfg(), idx_cfg()).prop_map(|(x, y)| [x, y]),
        (prop::collection::vec(vals(), 0..8), prop::collection::vec(vals(), 0..5)).prop_map(|(x, y)| [x, y]),
        prop::bool::weighted(0.08),
        prop::collection::vec(op(), 0..=max_ops),
        any::<[bool; 4]>(),
    )
        .prop_map(|(idx, seed, ddl_live, ops, finish)| Case { idx, seed, ddl_live, ops, finish })
}

// ------------------------------------------------------------------ lock-expiry regime

#[derive(Clone, Debug, Serialize, Deserialize)]
pub struct ExpCase {
    pub idx: [u8; NCOLS],
    pub seed: Vec<Vals>,
    /// first transaction: delete (true) or update
    pub t_delete: bool,
    pub t_cond: Cond,
    pub t_sets: Sets,
    pub u_delete: bool,
    pub u_cond: Cond,
    pub u_sets: Sets,
    /// the second statement is issued non-transactionally
    pub u_plain: bool,
    /// the second statement addresses the other table (same row ids, same contents): never blocked
    pub u_other_table: bool,
}

pub fn exp_strategy() -> impl Strategy<Value = ExpCase> {
    (
        idx_cfg(),
        prop::collection::vec(vals(), 1..6),
        // conditions lean towards `True` so that the two statements usually share rows
        (prop::bool::weighted(0.3), prop_oneof![2 => Just(Cond::True), 3 => cond()], sets()),
        (prop::bool::weighted(0.3), prop_oneof![2 => Just(Cond::True), 3 => cond()], sets()),
        prop::bool::weighted(0.25),
        prop::bool::weighted(0.15),
    )
        .prop_map(|(idx, seed, (t_delete, t_cond, t_sets), (u_delete, u_cond, u_sets), u_plain, u_other_table)| ExpCase {
            idx,
            seed,
            t_delete,
            t_cond,
            t_sets,
            u_delete,
            u_cond,
            u_sets,
            u_plain,
            u_other_table,
        })
}
