//! Reference model: physical table images (uncommitted effects in place), row locks, and per
//! transaction a *before image* of every row it touched first (order independent: a rollback restores
//! each touched row to that image; the product replays an undo log backwards instead).

use crate::gen::*;
use std::collections::{BTreeMap, BTreeSet};

#[derive(Clone, Debug)]
pub struct MRow {
    pub vals: Vals,
    pub alive: bool,
    /// handle of the still-open transaction that inserted the row
    pub ins_by: Option<usize>,
}

#[derive(Clone, Copy, Debug, PartialEq, Eq)]
pub enum TxState {
    Live,
    Committed,
    RolledBack,
}

#[derive(Clone, Debug)]
pub struct MTx {
    pub eid: u64,
    pub state: TxState,
    /// (table, row id) -> image at first touch (None = the row did not exist)
    pub before: BTreeMap<(usize, u64), Option<Vals>>,
    /// bit 0 insert, bit 1 update (>= 1 row), bit 2 delete (>= 1 row)
    pub kinds: u8,
    /// an update/delete of this transaction ran while the column had exactly one index kind
    /// (used only to classify signatures): [table][col] -> (hash only, btree only)
    pub one_kind: [[(bool, bool); NCOLS]; NTABS],
}

impl MTx {
    pub fn new(eid: u64) -> Self {
        MTx { eid, state: TxState::Live, before: BTreeMap::new(), kinds: 0, one_kind: [[(false, false); NCOLS]; NTABS] }
    }
    pub fn dirty(&self) -> bool {
        !self.before.is_empty()
    }
}

#[derive(Clone, Debug, Default)]
pub struct TableM {
    pub rows: BTreeMap<u64, MRow>,
    /// row id -> handle of the live transaction holding the row lock
    pub locks: BTreeMap<u64, usize>,
    pub hash: [bool; NCOLS],
    pub btree: [bool; NCOLS],
    pub max_id: u64,
    /// a rollback re-added index entries for a column that had only the other index kind
    /// (signature classification only)
    pub ghost_btree: [bool; NCOLS],
    pub ghost_hash: [bool; NCOLS],
}

#[derive(Clone, Debug, Default)]
pub struct Model {
    pub tabs: [TableM; NTABS],
    pub txs: Vec<MTx>,
    /// an index was created or dropped while a transaction had pending changes
    pub ddl_in_open_tx: bool,
}

pub fn cmp_ok<T: Ord>(c: Cmp, l: &T, r: &T) -> bool {
    match c {
        Cmp::Eq => l == r,
        Cmp::Ne => l != r,
        Cmp::Lt => l < r,
        Cmp::Le => l <= r,
        Cmp::Gt => l > r,
        Cmp::Ge => l >= r,
    }
}

impl TableM {
    pub fn id_of(&self, i: u16) -> u64 {
        1 + nv_engine::pick(i, self.max_id as usize + 1) as u64
    }

    /// Truth of `c` on a row. NULL semantics as documented by Condition: `=`/`!=` compare values
    /// (NULL = NULL holds), an ordering comparison with NULL on either side is false.
    pub fn eval(&self, c: &Cond, id: u64, v: &Vals) -> bool {
        match c {
            Cond::True => true,
            Cond::A(op, k) => cmp_ok(*op, &v.a, k),
            Cond::B(op, k) => match op {
                Cmp::Eq => v.b == *k,
                Cmp::Ne => v.b != *k,
                _ => match (v.b, k) {
                    (Some(x), Some(y)) => cmp_ok(*op, &x, y),
                    _ => false,
                },
            },
            Cond::S(op, k) => cmp_ok(*op, &STRS[v.s as usize], &STRS[*k as usize]),
            Cond::Id(op, i) => cmp_ok(*op, &id, &self.id_of(*i)),
            Cond::And(x, y) => self.eval(x, id, v) && self.eval(y, id, v),
            Cond::Or(x, y) => self.eval(x, id, v) || self.eval(y, id, v),
        }
    }

    pub fn matching(&self, c: &Cond) -> Vec<u64> {
        self.rows.iter().filter(|(id, r)| r.alive && self.eval(c, **id, &r.vals)).map(|(id, _)| *id).collect()
    }

    pub fn expected(&self, c: &Cond) -> Vec<(u64, Vals)> {
        self.matching(c).into_iter().map(|id| (id, self.rows[&id].vals.clone())).collect()
    }

    pub fn indexed(&self) -> bool {
        self.hash.iter().chain(self.btree.iter()).any(|b| *b)
    }

    /// Handles (other than `me`) holding a lock on one of `ids`, with the rows concerned.
    pub fn blockers(&self, me: Option<usize>, ids: &[u64]) -> (BTreeSet<usize>, BTreeSet<u64>) {
        let mut hs = BTreeSet::new();
        let mut rs = BTreeSet::new();
        for id in ids {
            if let Some(h) = self.locks.get(id) {
                if Some(*h) != me {
                    hs.insert(*h);
                    rs.insert(*id);
                }
            }
        }
        (hs, rs)
    }

}

impl Model {
    pub fn live_handles(&self) -> Vec<usize> {
        (0..self.txs.len()).filter(|h| self.txs[*h].state == TxState::Live).collect()
    }

    pub fn finished_handles(&self) -> Vec<usize> {
        (0..self.txs.len()).filter(|h| self.txs[*h].state != TxState::Live).collect()
    }

    pub fn any_dirty_live(&self) -> bool {
        self.txs.iter().any(|t| t.state == TxState::Live && t.dirty())
    }

    pub fn other_dirty_live(&self, me: Option<usize>) -> bool {
        self.txs.iter().enumerate().any(|(h, t)| Some(h) != me && t.state == TxState::Live && t.dirty())
    }

    pub fn lock_count(&self) -> usize {
        self.tabs.iter().map(|t| t.locks.len()).sum()
    }

    fn touch(&mut self, me: Option<usize>, t: usize, id: u64) {
        if let Some(h) = me {
            let img = self.tabs[t].rows.get(&id).filter(|r| r.alive).map(|r| r.vals.clone());
            self.txs[h].before.entry((t, id)).or_insert(img);
        }
    }

    fn note_one_kind(&mut self, me: Option<usize>, t: usize, cols: [bool; NCOLS]) {
        if let Some(h) = me {
            for c in 0..NCOLS {
                if cols[c] {
                    if self.tabs[t].hash[c] && !self.tabs[t].btree[c] {
                        self.txs[h].one_kind[t][c].0 = true;
                    }
                    if self.tabs[t].btree[c] && !self.tabs[t].hash[c] {
                        self.txs[h].one_kind[t][c].1 = true;
                    }
                }
            }
        }
    }

    pub fn apply_insert(&mut self, me: Option<usize>, t: usize, id: u64, v: &Vals) {
        self.touch(me, t, id);
        let tab = &mut self.tabs[t];
        tab.rows.insert(id, MRow { vals: v.clone(), alive: true, ins_by: me });
        tab.max_id = tab.max_id.max(id);
        if let Some(h) = me {
            // a row inserted by an open transaction is its own until the transaction ends
            tab.locks.insert(id, h);
        }
        if let Some(h) = me {
            self.txs[h].kinds |= 1;
        }
    }

    pub fn apply_update(&mut self, me: Option<usize>, t: usize, ids: &[u64], s: &Sets) {
        for id in ids {
            self.touch(me, t, *id);
            let tab = &mut self.tabs[t];
            if let Some(h) = me {
                tab.locks.insert(*id, h);
            }
            let r = tab.rows.get_mut(id).expect("matched row");
            if let Some(a) = s.a {
                r.vals.a = a;
            }
            if let Some(b) = s.b.value() {
                r.vals.b = b;
            }
            if let Some(x) = s.s {
                r.vals.s = x;
            }
        }
        if !ids.is_empty() {
            self.note_one_kind(me, t, [s.a.is_some(), s.b != SetB::Keep, s.s.is_some(), false]);
            if let Some(h) = me {
                self.txs[h].kinds |= 2;
            }
        }
    }

    pub fn apply_delete(&mut self, me: Option<usize>, t: usize, ids: &[u64]) {
        for id in ids {
            self.touch(me, t, *id);
            let tab = &mut self.tabs[t];
            if let Some(h) = me {
                tab.locks.insert(*id, h);
            }
            tab.rows.get_mut(id).expect("matched row").alive = false;
        }
        if !ids.is_empty() {
            self.note_one_kind(me, t, [true; NCOLS]);
            if let Some(h) = me {
                self.txs[h].kinds |= 4;
            }
        }
    }

    pub fn finish(&mut self, h: usize, commit: bool) {
        let before = std::mem::take(&mut self.txs[h].before);
        if !commit {
            for ((t, id), img) in before {
                let r = self.tabs[t].rows.get_mut(&id).expect("touched row");
                match img {
                    None => r.alive = false,
                    Some(v) => {
                        r.alive = true;
                        r.vals = v;
                    },
                }
            }
            for t in 0..NTABS {
                for c in 0..NCOLS {
                    let (hash_only, btree_only) = self.txs[h].one_kind[t][c];
                    if hash_only {
                        self.tabs[t].ghost_btree[c] = true;
                    }
                    if btree_only {
                        self.tabs[t].ghost_hash[c] = true;
                    }
                }
            }
        }
        for tab in &mut self.tabs {
            for r in tab.rows.values_mut() {
                if r.ins_by == Some(h) {
                    r.ins_by = None;
                }
            }
            tab.locks.retain(|_, o| *o != h);
        }
        self.txs[h].state = if commit { TxState::Committed } else { TxState::RolledBack };
    }
}
