//! C09 `retouch` part: a transaction modifies a row, idles past the lock timeout (1 s) and then
//! modifies the same row AGAIN. That second modification takes the row lock anew, so another
//! transaction arriving right afterwards must be refused with LockConflict ("while a transaction
//! has modified a row, no other transaction can modify or delete that row").
//!
//! Wall clock in the sound direction only: the refusal is required only when the harness's own
//! clock shows that less than 400 ms passed between the start of the re-touch and the end of the
//! other transaction's attempt (the renewed lock lasts 1 s).

use crate::run::FOREVER_SECS;
use nv_engine::{CaseCtx, Fail};
use proptest::prelude::*;
use relational_engine::{Column, ColumnType, Condition, RelationalConfig, RelationalEngine, RelationalError, Schema, Value};
use serde::{Deserialize, Serialize};
use std::collections::HashMap;
use std::time::{Duration, Instant};

#[derive(Clone, Debug, Serialize, Deserialize)]
pub struct RetouchCase {
    pub rows: u8,
    pub target: u8,
    /// the re-touch is a delete instead of an update
    pub retouch_delete: bool,
    /// the other transaction deletes instead of updating
    pub other_delete: bool,
    pub hash_index: bool,
}

pub fn strategy() -> impl Strategy<Value = RetouchCase> {
    (1u8..5, any::<u8>(), prop::bool::weighted(0.2), any::<bool>(), any::<bool>())
        .prop_map(|(rows, target, retouch_delete, other_delete, hash_index)| RetouchCase { rows, target, retouch_delete, other_delete, hash_index })
}

fn set_v(v: i64) -> HashMap<String, Value> {
    HashMap::from([("v".to_string(), Value::Int(v))])
}

pub fn check(c: &RetouchCase, ctx: &mut CaseCtx) -> Result<(), Fail> {
    let cfg = RelationalConfig { default_query_timeout_ms: None, lock_timeout_secs: 1, transaction_timeout_secs: FOREVER_SECS, ..RelationalConfig::default() };
    let eng = RelationalEngine::with_config(cfg);
    eng.create_table("t", Schema::new(vec![Column::new("a", ColumnType::Int), Column::new("v", ColumnType::Int)]))
        .map_err(|e| Fail::new("harness", format!("{e:?}")))?;
    if c.hash_index {
        eng.create_index("t", "a").map_err(|e| Fail::new("harness", format!("{e:?}")))?;
    }
    for i in 0..c.rows {
        eng.insert("t", HashMap::from([("a".to_string(), Value::Int(i64::from(i))), ("v".to_string(), Value::Int(0))]))
            .map_err(|e| Fail::new("harness", format!("{e:?}")))?;
    }
    let k = i64::from(c.target % c.rows);
    let cond = || Condition::Eq("a".to_string(), Value::Int(k));
    let a = eng.begin_transaction();
    match eng.tx_update(a, "t", cond(), set_v(1)) {
        Ok(1) => {},
        other => return Err(Fail::new("harness", format!("first update returned {other:?}"))),
    }
    std::thread::sleep(Duration::from_millis(1300));
    // the re-touch: A's lock on the row has expired by now; modifying the row again must lock it again
    let t0 = Instant::now();
    let r = if c.retouch_delete { eng.tx_delete(a, "t", cond()) } else { eng.tx_update(a, "t", cond(), set_v(2)) };
    match r {
        Ok(1) => {},
        other => return ctx.fail("retouch:own-row-refused", format!("transaction {a} could not modify its own row again after its lock expired: {other:?}")),
    }
    let b = eng.begin_transaction();
    let attempt = if c.other_delete { eng.tx_delete(b, "t", cond()) } else { eng.tx_update(b, "t", cond(), set_v(3)) };
    let elapsed = t0.elapsed();
    if elapsed >= Duration::from_millis(400) {
        ctx.label("retouch: machine too slow, not judged");
        let _ = eng.rollback(b);
        let _ = eng.rollback(a);
        return Ok(());
    }
    ctx.set_nontrivial();
    ctx.label("retouch: another transaction arrives right after a re-touch of an expired lock");
    match attempt {
        Err(RelationalError::LockConflict { .. }) => {},
        // a deleted row is simply not matched any more (0 rows): nothing was modified
        Ok(0) if c.retouch_delete => {},
        other => {
            ctx.fail(
                "retouch:lock-not-renewed",
                format!("transaction {a} modified row a={k} again {elapsed:?} ago (after its first lock had expired); transaction {b}'s {} of that row returned {other:?} instead of LockConflict", if c.other_delete { "delete" } else { "update" }),
            )?;
        },
    }
    let _ = eng.rollback(b);
    let _ = eng.rollback(a);
    Ok(())
}
