//! C09 `budget` part: statements that FAIL half-way inside a transaction.
//!
//! `RelationalConfig::max_btree_entries` bounds the number of distinct keys of the ordered indexes;
//! an insert or update that needs one more key is refused with `ResultTooLarge` — after part of the
//! statement's work (slab row, hash index, other ordered indexes) may already have been done. A
//! transaction that met such a refusal and is then rolled back must still leave the table and every
//! index-answered query "exactly as if none of its statements had run".
//!
//! Oracle (metamorphic, no model): the battery of reads taken just before `begin_transaction` must
//! be reproduced exactly after `rollback`. One transaction, one table, nobody else writes.

use crate::gen::{sets, vals, Sets, Vals, A_MAX, B_MAX, STRS};
use crate::run::{sets_map, vals_map, FOREVER_SECS};
use nv_engine::{CaseCtx, Fail};
use proptest::prelude::*;
use relational_engine::{Column, ColumnType, Condition, RelationalConfig, RelationalEngine, RelationalError, Schema, Value};
use serde::{Deserialize, Serialize};

#[derive(Clone, Debug, Serialize, Deserialize)]
pub enum BStmt {
    Insert(Vals),
    /// UPDATE t SET … WHERE a = k
    Update(i64, Sets),
    /// DELETE FROM t WHERE a = k
    Delete(i64),
}

#[derive(Clone, Debug, Serialize, Deserialize)]
pub struct BudgetCase {
    /// max_btree_entries of the engine
    pub budget: u8,
    /// per column a, b, s: bit 0 = hash index, bit 1 = ordered index (column a always has an ordered one)
    pub idx: [u8; 3],
    pub seed: Vec<Vals>,
    pub stmts: Vec<BStmt>,
}

pub fn strategy() -> impl Strategy<Value = BudgetCase> {
    let st = prop_oneof![
        3 => vals().prop_map(BStmt::Insert),
        3 => (0..=A_MAX, sets()).prop_map(|(k, s)| BStmt::Update(k, s)),
        1 => (0..=A_MAX).prop_map(BStmt::Delete),
    ];
    (1u8..=6, [0u8..4, 0u8..4, 0u8..4], prop::collection::vec(vals(), 0..6), prop::collection::vec(st, 1..=5))
        .prop_map(|(budget, idx, seed, stmts)| BudgetCase { budget, idx, seed, stmts })
}

const COLS: [&str; 3] = ["a", "b", "s"];

fn domain(c: usize) -> Vec<Value> {
    match c {
        0 => (0..=A_MAX).map(Value::Int).collect(),
        1 => std::iter::once(Value::Null).chain((0..=B_MAX).map(Value::Int)).collect(),
        _ => STRS.iter().map(|s| Value::String((*s).to_string())).collect(),
    }
}

/// Every read the part compares: the scan and, per column and domain value, the Eq / Lt / Ge
/// selections (answered through whatever index the column has), as sorted lists of rows.
fn observe(eng: &RelationalEngine) -> Result<Vec<String>, Fail> {
    let mut out = Vec::new();
    let mut run = |name: String, cond: Condition| -> Result<(), Fail> {
        let rows = eng.select("t", cond).map_err(|e| Fail::new("budget:read-error", format!("{name}: {e:?}")))?;
        let mut lines: Vec<String> = rows
            .iter()
            .map(|r| {
                let mut vs: Vec<String> = r.values.iter().map(|(k, v)| format!("{k}={v:?}")).collect();
                vs.sort();
                format!("#{} {}", r.id, vs.join(" "))
            })
            .collect();
        lines.sort();
        out.push(format!("{name}: [{}]", lines.join("; ")));
        Ok(())
    };
    run("scan".into(), Condition::True)?;
    for (c, col) in COLS.iter().enumerate() {
        for v in domain(c) {
            run(format!("{col} = {v:?}"), Condition::Eq((*col).to_string(), v.clone()))?;
            if !matches!(v, Value::Null) {
                run(format!("{col} < {v:?}"), Condition::Lt((*col).to_string(), v.clone()))?;
                run(format!("{col} >= {v:?}"), Condition::Ge((*col).to_string(), v.clone()))?;
            }
        }
    }
    Ok(out)
}

pub fn check(c: &BudgetCase, ctx: &mut CaseCtx) -> Result<(), Fail> {
    let cfg = RelationalConfig {
        default_query_timeout_ms: None,
        lock_timeout_secs: FOREVER_SECS,
        transaction_timeout_secs: FOREVER_SECS,
        ..RelationalConfig::default()
    }
    .with_max_btree_entries(c.budget as usize);
    let eng = RelationalEngine::with_config(cfg);
    let schema = Schema::new(vec![
        Column::new("a", ColumnType::Int),
        Column::new("b", ColumnType::Int).nullable(),
        Column::new("s", ColumnType::String),
    ]);
    eng.create_table("t", schema).map_err(|e| Fail::new("harness", format!("{e:?}")))?;
    for (i, col) in COLS.iter().enumerate() {
        let bits = if i == 0 { c.idx[i] | 2 } else { c.idx[i] };
        if bits & 1 != 0 {
            eng.create_index("t", col).map_err(|e| Fail::new("harness", format!("{e:?}")))?;
        }
        if bits & 2 != 0 {
            eng.create_btree_index("t", col).map_err(|e| Fail::new("harness", format!("{e:?}")))?;
        }
    }
    // seed rows: non-transactional; a refusal here only changes what the starting state is
    for v in &c.seed {
        let _ = eng.insert("t", vals_map(v));
    }
    let before = observe(&eng)?;

    let tx = eng.begin_transaction();
    let mut refused: Vec<&'static str> = Vec::new();
    let mut effective = 0;
    for s in &c.stmts {
        let (kind, res): (&'static str, Result<usize, RelationalError>) = match s {
            BStmt::Insert(v) => ("insert", eng.tx_insert(tx, "t", vals_map(v)).map(|_| 1)),
            BStmt::Update(k, sets) => ("update", eng.tx_update(tx, "t", Condition::Eq("a".into(), Value::Int(*k)), sets_map(sets))),
            BStmt::Delete(k) => ("delete", eng.tx_delete(tx, "t", Condition::Eq("a".into(), Value::Int(*k)))),
        };
        match res {
            Ok(n) if n > 0 => effective += 1,
            Ok(_) => {},
            Err(RelationalError::ResultTooLarge { .. }) => refused.push(kind),
            Err(e) => return Err(Fail::new("budget:unexpected-error", format!("tx_{kind} failed with {e:?}"))),
        }
    }
    if let Err(e) = eng.rollback(tx) {
        ctx.fail("budget:rollback-error", format!("rollback of the only open transaction failed: {e:?}"))?;
        return Ok(());
    }
    if !refused.is_empty() {
        ctx.label(format!("a tx_{} was refused by the ordered-index budget, then rolled back", refused[0]));
        ctx.set_nontrivial();
    } else if effective > 0 {
        ctx.label("no refusal; effective statements rolled back");
    }
    let after = observe(&eng)?;
    if before != after {
        let (b, a) = before.iter().zip(after.iter()).find(|(b, a)| b != a).expect("a difference");
        let which = if b.starts_with("scan") { "table" } else { "index-read" };
        let cause = refused.first().map_or("no-refused-statement".to_string(), |k| format!("after-refused-{k}"));
        ctx.fail(
            format!("budget:rollback-left-a-trace:{which}:{cause}"),
            format!(
                "budget {} ordered-index keys; statements {:?}; refused: {:?}. Before begin: {b}  /  after rollback: {a}",
                c.budget, c.stmts, refused
            ),
        )?;
    }
    Ok(())
}
