//! C09 — Relational transactions are all-or-nothing and writers exclude each other.
//!
//! Parts:
//!  * `interleave`  programs of up to 40 operations over two tables of the same shape (`t`, used by three
//!                  statements out of four, and `w`, which hands out the same row ids) whose hash / btree
//!                  indexes are drawn and changed mid-program: up to 4 concurrently open transactions interleaved at
//!                  statement granularity (tx_insert / tx_update / tx_delete / tx_select / commit /
//!                  rollback), non-transactional insert / update / delete_rows / select in between, and
//!                  calls on finished handles. Oracle: a model holding the physical image, the row locks
//!                  and per transaction the before-image of every row it touched; after every step the
//!                  lock table and a battery of reads (scan, Eq through hash indexes, ranges through btree
//!                  indexes, `_id`, AND-combinations) must equal the model; a statement that matches a row
//!                  locked by another open transaction must get LockConflict and change nothing, and is
//!                  issued again (and must pass) once the holders have finished.
//!  * `expiry0`     lock timeout 0 s: after 5 ms the second writer must go through.
//!  * `expiry1`     lock timeout 1 s: refusal observed at once (counted, not required), success
//!                  required after 1.3 s.
//!  * `retouch`     a transaction modifies a row again after its lock (timeout 1 s) expired; another
//!                  transaction arriving right afterwards must be refused.
//!  * `budget`      one transaction on an engine whose ordered-index key budget (max_btree_entries) is
//!                  1..6: some of its statements are refused half-way with ResultTooLarge; after the
//!                  rollback every read must be what it was before begin_transaction.

mod budget;
mod expiry;
mod gen;
mod model;
mod retouch;
mod run;

use nv_engine::{main_for, PropDef, PropPart, Tier};

fn main() {
    main_for(PropDef {
        id: "C09",
        level: "exploration",
        rule: "interleave: a program of <=40 (quick) / <=60 (thorough) operations over <=4 concurrently open transactions, non-transactional statements, finished-handle calls and index DDL on two tables t and w of the same shape (a Int 0..3, b nullable Int 0..2, s String of 3, plus _id; each column of each table draws no / hash / btree / both indexes; 3 of 4 statements address t); non-trivial = the program contains a rollback of a transaction that executed >= 2 different kinds of effective statements (insert / update of >=1 row / delete of >=1 row) on a table that has at least one index at that moment, or a statement that was refused with LockConflict. expiry0/expiry1: two writers on overlapping rows (or, in 20%, on equal row ids of the other table) with a 0 s / 1 s lock timeout; non-trivial = a LockConflict was observed before the sleep (expiry1 only; expiry0 makes no first attempt). budget: one transaction of 1-5 statements on an engine with max_btree_entries 1..6, rolled back; non-trivial = at least one statement was refused with ResultTooLarge. distinct = distinct generated case (hash of its JSON).",
        assumptions: vec![
            "single thread; statements of different transactions interleave at statement granularity (each tx_* call is one step)",
            "the table image is physical (uncommitted changes in place, as the anchored mechanism describes); what tx_select shows of another open transaction's changes is not checked",
            "a row inserted by an open transaction is locked by it like a row it updated: statements of others matching it must be refused with LockConflict",
            "non-transactional update/delete_rows run as an internal one-statement transaction (relational_engine/src/lib.rs:3897, :3985) and are therefore expected to be refused on rows locked by an open transaction",
            "row ids consumed by a rolled-back insert are not handed out again; only freshness of returned ids is required",
            "index DDL while a transaction has pending changes is generated in 8% of the programs only and reported under the separate signature family ddl-in-open-tx/...",
            "main regime: lock and transaction timeouts of 10^7 s, no query timeout, so wall clock never matters; expiry parts assert only after sleeping past the deadline",
            "NULL is always passed explicitly on insert (the omitted-key path is C04's subject)",
        ],
        parts: vec![
            PropPart::new(
                "interleave",
                10_000,
                500_000,
                |tier: Tier| gen::case_strategy(tier.pick(40, 60)),
                run::run_case,
            )
            .boxed(),
            PropPart::new("expiry0", 4_000, 100_000, |_| gen::exp_strategy(), |c, ctx| expiry::exp_check(c, ctx, 0, 5, false)).boxed(),
            PropPart::new("expiry1", 192, 1920, |_| gen::exp_strategy(), |c, ctx| expiry::exp_check(c, ctx, 1, 1300, true))
                .shrink_iters(8)
                .boxed(),
            PropPart::new("budget", 20_000, 400_000, |_| budget::strategy(), budget::check).boxed(),
            // each case sleeps 1.3 s: two per worker thread in the quick tier
            PropPart::new("retouch", 32, 640, |_| retouch::strategy(), retouch::check).shrink_iters(4).boxed(),
        ],
        children: vec![],
    });
}
