//! Interpreter: applies a generated program to a fresh RelationalEngine and to the model, and checks
//! the expectations of C09 after every step.

use crate::gen::*;
use crate::model::*;
use nv_engine::{pick, CaseCtx, Fail};
use relational_engine::{Column, ColumnType, Condition, RelationalConfig, RelationalEngine, RelationalError, Row, Schema, Value};
use std::collections::{BTreeMap, BTreeSet, HashMap};

/// lock / transaction timeout of the main regime: wall clock never matters
pub const FOREVER_SECS: u64 = 10_000_000;

pub fn new_engine(lock_timeout_secs: u64) -> RelationalEngine {
    let cfg = RelationalConfig {
        default_query_timeout_ms: None,
        lock_timeout_secs,
        transaction_timeout_secs: FOREVER_SECS,
        ..RelationalConfig::default()
    };
    RelationalEngine::with_config(cfg)
}

pub fn vals_map(v: &Vals) -> HashMap<String, Value> {
    let mut m = HashMap::new();
    m.insert("a".to_string(), Value::Int(v.a));
    // NULL is always passed explicitly (an omitted key is another code path, out of scope here)
    m.insert("b".to_string(), v.b.map_or(Value::Null, Value::Int));
    m.insert("s".to_string(), Value::String(STRS[v.s as usize].to_string()));
    m
}

pub fn sets_map(s: &Sets) -> HashMap<String, Value> {
    let mut m = HashMap::new();
    if let Some(a) = s.a {
        m.insert("a".to_string(), Value::Int(a));
    }
    if let Some(b) = s.b.value() {
        m.insert("b".to_string(), b.map_or(Value::Null, Value::Int));
    }
    if let Some(x) = s.s {
        m.insert("s".to_string(), Value::String(STRS[x as usize].to_string()));
    }
    if m.is_empty() {
        m.insert("a".to_string(), Value::Int(0));
    }
    m
}

/// Reads an empty assignment mask the way `sets_map` sends it.
pub fn norm_sets(s: &Sets) -> Sets {
    if s.a.is_none() && s.b == SetB::Keep && s.s.is_none() {
        Sets { a: Some(0), b: SetB::Keep, s: None }
    } else {
        s.clone()
    }
}

fn leaf(op: Cmp, col: &str, v: Value) -> Condition {
    let c = col.to_string();
    match op {
        Cmp::Eq => Condition::Eq(c, v),
        Cmp::Ne => Condition::Ne(c, v),
        Cmp::Lt => Condition::Lt(c, v),
        Cmp::Le => Condition::Le(c, v),
        Cmp::Gt => Condition::Gt(c, v),
        Cmp::Ge => Condition::Ge(c, v),
    }
}

pub fn to_condition(m: &TableM, c: &Cond) -> Condition {
    match c {
        Cond::True => Condition::True,
        Cond::A(op, k) => leaf(*op, "a", Value::Int(*k)),
        Cond::B(op, k) => leaf(*op, "b", k.map_or(Value::Null, Value::Int)),
        Cond::S(op, k) => leaf(*op, "s", Value::String(STRS[*k as usize].to_string())),
        Cond::Id(op, i) => leaf(*op, "_id", Value::Int(m.id_of(*i) as i64)),
        Cond::And(x, y) => Condition::And(Box::new(to_condition(m, x)), Box::new(to_condition(m, y))),
        Cond::Or(x, y) => Condition::Or(Box::new(to_condition(m, x)), Box::new(to_condition(m, y))),
    }
}

/// Which access path the engine documents for this condition given the current indexes
/// (Eq -> hash index, ordering -> btree index, AND -> first indexable side). Signature only.
pub fn path_of(m: &TableM, c: &Cond) -> (&'static str, Option<usize>) {
    let leaf = |op: Cmp, col: usize| -> Option<(&'static str, Option<usize>)> {
        match op {
            Cmp::Eq if m.hash[col] => Some((if col == 3 { "id-hash-eq" } else { "hash-eq" }, Some(col))),
            Cmp::Lt | Cmp::Le | Cmp::Gt | Cmp::Ge if m.btree[col] => {
                Some((if col == 3 { "id-btree-range" } else { "btree-range" }, Some(col)))
            },
            _ => None,
        }
    };
    fn go(c: &Cond, leaf: &dyn Fn(Cmp, usize) -> Option<(&'static str, Option<usize>)>) -> Option<(&'static str, Option<usize>)> {
        match c {
            Cond::A(op, _) => leaf(*op, 0),
            Cond::B(op, _) => leaf(*op, 1),
            Cond::S(op, _) => leaf(*op, 2),
            Cond::Id(op, _) => leaf(*op, 3),
            Cond::And(x, y) => go(x, leaf).or_else(|| go(y, leaf)),
            _ => None,
        }
    }
    go(c, &leaf).unwrap_or(("scan", None))
}

fn row_to_model(r: &Row) -> Result<(u64, Vals), String> {
    let mut a = None;
    let mut b = None;
    let mut s = None;
    for (k, v) in &r.values {
        match (k.as_str(), v) {
            ("a", Value::Int(x)) => a = Some(*x),
            ("b", Value::Int(x)) => b = Some(Some(*x)),
            ("b", Value::Null) => b = Some(None),
            ("s", Value::String(x)) => s = STRS.iter().position(|y| y == x).map(|p| p as u8),
            _ => return Err(format!("row {} has an unexpected cell {k}={v:?}", r.id)),
        }
    }
    match (a, b, s) {
        (Some(a), Some(b), Some(s)) => Ok((r.id, Vals { a, b, s })),
        _ => Err(format!("row {} is incomplete: {:?}", r.id, r.values)),
    }
}

/// Compares a result with the expected rows (both as multisets keyed by id).
fn diff(expected: &[(u64, Vals)], got: &[Row]) -> Option<(&'static str, String)> {
    let mut g: Vec<(u64, Vals)> = Vec::with_capacity(got.len());
    for r in got {
        match row_to_model(r) {
            Ok(x) => g.push(x),
            Err(e) => return Some(("cells", e)),
        }
    }
    g.sort();
    if g.as_slice() == expected {
        return None;
    }
    let mut seen = BTreeSet::new();
    for (id, _) in &g {
        if !seen.insert(*id) {
            return Some(("dup", format!("row {id} returned more than once; expected {expected:?}, got {g:?}")));
        }
    }
    let exp: BTreeMap<u64, &Vals> = expected.iter().map(|(i, v)| (*i, v)).collect();
    for (id, _) in expected {
        if !seen.contains(id) {
            return Some(("missing", format!("row {id} missing; expected {expected:?}, got {g:?}")));
        }
    }
    for (id, _) in &g {
        if !exp.contains_key(id) {
            return Some(("extra", format!("unexpected row {id}; expected {expected:?}, got {g:?}")));
        }
    }
    Some(("values", format!("row contents differ; expected {expected:?}, got {g:?}")))
}

fn stmt_kind(tx: bool, s: &Stmt) -> &'static str {
    match (tx, s) {
        (true, Stmt::Insert(_)) => "tx_insert",
        (true, Stmt::Update(..)) => "tx_update",
        (true, Stmt::Delete(_)) => "tx_delete",
        (false, Stmt::Insert(_)) => "insert",
        (false, Stmt::Update(..)) => "update",
        (false, Stmt::Delete(_)) => "delete",
    }
}

fn is_finished_err(e: &RelationalError) -> bool {
    matches!(e, RelationalError::TransactionNotFound(_) | RelationalError::TransactionInactive(_))
}

struct Pending {
    me: Option<usize>,
    tb: usize,
    stmt: Stmt,
    blockers: BTreeSet<usize>,
}

pub struct Run {
    pub eng: RelationalEngine,
    pub m: Model,
    case_ddl_live: bool,
    pending: Vec<Pending>,
    conflicts: u32,
    rollbacks: u32,
    mixed_rollbacks: u32,
    retries_ok: u32,
}

/// Battery of probe conditions. `full` also probes columns that have no index and AND-combinations.
fn probes(m: &TableM, full: bool) -> Vec<Cond> {
    let mut q = vec![Cond::True];
    let ranges = [Cmp::Lt, Cmp::Le, Cmp::Gt, Cmp::Ge];
    if full || m.hash[0] {
        for v in 0..=A_MAX {
            q.push(Cond::A(Cmp::Eq, v));
        }
    }
    if full || m.btree[0] {
        for v in 0..=A_MAX {
            for op in ranges {
                q.push(Cond::A(op, v));
            }
        }
    }
    if full || m.hash[1] {
        q.push(Cond::B(Cmp::Eq, None));
        for v in 0..=B_MAX {
            q.push(Cond::B(Cmp::Eq, Some(v)));
        }
    }
    if full || m.btree[1] {
        for v in 0..=B_MAX {
            for op in ranges {
                q.push(Cond::B(op, Some(v)));
            }
        }
    }
    if full || m.hash[2] {
        for v in 0..3u8 {
            q.push(Cond::S(Cmp::Eq, v));
        }
    }
    if full || m.btree[2] {
        for v in 0..3u8 {
            for op in ranges {
                q.push(Cond::S(op, v));
            }
        }
    }
    // `_id`: Cond::Id takes a pick index; index i*65536/n (rounded up) selects id i+1 of n = max_id+1
    let n = m.max_id + 1;
    let idx_of = |id: u64| -> u16 {
        let i = (((id - 1) << 16).div_ceil(n)).min(65535) as u16;
        debug_assert_eq!(m.id_of(i), id);
        i
    };
    if full || m.hash[3] {
        for id in 1..=n {
            q.push(Cond::Id(Cmp::Eq, idx_of(id)));
        }
    }
    if full || m.btree[3] {
        let mut pivots: BTreeSet<u64> = BTreeSet::new();
        if n <= 10 {
            pivots.extend(1..=n);
        } else {
            pivots.extend([1, 2, n / 3, n / 2, 2 * n / 3, n - 1, n]);
        }
        for id in pivots {
            for op in ranges {
                q.push(Cond::Id(op, idx_of(id)));
            }
        }
    }
    if full {
        let and = |x: Cond, y: Cond| Cond::And(Box::new(x), Box::new(y));
        for v in 0..=A_MAX {
            q.push(and(Cond::A(Cmp::Eq, v), Cond::B(Cmp::Ge, Some(1))));
            q.push(and(Cond::A(Cmp::Ne, v), Cond::S(Cmp::Eq, (v % 3) as u8)));
            q.push(and(Cond::S(Cmp::Ne, 0), Cond::A(Cmp::Le, v)));
            q.push(and(Cond::Id(Cmp::Ge, idx_of(1 + (v as u64 % n))), Cond::A(Cmp::Eq, v)));
        }
        q.push(Cond::A(Cmp::Ne, 1));
        q.push(Cond::Or(Box::new(Cond::A(Cmp::Eq, 0)), Box::new(Cond::B(Cmp::Eq, None))));
    }
    q
}

impl Run {
    pub fn new(lock_timeout_secs: u64, ddl_live: bool) -> Self {
        Run {
            eng: new_engine(lock_timeout_secs),
            m: Model::default(),
            case_ddl_live: ddl_live,
            pending: Vec::new(),
            conflicts: 0,
            rollbacks: 0,
            mixed_rollbacks: 0,
            retries_ok: 0,
        }
    }

    pub fn note(&self) -> serde_json::Value {
        serde_json::json!({
            "lock_conflicts": self.conflicts,
            "rollbacks": self.rollbacks,
            "rollbacks_of_mixed_statements_on_indexed_table": self.mixed_rollbacks,
            "retries_after_release_ok": self.retries_ok,
            "transactions": self.m.txs.len(),
            "rows_ever": [self.m.tabs[0].max_id, self.m.tabs[1].max_id],
        })
    }

    fn sig(&self, s: String) -> String {
        if self.m.ddl_in_open_tx {
            format!("ddl-in-open-tx/{s}")
        } else {
            s
        }
    }

    pub fn setup(&mut self, idx: &[[u8; NCOLS]; NTABS], seed: &[Vec<Vals>; NTABS], ctx: &mut CaseCtx) -> Result<(), Fail> {
        for t in 0..NTABS {
            let schema = Schema::new(vec![
                Column::new("a", ColumnType::Int),
                Column::new("b", ColumnType::Int).nullable(),
                Column::new("s", ColumnType::String),
            ]);
            self.eng.create_table(TABLES[t], schema).map_err(|e| Fail::new("setup:create-table", format!("{e:?}")))?;
            for c in 0..NCOLS {
                if idx[t][c] & 1 != 0 {
                    self.eng.create_index(TABLES[t], COL_NAMES[c]).map_err(|e| Fail::new("setup:create-index", format!("{e:?}")))?;
                    self.m.tabs[t].hash[c] = true;
                }
                if idx[t][c] & 2 != 0 {
                    self.eng
                        .create_btree_index(TABLES[t], COL_NAMES[c])
                        .map_err(|e| Fail::new("setup:create-btree-index", format!("{e:?}")))?;
                    self.m.tabs[t].btree[c] = true;
                }
            }
        }
        for t in 0..NTABS {
            for v in &seed[t] {
                self.exec_stmt(None, t, &Stmt::Insert(v.clone()), false, ctx)?;
            }
        }
        Ok(())
    }

    /// Engine state against the model: lock table, transaction count, table scan and indexed reads.
    pub fn check(&self, phase: &str, full: bool, ctx: &mut CaseCtx) -> Result<(), Fail> {
        let tm = self.eng.tx_manager();
        let n = tm.active_lock_count();
        // NV_C09_NO_LOCKTABLE=1 (sensitivity experiments only): no lock-table / transaction-table
        // introspection, exclusion and finished handles are judged by behaviour alone
        let introspect = std::env::var_os("NV_C09_NO_LOCKTABLE").is_none();
        let want_locks = self.m.lock_count();
        if introspect && n != want_locks {
            let k = if n > want_locks { "locks-left" } else { "locks-missing" };
            ctx.fail(
                self.sig(format!("{phase}:{k}")),
                format!("{phase}: active_lock_count() = {n}, model holds {want_locks} row locks {:?} / {:?}", self.m.tabs[0].locks, self.m.tabs[1].locks),
            )?;
        }
        for (t, tab) in self.m.tabs.iter().enumerate() {
            for id in tab.rows.keys().filter(|_| introspect) {
                let got = tm.row_lock_holder(TABLES[t], *id);
                let exp = tab.locks.get(id).map(|h| self.m.txs[*h].eid);
                if got != exp {
                    let k = match (got, exp) {
                        (Some(_), None) => "unexpected",
                        (None, Some(_)) => "missing",
                        _ => "wrong-owner",
                    };
                    ctx.fail(
                        self.sig(format!("{phase}:lock-holder:{k}")),
                        format!("{phase}: {}/{id} lock holder {got:?}, expected {exp:?}", TABLES[t]),
                    )?;
                }
                if tm.is_row_locked(TABLES[t], *id) != exp.is_some() {
                    ctx.fail(
                        self.sig(format!("{phase}:is-row-locked")),
                        format!("{phase}: is_row_locked({}/{id}) != {}", TABLES[t], exp.is_some()),
                    )?;
                }
            }
        }
        let live = self.m.live_handles().len();
        let act = self.eng.active_transaction_count();
        if introspect && act != live {
            ctx.fail(
                self.sig(format!("{phase}:active-tx-count")),
                format!("{phase}: active_transaction_count() = {act}, {live} transactions are open"),
            )?;
        }
        for (h, t) in self.m.txs.iter().enumerate() {
            let want = t.state == TxState::Live;
            if introspect && self.eng.is_transaction_active(t.eid) != want {
                ctx.fail(
                    self.sig(format!("{phase}:is-active")),
                    format!("{phase}: is_transaction_active(handle {h}) != {want}"),
                )?;
            }
        }
        for t in 0..NTABS {
            for q in probes(&self.m.tabs[t], full) {
                self.probe(phase, t, &q, ctx)?;
            }
        }
        Ok(())
    }

    /// Signature of a read that differs from the model.
    fn read_sig(&self, phase: &str, t: usize, path: &str, col: Option<usize>, kind: &str) -> String {
        let mut sig = format!("{phase}:{path}:{kind}");
        if let Some(c) = col {
            if kind == "dup" && path.ends_with("btree-range") && self.m.tabs[t].ghost_btree[c] {
                // surfaces at the DDL or at any later statement that moves the row to another key
                sig = format!("index-read:{path}:dup+btree-created-on-column-that-was-hash-only-during-a-rollback");
            }
            if path.ends_with("hash-eq") && self.m.tabs[t].ghost_hash[c] {
                sig.push_str("+hash-created-on-column-that-was-btree-only-during-a-rollback");
            }
        }
        // index DDL inside an open transaction: one root cause (the undo log knows only the indexes that
        // existed when the statement ran), so indexed reads share one signature per kind of difference
        if self.m.ddl_in_open_tx && path != "scan" {
            format!("ddl-in-open-tx/index-read:{kind}")
        } else {
            self.sig(sig)
        }
    }

    fn probe(&self, phase: &str, t: usize, q: &Cond, ctx: &mut CaseCtx) -> Result<(), Fail> {
        let tab = &self.m.tabs[t];
        let (path, col) = path_of(tab, q);
        let expected = tab.expected(q);
        let cond = to_condition(tab, q);
        match self.eng.select(TABLES[t], cond.clone()) {
            Err(e) => ctx.fail(self.sig(format!("{phase}:{path}:select-err")), format!("{phase}: select({}, {cond:?}) failed: {e:?}", TABLES[t])),
            Ok(rows) => match diff(&expected, &rows) {
                None => Ok(()),
                Some((kind, msg)) => {
                    let sig = self.read_sig(phase, t, path, col, kind);
                    ctx.fail(
                        sig,
                        format!(
                            "{phase}: select({}, {cond:?}) via {path} (hash idx {:?}, btree idx {:?}): {msg}",
                            TABLES[t], tab.hash, tab.btree
                        ),
                    )
                },
            },
        }
    }

    /// One INSERT/UPDATE/DELETE of transaction `me` (None = non-transactional call) on table `t`.
    pub fn exec_stmt(&mut self, me: Option<usize>, t: usize, stmt: &Stmt, retry: bool, ctx: &mut CaseCtx) -> Result<(), Fail> {
        let kind = stmt_kind(me.is_some(), stmt);
        let eid = me.map(|h| self.m.txs[h].eid);
        let table = TABLES[t];
        match stmt {
            Stmt::Insert(v) => {
                let r = match eid {
                    Some(e) => self.eng.tx_insert(e, table, vals_map(v)),
                    None => self.eng.insert(table, vals_map(v)),
                };
                match r {
                    Ok(id) => {
                        if id == 0 || self.m.tabs[t].rows.contains_key(&id) {
                            ctx.fail(self.sig(format!("{kind}:id-reused")), format!("{kind} returned row id {id} which was handed out before"))?;
                            return Ok(());
                        }
                        self.m.apply_insert(me, t, id, v);
                        ctx.label(kind);
                    },
                    Err(e) => {
                        ctx.fail(self.sig(format!("{kind}:err")), format!("{kind}({v:?}) failed: {e:?}"))?;
                        return Ok(());
                    },
                }
                self.check("after-stmt", false, ctx)
            },
            Stmt::Update(c, _) | Stmt::Delete(c) => {
                let ids = self.m.tabs[t].matching(c);
                let (bh, brows) = self.m.tabs[t].blockers(me, &ids);
                if brows.iter().any(|id| matches!(self.m.tabs[t].rows[id].ins_by, Some(h) if Some(h) != me)) {
                    ctx.label("statement matches a row another open transaction inserted");
                }
                let cond = to_condition(&self.m.tabs[t], c);
                let r = match (stmt, eid) {
                    (Stmt::Update(_, s), Some(e)) => self.eng.tx_update(e, table, cond.clone(), sets_map(s)),
                    (Stmt::Update(_, s), None) => self.eng.update(table, cond.clone(), sets_map(s)),
                    (Stmt::Delete(_), Some(e)) => self.eng.tx_delete(e, table, cond.clone()),
                    (Stmt::Delete(_), None) => self.eng.delete_rows(table, cond.clone()),
                    _ => unreachable!(),
                };
                if !bh.is_empty() {
                    match r {
                        Err(RelationalError::LockConflict { tx_id, blocking_tx, table: tn, row_id }) => {
                            let owners: Vec<u64> = bh.iter().map(|h| self.m.txs[*h].eid).collect();
                            if !owners.contains(&blocking_tx) || !brows.contains(&row_id) || tn != table || eid.is_some_and(|e| e != tx_id) {
                                ctx.fail(
                                    self.sig(format!("exclusion:{kind}:conflict-info")),
                                    format!("{kind}({table}, {cond:?}): LockConflict names tx {tx_id} blocked by {blocking_tx} on {tn}/{row_id}; holders {owners:?}, locked matched rows {brows:?}"),
                                )?;
                            }
                            self.conflicts += 1;
                            ctx.label(format!("conflict:{kind}"));
                            ctx.label(format!("conflict:matched={},locked={}", ids.len().min(4), brows.len().min(4)));
                            ctx.set_nontrivial();
                            if retry {
                                ctx.label("retry:still-blocked");
                            } else {
                                self.pending.push(Pending { me, tb: t, stmt: stmt.clone(), blockers: bh });
                            }
                        },
                        Ok(n) => {
                            ctx.fail(
                                self.sig(format!("exclusion:{kind}:no-conflict")),
                                format!("{kind}({table}, {cond:?}) returned Ok({n}) although matched rows {brows:?} (of {ids:?}) are locked by open transactions {bh:?}"),
                            )?;
                            return Ok(());
                        },
                        Err(e) => {
                            ctx.fail(
                                self.sig(format!("exclusion:{kind}:wrong-error")),
                                format!("{kind}({table}, {cond:?}) on rows locked by another transaction returned {e:?}, expected LockConflict"),
                            )?;
                            return Ok(());
                        },
                    }
                    // "change nothing": tables, indexes and lock table as before
                    return self.check("after-conflict", true, ctx);
                }
                match r {
                    Ok(n) if n == ids.len() => {},
                    Ok(n) => {
                        ctx.fail(self.sig(format!("stmt:{kind}:count")), format!("{kind}({table}, {cond:?}) affected {n} rows, model matches {ids:?}"))?;
                        return Ok(());
                    },
                    Err(RelationalError::LockConflict { blocking_tx, row_id, .. }) => {
                        ctx.fail(
                            self.sig(format!("exclusion:{kind}:spurious-conflict{}", if retry { ":after-release" } else { "" })),
                            format!(
                                "{kind}({table}, {cond:?}) got LockConflict (tx {blocking_tx}, row {row_id}) although no other open transaction holds a matched row {ids:?}; model locks t:{:?} w:{:?}, requester handle {me:?}",
                                self.m.tabs[0].locks, self.m.tabs[1].locks
                            ),
                        )?;
                        return Ok(());
                    },
                    Err(e) => {
                        ctx.fail(self.sig(format!("stmt:{kind}:err")), format!("{kind}({table}, {cond:?}) failed: {e:?}"))?;
                        return Ok(());
                    },
                }
                match stmt {
                    Stmt::Update(_, s) => self.m.apply_update(me, t, &ids, &norm_sets(s)),
                    _ => self.m.apply_delete(me, t, &ids),
                }
                ctx.label(kind);
                if t == 1 {
                    ctx.label("second-table-statement");
                }
                if retry {
                    self.retries_ok += 1;
                    ctx.label("retry:ok-after-release");
                }
                self.check("after-stmt", false, ctx)
            },
        }
    }

    pub fn finish(&mut self, h: usize, commit: bool, ctx: &mut CaseCtx) -> Result<(), Fail> {
        let eid = self.m.txs[h].eid;
        let what = if commit { "commit" } else { "rollback" };
        let r = if commit { self.eng.commit(eid) } else { self.eng.rollback(eid) };
        if let Err(e) = r {
            let k = if matches!(e, RelationalError::RollbackFailed { .. }) { "undo-failed" } else { "err" };
            ctx.fail(self.sig(format!("{what}:{k}")), format!("{what} of an open transaction failed: {e:?}"))?;
            return Ok(());
        }
        let kinds = self.m.txs[h].kinds.count_ones();
        let touched_tables = (0..NTABS).filter(|t| self.m.txs[h].before.keys().any(|(tt, _)| tt == t)).count();
        if !commit {
            self.rollbacks += 1;
            ctx.label(format!("rollback:kinds={kinds}"));
            let on_indexed = (0..NTABS).any(|t| self.m.tabs[t].indexed() && self.m.txs[h].before.keys().any(|(tt, _)| *tt == t));
            if kinds >= 2 && on_indexed {
                self.mixed_rollbacks += 1;
                ctx.label("rollback:mixed-on-indexed-table");
                ctx.set_nontrivial();
            }
            if touched_tables == 2 {
                ctx.label("rollback:both-tables");
            }
            if self.m.other_dirty_live(Some(h)) {
                ctx.label("rollback:while-other-tx-dirty");
            }
        } else {
            ctx.label(format!("commit:kinds={kinds}"));
        }
        self.m.finish(h, commit);
        self.check(if commit { "after-commit" } else { "after-rollback" }, true, ctx)?;
        if ctx.known_hit() {
            return Ok(());
        }
        // statements that were refused because of this transaction's locks are issued again
        let mut todo = Vec::new();
        for p in &mut self.pending {
            if p.blockers.remove(&h) && p.blockers.is_empty() {
                todo.push((p.me, p.tb, p.stmt.clone()));
            }
        }
        self.pending.retain(|p| !p.blockers.is_empty());
        for (me, tb, stmt) in todo {
            if let Some(u) = me {
                if self.m.txs[u].state != TxState::Live {
                    ctx.label("retry:requester-finished");
                    continue;
                }
            }
            self.exec_stmt(me, tb, &stmt, true, ctx)?;
            if ctx.known_hit() {
                return Ok(());
            }
        }
        Ok(())
    }

    pub fn step(&mut self, op: &Op, ctx: &mut CaseCtx) -> Result<(), Fail> {
        let live = self.m.live_handles();
        match op {
            Op::Begin => {
                if live.len() >= 4 {
                    ctx.label("skip:begin-4-open");
                    return Ok(());
                }
                let eid = self.eng.begin_transaction();
                if self.m.txs.iter().any(|t| t.eid == eid) {
                    ctx.fail(self.sig("begin:id-reused".into()), format!("begin_transaction returned {eid} again"))?;
                    return Ok(());
                }
                self.m.txs.push(MTx::new(eid));
                ctx.label(format!("open-tx={}", live.len() + 1));
                self.check("after-begin", false, ctx)
            },
            Op::Tx { h, tb, stmt } => {
                let t = *tb as usize % NTABS;
                if live.is_empty() {
                    // a transactional statement with nothing open begins a transaction first
                    ctx.label("implicit-begin");
                    self.step(&Op::Begin, ctx)?;
                    let live = self.m.live_handles();
                    if live.is_empty() || ctx.known_hit() {
                        return Ok(());
                    }
                    return self.exec_stmt(Some(live[0]), t, stmt, false, ctx);
                }
                self.exec_stmt(Some(live[pick(*h, live.len())]), t, stmt, false, ctx)
            },
            Op::TxSelect { h, tb, cond } => {
                if live.is_empty() {
                    ctx.label("skip:no-open-tx");
                    return Ok(());
                }
                let t = *tb as usize % NTABS;
                let me = live[pick(*h, live.len())];
                let c = to_condition(&self.m.tabs[t], cond);
                match self.eng.tx_select(self.m.txs[me].eid, TABLES[t], c.clone()) {
                    Err(e) => ctx.fail(self.sig("tx_select:err".into()), format!("tx_select({c:?}) failed: {e:?}")),
                    Ok(rows) => {
                        if self.m.other_dirty_live(Some(me)) {
                            // what a transaction sees of another open transaction's changes is not part of C09
                            ctx.label("tx_select:unchecked-other-tx-dirty");
                            return Ok(());
                        }
                        ctx.label("tx_select");
                        let expected = self.m.tabs[t].expected(cond);
                        match diff(&expected, &rows) {
                            None => Ok(()),
                            Some((k, msg)) => {
                                let (path, col) = path_of(&self.m.tabs[t], cond);
                                ctx.fail(self.read_sig("tx_select", t, path, col, k), format!("tx_select({}, {c:?}) via {path}: {msg}", TABLES[t]))
                            },
                        }
                    },
                }
            },
            Op::Commit { h } | Op::Rollback { h } => {
                if live.is_empty() {
                    ctx.label("skip:no-open-tx");
                    return Ok(());
                }
                self.finish(live[pick(*h, live.len())], matches!(op, Op::Commit { .. }), ctx)
            },
            Op::Plain { tb, stmt } => self.exec_stmt(None, *tb as usize % NTABS, stmt, false, ctx),
            Op::Select { tb, cond } => self.probe("select", *tb as usize % NTABS, cond, ctx),
            Op::UseFinished { h, kind } => {
                let fin = self.m.finished_handles();
                let (eid, who) = if fin.is_empty() {
                    (u64::MAX - u64::from(*h), "never-begun")
                } else {
                    (self.m.txs[fin[pick(*h, fin.len())]].eid, "finished")
                };
                let table = TABLES[(*h as usize) % NTABS];
                let v = Vals { a: 0, b: None, s: 0 };
                let (name, r): (&str, Result<(), RelationalError>) = match kind % 6 {
                    0 => ("tx_insert", self.eng.tx_insert(eid, table, vals_map(&v)).map(|_| ())),
                    1 => ("tx_update", self.eng.tx_update(eid, table, Condition::True, sets_map(&Sets { a: Some(1), b: SetB::Keep, s: None })).map(|_| ())),
                    2 => ("tx_delete", self.eng.tx_delete(eid, table, Condition::True).map(|_| ())),
                    3 => ("tx_select", self.eng.tx_select(eid, table, Condition::True).map(|_| ())),
                    4 => ("commit", self.eng.commit(eid)),
                    _ => ("rollback", self.eng.rollback(eid)),
                };
                ctx.label(format!("{who}-handle:{name}"));
                match r {
                    Err(e) if is_finished_err(&e) => {},
                    Ok(()) => {
                        ctx.fail(self.sig(format!("{who}-handle:{name}:accepted")), format!("{name} on a {who} transaction returned Ok"))?;
                        return Ok(());
                    },
                    Err(e) => {
                        ctx.fail(
                            self.sig(format!("{who}-handle:{name}:wrong-error")),
                            format!("{name} on a {who} transaction returned {e:?}, expected TransactionNotFound/TransactionInactive"),
                        )?;
                        return Ok(());
                    },
                }
                self.check("after-misuse", false, ctx)
            },
            Op::ToggleIndex { tb, col, btree } => {
                let t = *tb as usize % NTABS;
                let c = *col as usize % NCOLS;
                if self.m.any_dirty_live() {
                    if !self.case_ddl_live {
                        ctx.label("skip:ddl-while-tx-has-pending-changes");
                        return Ok(());
                    }
                    self.m.ddl_in_open_tx = true;
                    ctx.label("ddl:in-open-tx");
                }
                let present = if *btree { self.m.tabs[t].btree[c] } else { self.m.tabs[t].hash[c] };
                let r = match (*btree, present) {
                    (false, false) => self.eng.create_index(TABLES[t], COL_NAMES[c]),
                    (false, true) => self.eng.drop_index(TABLES[t], COL_NAMES[c]),
                    (true, false) => self.eng.create_btree_index(TABLES[t], COL_NAMES[c]),
                    (true, true) => self.eng.drop_btree_index(TABLES[t], COL_NAMES[c]),
                };
                if let Err(e) = r {
                    ctx.fail(self.sig("ddl:err".into()), format!("index DDL on {}.{} failed: {e:?}", TABLES[t], COL_NAMES[c]))?;
                    return Ok(());
                }
                if *btree {
                    self.m.tabs[t].btree[c] = !present;
                } else {
                    self.m.tabs[t].hash[c] = !present;
                }
                ctx.label(format!("ddl:{}-{}", if present { "drop" } else { "create" }, if *btree { "btree" } else { "hash" }));
                self.check("after-ddl", true, ctx)
            },
        }
    }
}

pub fn run_case(case: &Case, ctx: &mut CaseCtx) -> Result<(), Fail> {
    let mut run = Run::new(FOREVER_SECS, case.ddl_live);
    run.setup(&case.idx, &case.seed, ctx)?;
    if ctx.known_hit() {
        return Ok(());
    }
    let tab = &run.m.tabs[0];
    ctx.label(format!(
        "indexes(t):{}",
        match (tab.hash.iter().any(|b| *b), tab.btree.iter().any(|b| *b)) {
            (false, false) => "none",
            (true, false) => "hash-only",
            (false, true) => "btree-only",
            (true, true) => "hash+btree",
        }
    ));
    for op in &case.ops {
        run.step(op, ctx)?;
        if ctx.known_hit() {
            ctx.note = Some(run.note());
            return Ok(());
        }
    }
    let live = run.m.live_handles();
    for (i, h) in live.iter().enumerate() {
        run.finish(*h, case.finish[i % 4], ctx)?;
        if ctx.known_hit() {
            ctx.note = Some(run.note());
            return Ok(());
        }
    }
    // nothing is open any more: no lock may be left, every path answers from the committed image
    if run.m.lock_count() != 0 {
        return Err(Fail::new("harness:model-locks-left", "model bug: locks left".to_string()));
    }
    run.check("end", true, ctx)?;
    ctx.note = Some(run.note());
    Ok(())
}
