import json,sys
p='/verif/known_findings.json'
sig,what=sys.argv[1],sys.argv[2]
d=json.load(open(p))
if not any(k['property']=='C09' and k['sig']==sig for k in d['known']):
    d['known'].append({"property":"C09","sig":sig,"what":what})
    open(p,'w').write(json.dumps(d,indent=2,ensure_ascii=True))
    print("added")
