//! C01 — Raft: committed log entries are never lost or contradicted.
//!
//! The harness is the network: real `RaftNode`s (3 or 5) talk through a transport whose
//! send/broadcast put messages into a bag owned by the harness; generated histories deliver,
//! drop, duplicate and reorder them, fire election timeouts, propose blocks and crash/restart
//! nodes from their real durable state (RaftWal file, or a TensorStore image). After every step
//! the classic Raft safety invariants are checked over the observed history.

use async_trait::async_trait;
use nv_engine::{main_for, pick, CaseCtx, Fail, PropDef, PropPart, Tier};
use proptest::prelude::*;
use serde::{Deserialize, Serialize};
use std::collections::BTreeMap;
use std::future::Future;
use std::sync::{Arc, Mutex};
use std::task::{Context, Poll, Wake, Waker};
use tensor_chain::block::{Block, BlockHeader};
use tensor_chain::network::{Message, PeerConfig, RequestVote, Transport};
use tensor_chain::raft::{RaftConfig, RaftNode, RaftState};
use tensor_store::{SparseVector, TensorStore};

// ------------------------------------------------------------------ transport / executor

struct InFlight {
    from: String,
    to: String,
    msg: Message,
}

#[derive(Default)]
struct Net {
    bag: Mutex<Vec<InFlight>>,
}

struct SimTransport {
    id: String,
    peers: Vec<String>,
    net: Arc<Net>,
}

#[async_trait]
impl Transport for SimTransport {
    async fn send(&self, to: &String, msg: Message) -> tensor_chain::Result<()> {
        self.net.bag.lock().unwrap().push(InFlight { from: self.id.clone(), to: to.clone(), msg });
        Ok(())
    }
    async fn broadcast(&self, msg: Message) -> tensor_chain::Result<()> {
        let mut bag = self.net.bag.lock().unwrap();
        for p in &self.peers {
            bag.push(InFlight { from: self.id.clone(), to: p.clone(), msg: msg.clone() });
        }
        Ok(())
    }
    async fn recv(&self) -> tensor_chain::Result<(String, Message)> {
        Err(tensor_chain::ChainError::NetworkError("sim transport has no recv".into()))
    }
    async fn connect(&self, _peer: &PeerConfig) -> tensor_chain::Result<()> {
        Ok(())
    }
    async fn disconnect(&self, _peer_id: &String) -> tensor_chain::Result<()> {
        Ok(())
    }
    fn peers(&self) -> Vec<String> {
        self.peers.clone()
    }
    fn local_id(&self) -> &String {
        &self.id
    }
}

struct NoopWake;
impl Wake for NoopWake {
    fn wake(self: Arc<Self>) {}
}

/// The futures driven here never wait for anything (the transport completes at once).
fn block_on<F: Future>(f: F) -> F::Output {
    let waker = Waker::from(Arc::new(NoopWake));
    let mut cx = Context::from_waker(&waker);
    let mut f = std::pin::pin!(f);
    for _ in 0..1000 {
        if let Poll::Ready(v) = f.as_mut().poll(&mut cx) {
            return v;
        }
    }
    panic!("nv: future did not complete (transport should never block)");
}

// ------------------------------------------------------------------ case

#[derive(Clone, Debug, Serialize, Deserialize)]
enum Op {
    /// election timeout fires at node (pre-vote or election per config)
    Timeout(u8),
    /// node has not heard from a leader for longer than the election timeout
    Age(u8),
    /// election timeout at node, skipping pre-vote (TimeoutNow / pre-vote disabled path)
    ForceElection(u8),
    /// a candidate (re)transmits its RequestVote to all peers
    Solicit(u8),
    Heartbeat(u8),
    Propose(u8),
    /// propose at the node, then a heartbeat round from it
    ProposeRound(u8),
    Deliver(u16),
    Drop(u16),
    Duplicate(u16),
    DeliverAllTo(u8),
    /// deliver every in-flight message from the first node to the second
    DeliverFromTo(u8, u8),
    /// deliver only the NEWEST in-flight message from the first node to the second (overtaking
    /// the older ones, which stay in flight)
    DeliverLastFromTo(u8, u8),
    /// heartbeat from node, all its AppendEntries delivered, all answers delivered back
    HeartbeatRound(u8),
    /// heartbeat from node, all its AppendEntries delivered; the answers stay in flight
    HeartbeatHalf(u8),
    /// everyone aged, timeout at node, requests and answers delivered
    ElectRound(u8),
    CrashRestart(u8),
}

#[derive(Clone, Debug, Serialize, Deserialize)]
struct Case {
    n: u8,
    pre_vote: bool,
    fast_path: bool,
    geo: bool,
    /// durable mode: false = RaftWal file, true = TensorStore image saved at crash
    store_mode: bool,
    embs: Vec<u8>,
    ops: Vec<Op>,
}

fn op_strategy(n: u8) -> impl Strategy<Value = Op> {
    // node arguments >= n mean "the current leader with the highest term, if any"
    let l = n + 3;
    prop_oneof![
        2 => (0..n).prop_map(Op::Timeout),
        1 => (0..n).prop_map(Op::Age),
        1 => (0..n).prop_map(Op::ForceElection),
        1 => (0..n).prop_map(Op::Solicit),
        3 => (0..l).prop_map(Op::Heartbeat),
        6 => (0..l).prop_map(Op::Propose),
        6 => (0..l).prop_map(Op::ProposeRound),
        14 => any::<u16>().prop_map(Op::Deliver),
        2 => any::<u16>().prop_map(Op::Drop),
        2 => any::<u16>().prop_map(Op::Duplicate),
        4 => (0..l).prop_map(Op::DeliverAllTo),
        3 => (0..l, 0..l).prop_map(|(a, b)| Op::DeliverFromTo(a, b)),
        2 => (0..l, 0..l).prop_map(|(a, b)| Op::DeliverLastFromTo(a, b)),
        6 => (0..l).prop_map(Op::HeartbeatRound),
        3 => (0..l).prop_map(Op::HeartbeatHalf),
        3 => (0..n).prop_map(Op::ElectRound),
        1 => (0..n).prop_map(Op::CrashRestart),
    ]
}

/// Scenario skeletons (a seed corpus for the history generator): known-dangerous Raft situations
/// written with role letters; roles are mapped to nodes by a generated permutation and random ops
/// are interleaved. They only steer the search; the oracle is the same.
fn skeleton(which: u8, n: u8) -> Vec<Op> {
    use Op::*;
    let (a, b, c, d, e) = (0u8, 1u8, 2u8, 3u8, 4u8);
    match which % 6 {
        // a candidate wins a voter's vote in two consecutive terms (answers lost), the voter
        // restarts, a rival campaigns in the same term
        3 => vec![
            ForceElection(a),
            DeliverFromTo(a, b),
            ForceElection(a),
            DeliverFromTo(a, b),
            CrashRestart(b),
            ForceElection(c),
            ForceElection(c),
            DeliverFromTo(c, b),
            DeliverFromTo(b, c),
            DeliverFromTo(b, a),
            HeartbeatRound(a),
            HeartbeatRound(c),
        ],
        // stale follower: a holds unreplicated entries of an old term while b leads
        0 => vec![
            ElectRound(a),
            ProposeRound(a),
            Propose(a),
            Propose(a),
            ElectRound(b),
            HeartbeatHalf(b),
            Propose(b),
            DeliverAllTo(b),
            // (a leader accepts proposals only once a quorum has answered an append)
            Propose(b),
            HeartbeatRound(b),
            ElectRound(a),
        ],
        // figure 8 of the Raft paper on 5 nodes. A new leader only accepts proposals after a
        // quorum has answered an AppendEntries (is_write_safe), hence the heartbeat rounds.
        //  (a) a leads, its entry reaches b only      (b) e is elected by c, d and appends its own
        //  (c) a is re-elected, copies the old entry to c (now on a majority) and, while a
        //      further (empty) append is in flight, appends an entry of its new term; the answer
        //      arrives                                 (d) e is elected again and replicates
        1 if n >= 5 => vec![
            ElectRound(a),
            HeartbeatRound(a),
            Propose(a),
            Heartbeat(a),
            DeliverFromTo(a, b),
            ElectRound(e),
            HeartbeatRound(e),
            Propose(e),
            ElectRound(a),
            Heartbeat(a),
            DeliverFromTo(a, b),
            DeliverFromTo(b, a),
            DeliverFromTo(a, c),
            DeliverFromTo(c, a),
            Heartbeat(a),
            Propose(a),
            DeliverFromTo(a, c),
            DeliverFromTo(c, a),
            ElectRound(e),
            HeartbeatRound(e),
            HeartbeatRound(e),
            ProposeRound(e),
            HeartbeatRound(e),
            let_d(d),
        ],
        // figure 8 folded onto 3 nodes (a = S1, b = the follower, c = the rival S5)
        1 => vec![
            ElectRound(a),
            HeartbeatRound(a),
            Propose(a),
            ElectRound(c),
            HeartbeatRound(c),
            Propose(c),
            ElectRound(a),
            Heartbeat(a),
            DeliverFromTo(a, b),
            DeliverFromTo(b, a),
            Heartbeat(a),
            Propose(a),
            DeliverFromTo(a, b),
            DeliverFromTo(b, a),
            ElectRound(c),
            HeartbeatRound(c),
            HeartbeatRound(c),
            ProposeRound(c),
            HeartbeatRound(c),
            DeliverAllTo(a),
        ],
        // overtaking appends: the leader sends [e1], then (next_index unchanged) [e1, e2]; the
        // second request overtakes the first, is acknowledged and lets the leader commit e2; the
        // first one arrives afterwards (it must not make the follower drop e2); the follower's
        // answer is lost and the follower then stands for election
        5 => vec![
            ElectRound(a),
            HeartbeatRound(a),
            Propose(a),
            Heartbeat(a),
            Propose(a),
            Heartbeat(a),
            DeliverLastFromTo(a, b),
            DeliverFromTo(b, a),
            DeliverFromTo(a, b),
            ElectRound(b),
            HeartbeatRound(b),
            ProposeRound(b),
        ],
        // stale append answer (5 nodes): b's success answer of term 1 stays in flight while a
        // loses leadership, has its log replaced by c's, is re-elected and appends new entries;
        // the old answer then reaches a together with one genuine acknowledgement
        4 if n >= 5 => vec![
            ElectRound(a),
            HeartbeatRound(a),
            Propose(a),
            Propose(a),
            Propose(a),
            Heartbeat(a),
            DeliverFromTo(a, b),
            ElectRound(c),
            HeartbeatRound(c),
            Propose(c),
            Heartbeat(c),
            DeliverFromTo(c, d),
            DeliverFromTo(c, a),
            ElectRound(a),
            Heartbeat(a),
            DeliverFromTo(a, d),
            DeliverFromTo(d, a),
            DeliverFromTo(a, c),
            DeliverFromTo(c, a),
            Propose(a),
            Propose(a),
            Heartbeat(a),
            DeliverFromTo(a, d),
            DeliverFromTo(d, a),
            DeliverFromTo(b, a),
            ElectRound(c),
            HeartbeatRound(c),
            HeartbeatRound(c),
            ProposeRound(c),
            HeartbeatRound(c),
        ],
        // leader change with in-flight appends and a restart of the old leader
        _ => vec![
            ElectRound(a),
            ProposeRound(a),
            Propose(a),
            Heartbeat(a),
            ElectRound(b),
            CrashRestart(a),
            DeliverAllTo(c),
            HeartbeatHalf(b),
            DeliverAllTo(b),
            ProposeRound(b),
            DeliverAllTo(a),
            DeliverAllTo(b),
            HeartbeatRound(b),
        ],
    }
}

fn let_d(d: u8) -> Op {
    Op::DeliverAllTo(d)
}

fn map_roles(ops: Vec<Op>, perm: &[u8], n: u8) -> Vec<Op> {
    let m = |x: u8| -> u8 {
        if x < n {
            perm[x as usize % perm.len()] % n
        } else {
            x
        }
    };
    ops.into_iter()
        .map(|op| match op {
            Op::Timeout(x) => Op::Timeout(m(x)),
            Op::Age(x) => Op::Age(m(x)),
            Op::ForceElection(x) => Op::ForceElection(m(x)),
            Op::Solicit(x) => Op::Solicit(m(x)),
            Op::Heartbeat(x) => Op::Heartbeat(m(x)),
            Op::Propose(x) => Op::Propose(m(x)),
            Op::ProposeRound(x) => Op::ProposeRound(m(x)),
            Op::DeliverAllTo(x) => Op::DeliverAllTo(m(x)),
            Op::DeliverFromTo(x, y) => Op::DeliverFromTo(m(x), m(y)),
            Op::DeliverLastFromTo(x, y) => Op::DeliverLastFromTo(m(x), m(y)),
            Op::HeartbeatRound(x) => Op::HeartbeatRound(m(x)),
            Op::HeartbeatHalf(x) => Op::HeartbeatHalf(m(x)),
            Op::ElectRound(x) => Op::ElectRound(m(x)),
            Op::CrashRestart(x) => Op::CrashRestart(m(x)),
            o => o,
        })
        .collect()
}

fn case_strategy(t: Tier) -> impl Strategy<Value = Case> {
    let max_ops = t.pick(70usize, 220usize);
    (prop_oneof![3 => Just(3u8), 2 => Just(5u8)], any::<bool>(), any::<bool>(), any::<bool>(), prop::bool::weighted(0.25))
        .prop_flat_map(move |(n, pre_vote, fast_path, geo, store_mode)| {
            (
                Just((n, pre_vote, fast_path, geo, store_mode)),
                prop::collection::vec(0u8..4, n as usize),
                prop::collection::vec(op_strategy(n), 0..max_ops),
                // skeleton choice (None in 2/3 of cases), role permutation keys, gap sizes
                prop::option::weighted(0.4, 0u8..6),
                prop::collection::vec(any::<u16>(), 5),
                prop::collection::vec(0u8..3, 32),
            )
        })
        .prop_map(|((n, pre_vote, fast_path, geo, store_mode), embs, ops, skel, keys, gaps)| {
            let ops = match skel {
                None => ops,
                Some(w) => {
                    let mut perm: Vec<u8> = (0..n).collect();
                    perm.sort_by_key(|i| (keys[*i as usize % keys.len()], *i));
                    let sk = map_roles(skeleton(w, n), &perm, n);
                    let mut out = Vec::new();
                    let mut rest = ops.into_iter();
                    for (k, op) in sk.into_iter().enumerate() {
                        // gaps are mostly empty so that the skeleton usually survives
                        if gaps[k % gaps.len()] == 2 {
                            if let Some(r) = rest.next() {
                                out.push(r);
                            }
                        }
                        out.push(op);
                    }
                    out.extend(rest.take(20));
                    out
                },
            };
            Case { n, pre_vote, fast_path, geo, store_mode, embs, ops }
        })
}

fn embedding(code: u8) -> SparseVector {
    match code % 4 {
        0 => SparseVector::new(0),
        1 => SparseVector::from_dense(&[1.0, 0.0, 0.0, 0.0]),
        2 => SparseVector::from_dense(&[-1.0, 0.0, 0.0, 0.0]),
        _ => SparseVector::from_dense(&[0.0, 1.0, 0.0, 0.0]),
    }
}

// ------------------------------------------------------------------ simulator

thread_local! {
    // TensorStore handles are cheap clones of one shared store; creating one per case costs ~1 ms
    static SCRATCH: TensorStore = TensorStore::new();
}

#[derive(Clone, Debug, PartialEq, Eq)]
struct Ent {
    term: u64,
    uid: u64,
}

struct Sim<'a> {
    case: &'a Case,
    ids: Vec<String>,
    net: Arc<Net>,
    nodes: Vec<RaftNode>,
    dir: nv_engine::scratch::Dir,
    images: Vec<TensorStore>,
    scratch: TensorStore,
    next_uid: u64,
    // history
    leaders: BTreeMap<u64, usize>,
    committed: BTreeMap<u64, (Ent, u64)>, // index -> (entry, reporter's term when first seen)
    last_term: Vec<u64>,
    last_commit: Vec<u64>,
    // stats
    commits_seen: u64,
    restarts: u64,
    restarts_since_commit: bool,
    commit_after_restart: bool,
    commit_under_later_leader: bool,
    out_of_order: u64,
    dups: u64,
    refused: u64,
    skipped: u64,
    suffix_elections: u64,
}

fn config(case: &Case) -> RaftConfig {
    let mut c = RaftConfig::default();
    // pre-vote grants depend on wall-clock elapsed > election_timeout.0; with 8 s the answer is a
    // function of the schedule only (reset_heartbeat_for_election ages a node by 10 s)
    c.election_timeout = (8000, 9000);
    c.enable_pre_vote = case.pre_vote;
    c.enable_fast_path = case.fast_path;
    c.enable_geometric_tiebreak = case.geo;
    c.auto_heartbeat = false;
    c
}

impl<'a> Sim<'a> {
    fn new(case: &'a Case) -> Result<Self, Fail> {
        let n = case.n as usize;
        let ids: Vec<String> = (0..n).map(|i| format!("n{i}")).collect();
        let net = Arc::new(Net::default());
        let dir = nv_engine::scratch::Dir::new("c01");
        let mut sim = Sim {
            case,
            ids,
            net,
            nodes: Vec::new(),
            dir,
            images: if case.store_mode { (0..n).map(|_| TensorStore::new()).collect() } else { Vec::new() },
            scratch: SCRATCH.with(|s| s.clone()),
            next_uid: 1,
            leaders: BTreeMap::new(),
            committed: BTreeMap::new(),
            last_term: vec![0; n],
            last_commit: vec![0; n],
            commits_seen: 0,
            restarts: 0,
            restarts_since_commit: false,
            commit_after_restart: false,
            commit_under_later_leader: false,
            out_of_order: 0,
            dups: 0,
            refused: 0,
            skipped: 0,
            suffix_elections: 0,
        };
        for i in 0..n {
            let node = sim.make_node(i)?;
            sim.nodes.push(node);
        }
        Ok(sim)
    }

    fn make_node(&self, i: usize) -> Result<RaftNode, Fail> {
        let peers: Vec<String> = self.ids.iter().filter(|p| **p != self.ids[i]).cloned().collect();
        let tr = Arc::new(SimTransport { id: self.ids[i].clone(), peers: peers.clone(), net: self.net.clone() });
        let node = if self.case.store_mode {
            RaftNode::with_store(self.ids[i].clone(), peers, tr, config(self.case), &self.images[i])
        } else {
            RaftNode::with_wal(self.ids[i].clone(), peers, tr, config(self.case), self.dir.join(&format!("raft-{i}.wal")))
                .map_err(|e| Fail::new("restart-failed", format!("RaftNode::with_wal failed on its own cleanly written log: {e}")))?
        };
        node.update_state_embedding(embedding(self.case.embs.get(i).copied().unwrap_or(0)));
        Ok(node)
    }

    fn log_of(&self, i: usize) -> Vec<(u64, Ent)> {
        let st = &self.scratch;
        if self.nodes[i].save_to_store(st).is_err() {
            return Vec::new();
        }
        match RaftNode::load_from_store(&self.ids[i], st) {
            Some((_, _, log)) => {
                log.into_iter().map(|e| (e.index, Ent { term: e.term, uid: e.block.header.timestamp })).collect()
            },
            None => Vec::new(),
        }
    }

    fn vote_of(&self, i: usize) -> Option<String> {
        let st = &self.scratch;
        if self.nodes[i].save_to_store(st).is_err() {
            return None;
        }
        RaftNode::load_from_store(&self.ids[i], st).and_then(|(_, v, _)| v)
    }

    fn block(&mut self, proposer: &str) -> Block {
        let uid = self.next_uid;
        self.next_uid += 1;
        let header = BlockHeader {
            height: uid,
            prev_hash: [0u8; 32],
            tx_root: [0u8; 32],
            state_root: [0u8; 32],
            // all blocks carry embeddings of one dimension (as blocks built by one chain do); mixing
            // dimensions panics inside the fast-path similarity check, which is not this property
            delta_embedding: embedding(1 + (uid % 3) as u8),
            quantized_codes: Vec::new(),
            timestamp: uid,
            proposer: proposer.to_string(),
            signature: Vec::new(),
        };
        Block::new(header, Vec::new())
    }

    fn deliver_at(&mut self, k: usize) {
        let m = self.net.bag.lock().unwrap().remove(k);
        let to = self.ids.iter().position(|x| *x == m.to);
        if let Some(to) = to {
            if let Some(reply) = self.nodes[to].handle_message(&m.from, &m.msg) {
                self.net.bag.lock().unwrap().push(InFlight { from: m.to.clone(), to: m.from.clone(), msg: reply });
            }
        }
    }

    fn deliver_where(&mut self, pred: impl Fn(&InFlight) -> bool) {
        loop {
            let pos = self.net.bag.lock().unwrap().iter().position(&pred);
            match pos {
                Some(k) => self.deliver_at(k),
                None => break,
            }
        }
    }

    fn bag_len(&self) -> usize {
        self.net.bag.lock().unwrap().len()
    }

    fn timeout(&mut self, i: usize, force: bool) {
        if self.nodes[i].state() == RaftState::Leader {
            self.skipped += 1;
            return;
        }
        self.nodes[i].reset_heartbeat_for_election();
        if self.case.pre_vote && !force {
            let _ = block_on(self.nodes[i].start_pre_vote_async());
        } else {
            let _ = block_on(self.nodes[i].start_election_async());
        }
    }

    fn solicit(&mut self, i: usize) {
        if self.nodes[i].state() != RaftState::Candidate {
            self.skipped += 1;
            return;
        }
        // (re)transmission of the candidate's RequestVote, built from its public state exactly as
        // start_election builds it
        let rv = RequestVote {
            term: self.nodes[i].current_term(),
            candidate_id: self.ids[i].clone(),
            last_log_index: self.nodes[i].last_log_index(),
            last_log_term: self.nodes[i].last_log_term(),
            state_embedding: embedding(self.case.embs.get(i).copied().unwrap_or(0)),
        };
        let mut bag = self.net.bag.lock().unwrap();
        for (j, p) in self.ids.iter().enumerate() {
            if j != i {
                bag.push(InFlight { from: self.ids[i].clone(), to: p.clone(), msg: Message::RequestVote(rv.clone()) });
            }
        }
    }

    /// node argument -> node; values >= n select the current leader with the highest term
    fn who(&self, w: u8) -> Option<usize> {
        let n = self.case.n as usize;
        if (w as usize) < n {
            return Some(w as usize);
        }
        let mut best: Option<(u64, usize)> = None;
        for i in 0..n {
            if self.nodes[i].state() == RaftState::Leader {
                let t = self.nodes[i].current_term();
                if best.map_or(true, |(bt, _)| t > bt) {
                    best = Some((t, i));
                }
            }
        }
        best.map(|(_, i)| i)
    }

    fn heartbeat_round(&mut self, i: usize) {
        let id = self.ids[i].clone();
        let _ = block_on(self.nodes[i].send_heartbeats());
        self.deliver_where(|m| m.from == id && matches!(m.msg, Message::AppendEntries(_)));
        self.deliver_where(|m| m.to == id && matches!(m.msg, Message::AppendEntriesResponse(_)));
    }

    fn propose(&mut self, i: usize) {
        let b = self.block(&self.ids[i].clone());
        if self.nodes[i].propose(b).is_err() {
            self.refused += 1;
        }
    }

    fn apply(&mut self, op: &Op) -> Result<(), Fail> {
        let n = self.case.n as usize;
        match op {
            Op::Timeout(i) => self.timeout(*i as usize % n, false),
            Op::ForceElection(i) => self.timeout(*i as usize % n, true),
            Op::Age(i) => self.nodes[*i as usize % n].reset_heartbeat_for_election(),
            Op::Solicit(i) => self.solicit(*i as usize % n),
            Op::Heartbeat(w) => match self.who(*w) {
                Some(i) if self.nodes[i].state() == RaftState::Leader => {
                    let _ = block_on(self.nodes[i].send_heartbeats());
                },
                _ => self.skipped += 1,
            },
            Op::Propose(w) => match self.who(*w) {
                Some(i) if self.nodes[i].state() == RaftState::Leader => self.propose(i),
                _ => self.skipped += 1,
            },
            Op::ProposeRound(w) => match self.who(*w) {
                Some(i) if self.nodes[i].state() == RaftState::Leader => {
                    self.propose(i);
                    self.heartbeat_round(i);
                },
                _ => self.skipped += 1,
            },
            Op::Deliver(k) => {
                let len = self.bag_len();
                if len == 0 {
                    self.skipped += 1;
                } else {
                    let k = pick(*k, len);
                    if k > 0 {
                        self.out_of_order += 1;
                    }
                    self.deliver_at(k);
                }
            },
            Op::Drop(k) => {
                let len = self.bag_len();
                if len == 0 {
                    self.skipped += 1;
                } else {
                    self.net.bag.lock().unwrap().remove(pick(*k, len));
                }
            },
            Op::Duplicate(k) => {
                let len = self.bag_len();
                if len == 0 {
                    self.skipped += 1;
                } else {
                    let mut bag = self.net.bag.lock().unwrap();
                    let m = &bag[pick(*k, len)];
                    let c = InFlight { from: m.from.clone(), to: m.to.clone(), msg: m.msg.clone() };
                    bag.push(c);
                    self.dups += 1;
                }
            },
            Op::DeliverAllTo(w) => match self.who(*w) {
                Some(i) => {
                    let id = self.ids[i].clone();
                    // what is addressed to the node now; replies it triggers are not chased
                    let count = self.net.bag.lock().unwrap().iter().filter(|m| m.to == id).count();
                    for _ in 0..count {
                        let pos = self.net.bag.lock().unwrap().iter().position(|m| m.to == id);
                        if let Some(k) = pos {
                            self.deliver_at(k);
                        }
                    }
                },
                None => self.skipped += 1,
            },
            Op::DeliverFromTo(a, b) => match (self.who(*a), self.who(*b)) {
                (Some(a), Some(b)) if a != b => {
                    let (fa, tb) = (self.ids[a].clone(), self.ids[b].clone());
                    let count = self.net.bag.lock().unwrap().iter().filter(|m| m.from == fa && m.to == tb).count();
                    for _ in 0..count {
                        let pos = self.net.bag.lock().unwrap().iter().position(|m| m.from == fa && m.to == tb);
                        if let Some(k) = pos {
                            self.deliver_at(k);
                        }
                    }
                },
                _ => self.skipped += 1,
            },
            Op::DeliverLastFromTo(a, b) => match (self.who(*a), self.who(*b)) {
                (Some(a), Some(b)) if a != b => {
                    let (fa, tb) = (self.ids[a].clone(), self.ids[b].clone());
                    let pos = self.net.bag.lock().unwrap().iter().rposition(|m| m.from == fa && m.to == tb);
                    match pos {
                        Some(k) => {
                            if k > 0 {
                                self.out_of_order += 1;
                            }
                            self.deliver_at(k);
                        },
                        None => self.skipped += 1,
                    }
                },
                _ => self.skipped += 1,
            },
            Op::HeartbeatHalf(w) => match self.who(*w) {
                Some(i) if self.nodes[i].state() == RaftState::Leader => {
                    let id = self.ids[i].clone();
                    let _ = block_on(self.nodes[i].send_heartbeats());
                    self.deliver_where(|m| m.from == id && matches!(m.msg, Message::AppendEntries(_)));
                },
                _ => self.skipped += 1,
            },
            Op::HeartbeatRound(w) => match self.who(*w) {
                Some(i) if self.nodes[i].state() == RaftState::Leader => self.heartbeat_round(i),
                _ => self.skipped += 1,
            },
            Op::ElectRound(i) => {
                let i = *i as usize % n;
                if self.nodes[i].state() == RaftState::Leader {
                    self.skipped += 1;
                } else {
                    let id = self.ids[i].clone();
                    for j in 0..n {
                        self.nodes[j].reset_heartbeat_for_election();
                    }
                    self.timeout(i, false);
                    if self.case.pre_vote {
                        self.deliver_where(|m| m.from == id && matches!(m.msg, Message::PreVote(_)));
                        self.deliver_where(|m| m.to == id && matches!(m.msg, Message::PreVoteResponse(_)));
                        if self.nodes[i].state() == RaftState::Candidate {
                            self.solicit(i);
                        }
                    }
                    self.deliver_where(|m| m.from == id && matches!(m.msg, Message::RequestVote(_)));
                    self.deliver_where(|m| m.to == id && matches!(m.msg, Message::RequestVoteResponse(_)));
                }
            },
            Op::CrashRestart(i) => {
                let i = *i as usize % n;
                if self.case.store_mode {
                    // durable image = the node's persistent state at the crash instant
                    self.nodes[i]
                        .save_to_store(&self.images[i])
                        .map_err(|e| Fail::new("harness", format!("save_to_store failed: {e}")))?;
                }
                let term_before = self.nodes[i].current_term();
                let vote_before = self.vote_of(i);
                let log_before = self.log_of(i);
                let fresh = self.make_node(i)?;
                self.nodes[i] = fresh;
                self.restarts += 1;
                self.restarts_since_commit = true;
                self.last_commit[i] = 0; // commit index is volatile
                let log_after = self.log_of(i);
                if self.nodes[i].current_term() != term_before {
                    return Err(Fail::new(
                        "restart-term",
                        format!("node {i} had term {term_before} before a clean restart and {} after", self.nodes[i].current_term()),
                    ));
                }
                let vote_after = self.vote_of(i);
                if vote_after != vote_before {
                    return Err(Fail::new(
                        "restart-vote",
                        format!("node {i} had voted_for = {vote_before:?} in term {term_before} before a clean restart and {vote_after:?} after"),
                    ));
                }
                if log_after != log_before {
                    return Err(Fail::new(
                        "restart-log",
                        format!("node {i}: log differs after a clean restart: before {log_before:?} after {log_after:?}"),
                    ));
                }
            },
        }
        Ok(())
    }

    fn check(&mut self, ctx: &mut CaseCtx) -> Result<(), Fail> {
        let n = self.case.n as usize;
        let logs: Vec<Vec<(u64, Ent)>> = (0..n).map(|i| self.log_of(i)).collect();
        // log indices must be 1..=len (no compaction is generated)
        for (i, l) in logs.iter().enumerate() {
            for (k, (idx, _)) in l.iter().enumerate() {
                if *idx != k as u64 + 1 {
                    ctx.fail("log-index-gap", format!("node {i}: entry at position {k} has index {idx}"))?;
                }
            }
        }
        // 5. terms never decrease; commit index never decreases within an incarnation
        for i in 0..n {
            let t = self.nodes[i].current_term();
            if t < self.last_term[i] {
                ctx.fail("term-decreased", format!("node {i}: term went {} -> {t}", self.last_term[i]))?;
            }
            self.last_term[i] = t;
            let c = self.nodes[i].commit_index();
            if c < self.last_commit[i] {
                ctx.fail("commit-index-decreased", format!("node {i}: commit_index went {} -> {c}", self.last_commit[i]))?;
            }
            self.last_commit[i] = c;
        }
        // 1. election safety
        for i in 0..n {
            if self.nodes[i].state() == RaftState::Leader {
                let t = self.nodes[i].current_term();
                match self.leaders.get(&t) {
                    Some(&other) if other != i => {
                        ctx.fail("two-leaders-one-term", format!("nodes {other} and {i} both acted as leader in term {t}"))?;
                    },
                    Some(_) => {},
                    None => {
                        self.leaders.insert(t, i);
                    },
                }
            }
        }
        // 2. log matching
        for a in 0..n {
            for b in a + 1..n {
                let m = logs[a].len().min(logs[b].len());
                let mut top = None;
                for k in (0..m).rev() {
                    if logs[a][k].1.term == logs[b][k].1.term {
                        top = Some(k);
                        break;
                    }
                }
                if let Some(top) = top {
                    for k in 0..=top {
                        if logs[a][k].1 != logs[b][k].1 {
                            ctx.fail(
                                "log-matching",
                                format!(
                                    "nodes {a} and {b} agree on the term at index {} but differ at index {}: {:?} vs {:?}",
                                    top + 1,
                                    k + 1,
                                    logs[a][k].1,
                                    logs[b][k].1
                                ),
                            )?;
                        }
                    }
                }
            }
        }
        // 3. state-machine safety
        for i in 0..n {
            let c = self.nodes[i].commit_index();
            if c as usize > logs[i].len() {
                ctx.fail("commit-beyond-log", format!("node {i}: commit_index {c} exceeds its log length {}", logs[i].len()))?;
                continue;
            }
            let term_now = self.nodes[i].current_term();
            for idx in 1..=c {
                let e = &logs[i][idx as usize - 1].1;
                match self.committed.get(&idx) {
                    Some((prev, _)) => {
                        if prev != e {
                            ctx.fail(
                                "committed-entry-contradicted",
                                format!("index {idx} was reported committed as {prev:?}; node {i} now reports it committed as {e:?}"),
                            )?;
                        }
                    },
                    None => {
                        self.committed.insert(idx, (e.clone(), term_now));
                        self.commits_seen += 1;
                        if self.leaders.len() >= 2 {
                            self.commit_under_later_leader = true;
                        }
                        if self.restarts_since_commit && self.commits_seen > 1 {
                            self.commit_after_restart = true;
                        }
                        self.restarts_since_commit = false;
                    },
                }
            }
        }
        // 4. leader completeness
        for i in 0..n {
            if self.nodes[i].state() == RaftState::Leader {
                let t = self.nodes[i].current_term();
                for (idx, (e, seen_term)) in &self.committed {
                    if *seen_term < t {
                        let have = logs[i].get(*idx as usize - 1).map(|x| &x.1);
                        if have != Some(e) {
                            ctx.fail(
                                "leader-misses-committed-entry",
                                format!(
                                    "node {i} is leader of term {t} but its log has {have:?} at index {idx}, which was committed as {e:?} (seen in term {seen_term})"
                                ),
                            )?;
                        }
                    }
                }
            }
        }
        Ok(())
    }
}

fn run_case(case: &Case, ctx: &mut CaseCtx) -> Result<(), Fail> {
    let t0 = std::time::Instant::now();
    let mut sim = Sim::new(case)?;
    sim.check(ctx)?;
    for op in &case.ops {
        let t1 = std::time::Instant::now();
        sim.apply(op)?;
        let d1 = t1.elapsed();
        let t2 = std::time::Instant::now();
        sim.check(ctx)?;
        if std::env::var("NV_TRACE").is_ok() {
            let mut line = format!("{op:?}:");
            for i in 0..case.n as usize {
                let log: Vec<u64> = sim.log_of(i).iter().map(|e| e.1.term).collect();
                line += &format!(
                    "  n{i} {:?} t{} log{:?} c{}",
                    sim.nodes[i].state(),
                    sim.nodes[i].current_term(),
                    log,
                    sim.nodes[i].commit_index()
                );
            }
            eprintln!("{line}  inflight={} refused={} skipped={}", sim.bag_len(), sim.refused, sim.skipped);
        }
        if std::env::var("NV_PROF").is_ok() && (d1.as_millis() > 2 || t2.elapsed().as_millis() > 2) {
            eprintln!("slow op {op:?}: apply {d1:?} check {:?}", t2.elapsed());
        }
        if ctx.known_hit() {
            break;
        }
    }
    // Directed suffix (sound amplification): every node whose log lacks an entry already reported
    // committed gets an election in which all votes are requested and delivered. Raft promises it
    // cannot win; if it does, the leader-completeness check above reports it.
    if !ctx.known_hit() {
        for x in 0..case.n as usize {
            let log = sim.log_of(x);
            let lacks = sim.committed.iter().any(|(idx, (e, _))| log.get(*idx as usize - 1).map(|p| &p.1) != Some(e));
            if lacks {
                sim.suffix_elections += 1;
                for j in 0..case.n as usize {
                    sim.nodes[j].reset_heartbeat_for_election();
                }
                sim.timeout(x, true);
                let id = sim.ids[x].clone();
                sim.deliver_where(|m| m.from == id && matches!(m.msg, Message::RequestVote(_)));
                sim.deliver_where(|m| m.to == id && matches!(m.msg, Message::RequestVoteResponse(_)));
                sim.check(ctx)?;
            }
        }
    }
    if sim.suffix_elections > 0 {
        ctx.label("suffix: election attempt by a node lacking a committed entry");
    }
    // pre-vote grants are schedule-determined only while a case stays far below the 8 s timeout
    if t0.elapsed().as_secs() >= 6 {
        ctx.label("slow-case(>6s)");
    }
    let leaders = sim.leaders.len();
    ctx.label(format!("leaders={}", leaders.min(4)));
    ctx.label(format!("commits={}", match sim.commits_seen { 0 => "0", 1..=2 => "1-2", 3..=6 => "3-6", _ => "7+" }));
    if sim.restarts > 0 {
        ctx.label("restart");
    }
    if sim.out_of_order > 0 {
        ctx.label("out-of-order delivery");
    }
    if sim.dups > 0 {
        ctx.label("duplicate");
    }
    if sim.refused > 0 {
        ctx.label("propose refused (no quorum contact)");
    }
    if case.n == 5 {
        ctx.label("5 nodes");
    }
    if case.pre_vote {
        ctx.label("pre-vote");
    }
    if case.store_mode {
        ctx.label("store-image durability");
    }
    if sim.commit_under_later_leader || sim.commit_after_restart {
        ctx.set_nontrivial();
    }
    Ok(())
}

fn main() {
    main_for(PropDef {
        id: "C01",
        level: "exploration",
        rule: "histories of up to 70 (quick) / 220 (thorough) network/timer/client/crash events over 3 (3/4 of cases) or 5 real RaftNodes with pre-vote, fast-path and geometric tie-break drawn per case; non-trivial = some entry was first reported committed after at least two different leaders had existed, or a node restarted between two commits; distinct = distinct generated history (hash of its JSON)",
        assumptions: vec![
            "the harness is the network: messages are delivered only through handle_message, one at a time (handlers hold the node locks for their whole body)",
            "crash = the node object is dropped between two handler calls and rebuilt from its RaftWal file (or from a TensorStore image taken at the crash instant); torn writes belong to C10",
            "a candidate's RequestVote may be retransmitted at any time (built from the node's public state exactly as start_election builds it)",
            "snapshot install / compaction and membership change are outside the stated quantifier (fixed membership) and are not generated",
            "pre-vote grants depend on wall-clock elapsed > election_timeout.0 = 8 s; cases run in milliseconds",
        ],
        parts: vec![PropPart::new("sim", 12_000, 800_000, case_strategy, run_case).shrink_iters(4000).boxed()],
        children: vec![],
    });
}
